"""c37facts - Scala subset parser + symbolic normal-form interpreter for the statistics routines (serves C37).

Nothing of the repository is imported, run or sampled.  Three layers, all fail-closed (AnalysisError = decline, never an alarm):

  1. tokenizer + parser for the Scala fragment used by hail/stats/package.scala, LeveneHaldane.scala and the registration blocks of
     expr/ir/functions/MathFunctions.scala: defs with several parameter lists / defaults / named arguments, val / var / tuple patterns,
     if / else, match on literals, lambdas (`x => e`, `(x: T) => e`, `{ case (a, b) => e }`, placeholder `_`), infix methods
     (`to`, `min`, `#::`), `new`, `return`.  Members are anchored by NAME inside an `object` / `class` / `package object`.
  2. a domain of symbolic values
         Rat      rational function (num / den, engines.polysym.Poly with Fraction coefficients) over input symbols and ATOMS
         atom     an uninterpreted application f(v1..vk) of a library / opaque routine, interned by SEMANTIC equality of its arguments
         Bool     formula over comparison atoms (sign-normalised difference forms; Int comparisons as `L <= 0`)
         Ite / Match / Arr / Tup / Obj / Fn (reified lambda, de-Bruijn-like bound names) / Fam (indexed family len x elem(i) [if pred(i)])
         Seq      lazy stream with a list of slice / takeWhile / dropWhile / span operations
     with equality `veq` = equality of normal forms (cross-multiplied rational functions; Ite skeletons compared as decision tables over
     their condition atoms), and `vdiff` that names the first differing position.
  3. an abstract interpreter that executes a def over symbolic inputs with explicit case splits (Ite) - guards (`if (c) fatal(..)`,
     `if (c) return v`, require, assert) are collected in order; local defs, defaults, named arguments, curried defs, closures and package-level
     overloads are inlined; unknown functions / methods / syntax decline.
Int arithmetic is read over Z (no overflow), Int `/` is the atom idiv unless it divides exactly; Double arithmetic is read over Q (the
floating-point behaviour is NOT modelled - that is the part of C37 this framework does not decide).
"""
from __future__ import annotations

import itertools
from fractions import Fraction
from typing import Any, Callable, Dict, List, Optional, Sequence, Tuple

from .common import AnalysisError, read_repo, repo_path
from .polysym import Poly

# ======================================================================================
# 1. tokenizer
# ======================================================================================

Tok = Tuple[str, str, int]  # kind, text, line

_OPCHARS = set('|^&=!<>:+-*/%~#?\\')
_PUNCT = set('(){}[],.;@')
_KEYWORDS = {'if', 'else', 'val', 'var', 'def', 'match', 'case', 'new', 'throw', 'lazy', 'true', 'false', 'object', 'class', 'private',
             'override', 'final', 'return', 'while', 'for', 'extends', 'with', 'abstract', 'import', 'package', 'null', 'this', 'type',
             'implicit', 'protected', 'sealed', 'trait', 'do', 'yield', 'try', 'catch', 'finally', 'super'}


def tokenize(text: str, rel: str = '?') -> List[Tok]:
    toks: List[Tok] = []
    i, n, line = 0, len(text), 1

    def err(msg: str):
        raise AnalysisError(f'{rel}:{line}: scala tokenizer: {msg}')

    def skip_string(j: int, interpolated: bool) -> int:
        nonlocal line
        if text.startswith('""', j):
            k = text.find('"""', j + 2)
            if k < 0:
                err('unterminated triple-quoted string')
            while text.startswith('"', k + 3):
                k += 1
            line += text.count('\n', j, k)
            return k + 3
        while j < n:
            c = text[j]
            if c == '\\':
                j += 2
                continue
            if c == '"':
                return j + 1
            if c == '\n':
                err('newline in string literal')
            if interpolated and c == '$' and j + 1 < n and text[j + 1] == '{':
                depth = 1
                j += 2
                while j < n and depth:
                    d = text[j]
                    if d == '{':
                        depth += 1
                    elif d == '}':
                        depth -= 1
                    elif d == '"':
                        j = skip_string(j + 1, False) - 1
                    elif d == '\n':
                        line += 1
                    j += 1
                continue
            j += 1
        err('unterminated string literal')
        return j

    while i < n:
        c = text[i]
        if c == '\n':
            toks.append(('nl', '\n', line))
            line += 1
            i += 1
        elif c in ' \t\r':
            i += 1
        elif text.startswith('//', i):
            j = text.find('\n', i)
            i = n if j < 0 else j
        elif text.startswith('/*', i):
            depth, j = 1, i + 2
            while j < n and depth:
                if text.startswith('/*', j):
                    depth += 1
                    j += 2
                elif text.startswith('*/', j):
                    depth -= 1
                    j += 2
                else:
                    j += 1
            if depth:
                err('unterminated comment')
            line += text.count('\n', i, j)
            i = j
        elif c == '"':
            j = skip_string(i + 1, False)
            toks.append(('str', text[i:j], line))
            i = j
        elif c == "'":
            if i + 2 < n and text[i + 1] == '\\':
                j = text.find("'", i + 3)
                if j < 0 or j - i > 8:
                    err('bad char literal')
                toks.append(('char', text[i:j + 1], line))
                i = j + 1
            elif i + 2 < n and text[i + 2] == "'":
                toks.append(('char', text[i:i + 3], line))
                i += 3
            else:
                err('unsupported quote')
        elif c.isdigit():
            j = i
            kind = 'I'
            if text.startswith(('0x', '0X'), i):
                j = i + 2
                while j < n and text[j] in '0123456789abcdefABCDEF':
                    j += 1
                lit = text[i:j]
                if j < n and text[j] in 'lL':
                    j += 1
                    kind = 'L'
                toks.append(('num', kind + ':' + lit, line))
                i = j
                continue
            while j < n and text[j].isdigit():
                j += 1
            if j + 1 < n and text[j] == '.' and text[j + 1].isdigit():
                j += 1
                while j < n and text[j].isdigit():
                    j += 1
                kind = 'D'
            if j < n and text[j] in 'eE':
                k = j + 1
                if k < n and text[k] in '+-':
                    k += 1
                if k < n and text[k].isdigit():
                    while k < n and text[k].isdigit():
                        k += 1
                    j = k
                    kind = 'D'
            lit = text[i:j]
            if j < n and text[j] in 'lLdDfF' and not (j + 1 < n and (text[j + 1].isalnum() or text[j + 1] == '_')):
                kind = 'L' if text[j] in 'lL' else 'D'
                j += 1
            toks.append(('num', kind + ':' + lit, line))
            i = j
        elif c.isalpha() or c == '_' or c == '$':
            j = i
            while j < n and (text[j].isalnum() or text[j] in '_$'):
                j += 1
            # Scala: an identifier ending in `_` may continue with operator characters (D_==, D_>)
            if j - i > 1 and text[j - 1] == '_' and j < n and text[j] in _OPCHARS and not text.startswith(('//', '/*'), j):
                while j < n and text[j] in _OPCHARS and not text.startswith(('//', '/*'), j):
                    j += 1
            word = text[i:j]
            if j < n and text[j] == '"' and word in ('s', 'f', 'raw'):
                k = skip_string(j + 1, True)
                toks.append(('str', text[i:k], line))
                i = k
            else:
                toks.append(('kw' if word in _KEYWORDS else 'id', word, line))
                i = j
        elif c == '`':
            j = text.find('`', i + 1)
            if j < 0:
                err('unterminated back-quoted identifier')
            toks.append(('id', text[i + 1:j], line))
            i = j + 1
        elif c in _OPCHARS:
            j = i
            while j < n and text[j] in _OPCHARS:
                if j > i and (text.startswith('//', j) or text.startswith('/*', j)):
                    break
                j += 1
            toks.append(('op', text[i:j], line))
            i = j
        elif c in _PUNCT:
            toks.append(('p', c, line))
            i += 1
        else:
            err(f'unexpected character {c!r}')
    return toks


def _match_close(toks: Sequence[Tok], i: int) -> int:
    pairs = {'(': ')', '[': ']', '{': '}'}
    stack: List[str] = []
    j = i
    while j < len(toks):
        k, t, _ = toks[j]
        if k == 'p' and t in pairs:
            stack.append(pairs[t])
        elif k == 'p' and t in ')]}':
            if not stack or stack[-1] != t:
                raise AnalysisError(f'scala: unbalanced bracket near line {toks[j][2]}')
            stack.pop()
            if not stack:
                return j
        j += 1
    raise AnalysisError(f'scala: unterminated bracket opened at line {toks[i][2]}')


_ALPHA_INFIX = {'to', 'until', 'min', 'max'}


def _significant(toks: Sequence[Tok]) -> List[Tok]:
    """Drop newlines that cannot end a statement (inside ( ) / [ ], after an operator / `,` / `else` ..., before `else` / `.` / an infix operator)."""
    out: List[Tok] = []
    stack: List[str] = []
    n = len(toks)
    for idx, tk in enumerate(toks):
        k, t, _ = tk
        if k == 'p' and t in '([{':
            stack.append(t)
        elif k == 'p' and t in ')]}':
            if stack:
                stack.pop()
        if k != 'nl':
            out.append(tk)
            continue
        if stack and stack[-1] in '([':
            continue
        if not out or out[-1][0] == 'nl':
            continue
        pk, pt, _ = out[-1]
        if pk == 'op' or (pk == 'p' and pt in ',{(.') or (pk == 'kw' and pt in ('else', 'extends', 'with', 'match')):
            continue
        j = idx + 1
        while j < n and toks[j][0] == 'nl':
            j += 1
        if j < n:
            nk, nt, _ = toks[j]
            if (nk == 'kw' and nt == 'else') or (nk == 'p' and nt in '.)]'):
                continue
            if nk == 'op' and nt not in ('!', '-', '~', '+'):
                continue
        out.append(tk)
    return out


# ======================================================================================
# 1b. parser (subset)
# ======================================================================================

_PREC = {'|': 1, '^': 2, '&': 3, '=': 4, '!': 4, '<': 5, '>': 5, ':': 6, '+': 7, '-': 7, '*': 8, '/': 8, '%': 8}
_OTHER_PREC = 9  # any other special character (#, ?, ~, \)


def _is_assign_op(t: str) -> bool:
    return len(t) >= 2 and t.endswith('=') and t[0] not in '=!<>' or t in ('<<=', '>>=', '>>>=')


class Def:
    def __init__(self, name: str, plists: List[List[Tuple[str, str, Any]]], body: Any, line: int, rtype: str):
        self.name = name
        self.plists = plists            # [[(param, type text, default expr | None)]]
        self.body = body
        self.line = line
        self.rtype = rtype

    @property
    def params(self) -> List[Tuple[str, str, Any]]:
        return [p for pl in self.plists for p in pl]

    def __repr__(self) -> str:
        return f'<def {self.name}({", ".join(p[0] for p in self.params)})>'


class _P:
    def __init__(self, toks: Sequence[Tok], what: str):
        self.t = list(toks)
        self.i = 0
        self.what = what
        self.nph = 0

    def err(self, msg: str):
        ln = self.t[self.i][2] if self.i < len(self.t) else (self.t[-1][2] if self.t else 0)
        nxt = ' '.join(x[1] for x in self.t[self.i:self.i + 6])
        raise AnalysisError(f'scala subset parser ({self.what}, line {ln}): {msg}; next tokens: {nxt!r}')

    def peek(self, skip_nl: bool = False, ahead: int = 0) -> Optional[Tok]:
        j = self.i
        while True:
            while skip_nl and j < len(self.t) and self.t[j][0] == 'nl':
                j += 1
            if ahead == 0:
                break
            ahead -= 1
            j += 1
        return self.t[j] if j < len(self.t) else None

    def skip_nl(self):
        while self.i < len(self.t) and self.t[self.i][0] == 'nl':
            self.i += 1

    def at(self, kind: str, text: Optional[str] = None, skip_nl: bool = False) -> bool:
        tk = self.peek(skip_nl)
        return tk is not None and tk[0] == kind and (text is None or tk[1] == text)

    def eat(self, kind: str, text: Optional[str] = None, skip_nl: bool = True) -> Tok:
        if skip_nl:
            self.skip_nl()
        tk = self.peek()
        if tk is None or tk[0] != kind or (text is not None and tk[1] != text):
            self.err(f'expected {text or kind}')
        self.i += 1
        return tk  # type: ignore[return-value]

    def done(self) -> bool:
        self.skip_nl()
        return self.i >= len(self.t)

    # ---- types -----------------------------------------------------------------------
    def type_text(self, stop_at_arrow: bool = False) -> str:
        """Consume a type up to a top-level `=` / `,` / `)` / `{` / newline (and `=>` when asked)."""
        depth = 0
        out: List[str] = []
        while self.i < len(self.t):
            k, t, _ = self.t[self.i]
            if k == 'p' and t in '([':
                depth += 1
            elif k == 'p' and t in ')]':
                if depth == 0:
                    break
                depth -= 1
            elif depth == 0 and ((k == 'op' and t == '=') or (k == 'p' and t in ',{') or k == 'nl'):
                break
            elif depth == 0 and stop_at_arrow and k == 'op' and t == '=>':
                break
            out.append(t)
            self.i += 1
        return ''.join(out)

    # ---- statements ------------------------------------------------------------------
    def block_body(self, until_case: bool = False) -> List[tuple]:
        out = []
        while True:
            self.skip_nl()
            while self.at('p', ';'):
                self.i += 1
                self.skip_nl()
            if self.i >= len(self.t) or self.at('p', '}') or (until_case and self.at('kw', 'case')):
                return out
            out.append(self.stmt())

    def pattern(self) -> tuple:
        self.skip_nl()
        tk = self.peek()
        if tk is None:
            self.err('pattern expected')
        k, t, _ = tk  # type: ignore[misc]
        if k == 'p' and t == '(':
            self.i += 1
            items = []
            while True:
                self.skip_nl()
                if self.at('p', ')'):
                    self.i += 1
                    break
                items.append(self.pattern())
                self.skip_nl()
                if self.at('p', ','):
                    self.i += 1
            return ('ptuple', items) if len(items) != 1 else items[0]
        if k == 'str':
            self.i += 1
            return ('plit', _str_value(t))
        if k == 'num':
            self.i += 1
            return ('plit', _num_value(t)[0])
        if k == 'op' and t == '-' and self.peek(ahead=1) and self.peek(ahead=1)[0] == 'num':  # type: ignore[index]
            self.i += 2
            return ('plit', -_num_value(self.t[self.i - 1][1])[0])
        if k == 'kw' and t in ('true', 'false'):
            self.i += 1
            return ('plit', t == 'true')
        if k == 'id':
            self.i += 1
            name = t
            if self.at('op', ':'):
                self.i += 1
                ty = self.type_text(stop_at_arrow=True)
                return ('ptyped', None if name == '_' else name, ty)
            if self.at('p', '(') or self.at('p', '.'):
                self.err('constructor / stable-identifier patterns are outside the subset')
            return ('pwild',) if name == '_' else ('pid', name)
        self.err('pattern outside the subset')
        return ('pwild',)

    def stmt(self) -> tuple:
        self.skip_nl()
        tk = self.peek()
        if tk is None:
            self.err('statement expected')
        k, t, line = tk  # type: ignore[misc]
        if k == 'kw' and t in ('lazy', 'private', 'final', 'override', 'implicit', 'protected'):
            self.i += 1
            if self.at('p', '['):
                self.i = _match_close(self.t, self.i) + 1
            return self.stmt()
        if k == 'kw' and t in ('val', 'var'):
            self.i += 1
            pat = self.pattern()
            if pat[0] == 'ptyped':
                pat = ('pid', pat[1]) if pat[1] else ('pwild',)
            self.eat('op', '=')
            return (t, pat, self.expr(), line)
        if k == 'kw' and t == 'def':
            return ('def', self.def_())
        if k == 'kw' and t == 'import':
            while self.i < len(self.t) and self.t[self.i][0] != 'nl':
                self.i += 1
            return ('import',)
        if k == 'kw' and t in ('while', 'for', 'do', 'try'):
            self.err(f'`{t}` is outside the subset')
        if k == 'id':
            nx = self.peek(ahead=1)
            if nx is not None and nx[0] == 'op' and _is_assign_op(nx[1]):
                self.i += 2
                return ('aug', t, nx[1][:-1], self.expr(), line)
            if nx is not None and nx[0] == 'op' and nx[1] == '=':
                self.i += 2
                return ('assign', t, self.expr(), line)
        return ('expr', self.expr(), line)

    def def_(self) -> Def:
        line = self.eat('kw', 'def')[2]
        tk = self.peek()
        if tk is None or tk[0] not in ('id', 'op'):
            self.err('def name expected')
        name = tk[1]  # type: ignore[index]
        self.i += 1
        if self.at('p', '['):
            self.i = _match_close(self.t, self.i) + 1
        plists: List[List[Tuple[str, str, Any]]] = []
        while self.at('p', '(', skip_nl=False):
            plists.append(self.params())
        rtype = ''
        if self.at('op', ':'):
            self.i += 1
            rtype = self.type_text()
        if not self.at('op', '='):
            self.err(f'def {name}: expected `=`')
        self.i += 1
        body = self.expr()
        return Def(name, plists, body, line, rtype)

    def params(self) -> List[Tuple[str, str, Any]]:
        self.eat('p', '(')
        out: List[Tuple[str, str, Any]] = []
        while True:
            self.skip_nl()
            if self.at('p', ')'):
                self.i += 1
                return out
            while self.at('kw') and self.peek()[1] in ('val', 'var', 'override', 'private', 'final', 'implicit', 'protected'):  # type: ignore[index]
                self.i += 1
                if self.at('p', '['):
                    self.i = _match_close(self.t, self.i) + 1
            nm = self.eat('id')[1]
            ty = ''
            if self.at('op', ':'):
                self.i += 1
                ty = self.type_text()
            dflt = None
            if self.at('op', '='):
                self.i += 1
                dflt = self.expr()
            out.append((nm, ty, dflt))
            self.skip_nl()
            if self.at('p', ','):
                self.i += 1

    # ---- expressions -----------------------------------------------------------------
    def expr(self) -> tuple:
        """A full Expr: lambda | infix expression [match]; binds placeholder `_` occurrences that are still free in it."""
        self.skip_nl()
        lam = self.try_lambda_head()
        if lam is not None:
            return ('lambda', lam, self.expr())
        e = self.infix(0)
        while self.at('kw', 'match'):
            self.i += 1
            e = self.match_(e)
        if e != ('ph',) and _has_ph(e):
            names: List[str] = []
            e = _bind_ph(e, names, self)
            return ('lambda', [('pid', nm) for nm in names], e)
        return e

    def try_lambda_head(self) -> Optional[List[tuple]]:
        tk = self.peek()
        if tk is None:
            return None
        nx = self.peek(ahead=1)
        if tk[0] == 'id' and nx is not None and nx[0] == 'op' and nx[1] == '=>':
            self.i += 2
            return [('pwild',) if tk[1] == '_' else ('pid', tk[1])]
        if tk[0] == 'p' and tk[1] == '(':
            close = _match_close(self.t, self.i)
            if close + 1 < len(self.t) and self.t[close + 1][0] == 'op' and self.t[close + 1][1] == '=>':
                sub = _P(self.t[self.i + 1:close], self.what)
                params: List[tuple] = []
                while not sub.done():
                    nm = sub.eat('id')[1]
                    if sub.at('op', ':'):
                        sub.i += 1
                        sub.type_text()
                    params.append(('pwild',) if nm == '_' else ('pid', nm))
                    if sub.at('p', ','):
                        sub.i += 1
                self.i = close + 2
                return params
        return None

    def infix(self, min_prec: int) -> tuple:
        left = self.unary()
        while True:
            tk = self.peek()
            if tk is None:
                break
            k, t, _ = tk
            if k == 'id' and t in _ALPHA_INFIX:
                nx = self.peek(ahead=1)
                if nx is None or nx[0] in ('nl',) or (nx[0] == 'p' and nx[1] in ')]},;.'):
                    break
                prec, op = 0, t
                if prec < min_prec:
                    break
                self.i += 1
                right = self.infix(prec + 1)
                left = ('call', ('sel', left, op), [(None, right)])
                continue
            if k != 'op' or t in ('=', '=>', '<-') or _is_assign_op(t):
                break
            if t == ':':
                break
            prec = _PREC.get(t[0], _OTHER_PREC)
            if prec < min_prec:
                break
            self.i += 1
            if t.endswith(':'):
                right = self.infix(prec)          # right-associative (#::)
            else:
                right = self.infix(prec + 1)
            left = ('bin', t, left, right)
        return left

    def unary(self) -> tuple:
        self.skip_nl()
        tk = self.peek()
        if tk is None:
            self.err('expression expected')
        k, t, _ = tk  # type: ignore[misc]
        if k == 'op' and t in ('!', '-', '~', '+'):
            self.i += 1
            return ('un', t, self.unary())
        return self.postfix(self.primary())

    def args(self) -> List[Tuple[Optional[str], tuple]]:
        self.eat('p', '(')
        out: List[Tuple[Optional[str], tuple]] = []
        while True:
            self.skip_nl()
            if self.at('p', ')'):
                self.i += 1
                return out
            kw = None
            nx = self.peek(ahead=1)
            if self.at('id') and nx is not None and nx[0] == 'op' and nx[1] == '=':
                kw = self.t[self.i][1]
                self.i += 2
            out.append((kw, self.expr()))
            self.skip_nl()
            if self.at('p', ','):
                self.i += 1
                continue
            if self.at('p', ')'):
                self.i += 1
                return out
            self.err('expected , or ) in argument list')

    def brace(self) -> tuple:
        self.eat('p', '{')
        self.skip_nl()
        if self.at('kw', 'case'):
            arms = self.case_arms()
            self.eat('p', '}')
            return ('caselam', arms)
        lam = self.try_lambda_head()
        body = self.block_body()
        self.eat('p', '}')
        blk = ('block', body)
        return ('lambda', lam, blk) if lam is not None else blk

    def case_arms(self) -> List[Tuple[tuple, tuple]]:
        arms = []
        while True:
            self.skip_nl()
            if self.at('p', '}'):
                return arms
            self.eat('kw', 'case')
            pat = self.pattern()
            self.skip_nl()
            if self.at('kw', 'if'):
                self.err('pattern guards are outside the subset')
            self.eat('op', '=>')
            stmts = self.block_body(until_case=True)
            arms.append((pat, ('block', stmts)))

    def match_(self, scrut: tuple) -> tuple:
        self.eat('p', '{')
        arms = self.case_arms()
        self.eat('p', '}')
        return ('match', scrut, arms)

    def primary(self) -> tuple:
        tk = self.peek()
        k, t, line = tk  # type: ignore[misc]
        if k == 'num':
            self.i += 1
            v, ty = _num_value(t)
            return ('num', v, ty)
        if k == 'str':
            self.i += 1
            return ('str', _str_value(t), t)
        if k == 'char':
            self.i += 1
            return ('str', t[1:-1], t)
        if k == 'kw' and t in ('true', 'false'):
            self.i += 1
            return ('bool', t == 'true')
        if k == 'kw' and t == 'null':
            self.i += 1
            return ('null',)
        if k == 'kw' and t == 'this':
            self.i += 1
            return ('name', 'this')
        if k == 'id':
            self.i += 1
            return ('ph',) if t == '_' else ('name', t)
        if k == 'p' and t == '(':
            self.i += 1
            self.skip_nl()
            if self.at('p', ')'):
                self.i += 1
                return ('unit',)
            e = self.expr()
            self.skip_nl()
            if self.at('op', ':'):
                self.i += 1
                if self.at('p', '@'):
                    self.i += 1
                    self.eat('id')
                else:
                    self.type_text()
                self.skip_nl()
            if self.at('p', ','):
                items = [e]
                while self.at('p', ','):
                    self.i += 1
                    self.skip_nl()
                    if self.at('p', ')'):
                        break
                    items.append(self.expr())
                    self.skip_nl()
                self.eat('p', ')')
                return ('tuple', items)
            self.eat('p', ')')
            return ('paren', e)
        if k == 'p' and t == '{':
            return self.brace()
        if k == 'kw' and t == 'if':
            self.i += 1
            self.eat('p', '(')
            c = self.expr()
            self.eat('p', ')')
            a = self.stmt_as_expr()
            b = None
            if self.at('kw', 'else', skip_nl=True):
                self.skip_nl()
                self.i += 1
                b = self.stmt_as_expr()
            return ('if', c, a, b)
        if k == 'kw' and t == 'new':
            self.i += 1
            name = self.eat('id')[1]
            while self.at('p', '.'):
                self.i += 1
                name += '.' + self.eat('id')[1]
            if self.at('p', '['):
                self.i = _match_close(self.t, self.i) + 1
            a = self.args() if self.at('p', '(') else []
            if self.at('p', '{'):
                self.err('anonymous class bodies are outside the subset')
            return ('new', name, a)
        if k == 'kw' and t == 'throw':
            self.i += 1
            return ('throw', self.expr())
        if k == 'kw' and t == 'return':
            self.i += 1
            nx = self.peek()
            if nx is None or nx[0] == 'nl' or (nx[0] == 'p' and nx[1] in '};'):
                return ('return', None)
            return ('return', self.expr())
        self.err(f'token {t!r} outside the subset')
        return ('unit',)

    def stmt_as_expr(self) -> tuple:
        s = self.stmt()
        if s[0] == 'expr':
            return s[1]
        return ('block', [s])

    def postfix(self, e: tuple) -> tuple:
        while True:
            tk = self.peek()
            if tk is None:
                return e
            k, t, _ = tk
            if k == 'p' and t == '.':
                self.i += 1
                nm = self.peek()
                if nm is None or nm[0] not in ('id', 'kw', 'op'):
                    self.err('selector expected after .')
                self.i += 1
                e = ('sel', e, nm[1])  # type: ignore[index]
            elif k == 'p' and t == '[':
                close = _match_close(self.t, self.i)      # type arguments: kept as text (transparent to strip / eval)
                e = ('targ', e, _split_types(self.t[self.i + 1:close]))
                self.i = close + 1
            elif k == 'p' and t == '(':
                e = ('call', e, self.args())
            elif k == 'p' and t == '{' and e[0] in ('name', 'sel', 'call', 'targ'):
                e = ('call', e, [(None, self.brace())])
            else:
                return e


def _split_types(toks: Sequence[Tok]) -> List[str]:
    out: List[str] = []
    cur: List[str] = []
    depth = 0
    for k, t, _ in toks:
        if k == 'nl':
            continue
        if k == 'p' and t in '([':
            depth += 1
        elif k == 'p' and t in ')]':
            depth -= 1
        if depth == 0 and k == 'p' and t == ',':
            out.append(''.join(cur))
            cur = []
        else:
            cur.append(t)
    if cur:
        out.append(''.join(cur))
    return out


def _has_ph(e: Any) -> bool:
    if isinstance(e, tuple):
        if e == ('ph',):
            return True
        if e and e[0] in ('lambda', 'caselam'):
            return False
        return any(_has_ph(x) for x in e)
    if isinstance(e, list):
        return any(_has_ph(x) for x in e)
    return False


def _bind_ph(e: Any, names: List[str], p: _P) -> Any:
    if isinstance(e, tuple):
        if e == ('ph',):
            p.nph += 1
            nm = f'_ph{p.nph}'
            names.append(nm)
            return ('name', nm)
        if e and e[0] in ('lambda', 'caselam'):
            return e
        return tuple(_bind_ph(x, names, p) for x in e)
    if isinstance(e, list):
        return [_bind_ph(x, names, p) for x in e]
    return e


def _num_value(tok: str) -> Tuple[Fraction, str]:
    ty, lit = tok.split(':', 1)
    if lit.lower().startswith('0x'):
        return Fraction(int(lit, 16)), ty
    return Fraction(lit), ty


_ESC = {'b': '\b', 't': '\t', 'n': '\n', 'f': '\f', 'r': '\r', '"': '"', "'": "'", '\\': '\\'}


def _str_value(raw: str) -> Optional[str]:
    """Value of a plain "..." / triple-quoted literal; None for interpolated strings (their value is not needed by any rule)."""
    if not raw.startswith('"'):
        return None
    if raw.startswith('"""'):
        return raw[3:-3]
    body = raw[1:-1]
    out = []
    i = 0
    while i < len(body):
        c = body[i]
        if c == '\\' and i + 1 < len(body):
            d = body[i + 1]
            if d == 'u':
                out.append(chr(int(body[i + 2:i + 6], 16)))
                i += 6
                continue
            out.append(_ESC.get(d, d))
            i += 2
            continue
        out.append(c)
        i += 1
    return ''.join(out)


# ---- anchoring -------------------------------------------------------------------------

_MEMBER_KW = ('def', 'val', 'var', 'object', 'class', 'type', 'import', 'trait')
_MODIFIERS = ('lazy', 'private', 'final', 'override', 'abstract', 'implicit', 'protected', 'sealed', 'case')


class ScalaFile:
    def __init__(self, rel: str):
        self.rel = rel
        self.text = read_repo(rel)
        self.raw = tokenize(self.text, rel)

    def container_span(self, kind: str, name: str) -> Tuple[int, int, int]:
        """(index of the `object|class` keyword, first token inside the body braces, index of the closing brace)."""
        t = self.raw
        hits = [i for i in range(len(t) - 1) if t[i][0] == 'kw' and t[i][1] == kind and t[i + 1][0] == 'id' and t[i + 1][1] == name]
        if len(hits) != 1:
            raise AnalysisError(f'{self.rel}: expected exactly one `{kind} {name}`, found {len(hits)}')
        j = hits[0] + 2
        while j < len(t):
            k, x, _ = t[j]
            if k == 'p' and x in '([':
                j = _match_close(t, j) + 1
                continue
            if k == 'p' and x == '{':
                return hits[0], j + 1, _match_close(t, j)
            if k == 'kw' and x in ('object', 'class', 'def', 'val'):
                break
            j += 1
        raise AnalysisError(f'{self.rel}: `{kind} {name}` has no body')

    def class_params(self, name: str) -> List[Tuple[str, str, Any]]:
        start, _lo, _hi = self.container_span('class', name)
        j = start + 2
        if self.raw[j][0] == 'p' and self.raw[j][1] == '[':
            j = _match_close(self.raw, j) + 1
        if not (self.raw[j][0] == 'p' and self.raw[j][1] == '('):
            raise AnalysisError(f'{self.rel}: class {name} has no parameter list')
        close = _match_close(self.raw, j)
        p = _P(_significant(self.raw[j:close + 1]), f'{self.rel}::class {name}')
        return p.params()

    def member_slices(self, kind: str, container: str, member_kind: str, name: str) -> List[List[Tok]]:
        _start, lo, hi = self.container_span(kind, container)
        t = self.raw
        depth = 0
        i = lo
        starts: List[int] = []
        member_starts: List[int] = []
        while i < hi:
            k, x, _ = t[i]
            if k == 'p' and x in '([{':
                depth += 1
            elif k == 'p' and x in ')]}':
                depth -= 1
            elif depth == 0 and k == 'kw' and x in _MEMBER_KW:
                s = i
                while s - 1 >= lo and (t[s - 1][0] == 'kw' and t[s - 1][1] in _MODIFIERS):
                    s -= 1
                member_starts.append(s)
                if x == member_kind and i + 1 < hi and t[i + 1][0] in ('id', 'op') and t[i + 1][1] == name:
                    starts.append(s)
            i += 1
        member_starts.append(hi)
        return [list(t[s:min(m for m in member_starts if m > s)]) for s in starts]

    def defs(self, kind: str, container: str, name: str) -> List[Def]:
        res = []
        for sl in self.member_slices(kind, container, 'def', name):
            p = _P(_significant(sl), f'{self.rel}::{container}.{name}')
            st = p.stmt()
            if not p.done():
                p.err('trailing tokens after def')
            if st[0] != 'def':
                raise AnalysisError(f'{self.rel}::{container}.{name}: not a def')
            res.append(st[1])
        return res

    def val(self, kind: str, container: str, name: str) -> tuple:
        sls = self.member_slices(kind, container, 'val', name)
        if len(sls) != 1:
            raise AnalysisError(f'{self.rel}: expected exactly one `val {name}` in {container}, found {len(sls)}')
        p = _P(_significant(sls[0]), f'{self.rel}::{container}.{name}')
        st = p.stmt()
        if not p.done():
            p.err('trailing tokens after val')
        if st[0] != 'val':
            raise AnalysisError(f'{self.rel}::{container}.{name}: not a val')
        return st[2]

    def calls_with_first_string(self, fn_prefix: str, first: str) -> List[tuple]:
        """Every call `<fn_prefix...>("first", ...)[{ block }]` in the file, parsed as an expression."""
        t = self.raw
        out = []
        for i in range(len(t) - 3):
            if t[i][0] == 'id' and t[i][1].startswith(fn_prefix) and t[i + 1] == ('p', '(', t[i + 1][2]):
                j = i + 2
                while j < len(t) and t[j][0] == 'nl':
                    j += 1
                if j < len(t) and t[j][0] == 'str' and _str_value(t[j][1]) == first:
                    close = _match_close(t, i + 1)
                    end = close + 1
                    k = end
                    while k < len(t) and t[k][0] == 'nl':
                        k += 1
                    if k < len(t) and t[k][0] == 'p' and t[k][1] == '{':
                        end = _match_close(t, k) + 1
                    p = _P(_significant(t[i:end]), f'{self.rel}::{t[i][1]}("{first}")')
                    e = p.expr()
                    if not p.done():
                        p.err('trailing tokens after registration call')
                    out.append((t[i][1], e, t[i][2]))
        return out


_files: Dict[str, ScalaFile] = {}


def load(rel: str) -> ScalaFile:
    key = repo_path(rel)
    if key not in _files:
        _files[key] = ScalaFile(rel)
    return _files[key]


def parse_expr(text: str, what: str = 'spec') -> tuple:
    p = _P(_significant(tokenize(text, what)), what)
    e = p.expr()
    if not p.done():
        p.err('trailing tokens')
    return e


def parse_defs(text: str, what: str = 'spec') -> Dict[str, List[Def]]:
    """Parse a sequence of `def`s (used for the SPEC written in the rule module)."""
    p = _P(_significant(tokenize(text, what)), what)
    out: Dict[str, List[Def]] = {}
    for st in p.block_body():
        if st[0] != 'def':
            raise AnalysisError(f'{what}: only defs expected')
        out.setdefault(st[1].name, []).append(st[1])
    if not p.done():
        p.err('trailing tokens')
    return out


def strip(e: Any) -> Any:
    if isinstance(e, list):
        return [strip(x) for x in e]
    if not isinstance(e, tuple):
        return e
    if e and e[0] in ('paren', 'targ'):
        return strip(e[1])
    if e and e[0] == 'block' and len(e[1]) == 1 and e[1][0][0] == 'expr':
        return strip(e[1][0][1])
    return tuple(strip(x) for x in e)


def dotted(e: Any) -> Optional[str]:
    e = strip(e)
    parts = []
    while isinstance(e, tuple) and e and e[0] == 'sel':
        parts.append(e[2])
        e = e[1]
    if isinstance(e, tuple) and e and e[0] == 'name':
        parts.append(e[1])
        return '.'.join(reversed(parts))
    return None


def show_ast(e: Any) -> str:
    e = strip(e)
    if not isinstance(e, tuple) or not e:
        return repr(e)
    k = e[0]
    if k == 'num':
        return _show_frac(e[1])
    if k == 'bool':
        return 'true' if e[1] else 'false'
    if k == 'name':
        return e[1]
    if k == 'str':
        return e[2] if len(e) > 2 else repr(e[1])
    if k == 'sel':
        return f'{show_ast(e[1])}.{e[2]}'
    if k == 'bin':
        return f'({show_ast(e[2])} {e[1]} {show_ast(e[3])})'
    if k == 'un':
        return f'{e[1]}{show_ast(e[2])}'
    if k == 'call':
        return f'{show_ast(e[1])}(' + ', '.join((f'{kw} = ' if kw else '') + show_ast(a) for kw, a in e[2]) + ')'
    if k == 'if':
        return f'if ({show_ast(e[1])}) {show_ast(e[2])}' + (f' else {show_ast(e[3])}' if e[3] is not None else '')
    if k == 'tuple':
        return '(' + ', '.join(show_ast(x) for x in e[1]) + ')'
    if k == 'new':
        return f'new {e[1]}(' + ', '.join(show_ast(a) for _kw, a in e[2]) + ')'
    if k == 'lambda':
        return '(' + ', '.join(p[1] if p[0] == 'pid' else '_' for p in e[1]) + ') => ' + show_ast(e[2])
    if k == 'return':
        return 'return ' + (show_ast(e[1]) if e[1] is not None else '')
    if k == 'null':
        return 'null'
    return k


def _show_frac(v: Fraction) -> str:
    if v.denominator == 1:
        return str(v.numerator)
    f = float(v)
    if Fraction(repr(f)) == v:
        return repr(f)
    return f'{v.numerator}/{v.denominator}'


# ======================================================================================
# 2. symbolic values
# ======================================================================================

ONE = Poly.const(1)
ZERO = Poly()


def _pkey(p: Poly) -> tuple:
    return tuple(sorted(p.t.items()))


def _lead(p: Poly) -> Fraction:
    """Coefficient of the greatest non-constant monomial (by length, then lexicographic); the constant when there is none."""
    ks = [k for k in p.t if k]
    if not ks:
        return p.t.get((), Fraction(0))
    return p.t[max(ks, key=lambda m: (len(m), m))]


class Rat:
    """num / den with a value type: 'I' integral (Int / Long, read over Z) or 'D' (Double, read over Q)."""
    __slots__ = ('n', 'd', 'ty')

    def __init__(self, n: Poly, d: Poly = ONE, ty: str = 'I'):
        if not d.t:
            raise AnalysisError('symbolic division by the literal 0')
        if d.is_const():
            c = d.const_value()
            if c != 1:
                n = n.scale(1 / c)
            d = ONE
        elif not n.t:
            d = ONE
        self.n, self.d, self.ty = n, d, ty

    @staticmethod
    def const(c, ty: str = 'I') -> 'Rat':
        return Rat(Poly.const(Fraction(c)), ONE, ty)

    @staticmethod
    def sym(s: str, ty: str = 'I') -> 'Rat':
        return Rat(Poly.sym(s), ONE, ty)

    def is_const(self) -> bool:
        return self.d.is_const() and self.n.is_const()

    def const_value(self) -> Fraction:
        return self.n.const_value()

    def retag(self, ty: str) -> 'Rat':
        return self if ty == self.ty else Rat(self.n, self.d, ty)

    def key(self) -> tuple:
        n, d = self.n, self.d
        if not d.is_const():
            c = _lead(d)
            if c != 1:
                n, d = n.scale(1 / c), d.scale(1 / c)
        return (_pkey(n), _pkey(d))

    def symbols(self) -> List[str]:
        return sorted(set(self.n.symbols()) | set(self.d.symbols()))

    def as_single_symbol(self) -> Optional[str]:
        if self.d.is_const() and list(self.n.t.keys()) and all(len(k) == 1 for k in self.n.t) and len(self.n.t) == 1:
            (k, v), = self.n.t.items()
            if v == 1:
                return k[0]
        return None


def _jty(a: Rat, b: Rat) -> str:
    return 'D' if 'D' in (a.ty, b.ty) else 'I'


def r_add(a: Rat, b: Rat) -> Rat:
    if a.d == b.d:
        return Rat(a.n + b.n, a.d, _jty(a, b))
    return Rat(a.n * b.d + b.n * a.d, a.d * b.d, _jty(a, b))


def r_neg(a: Rat) -> Rat:
    return Rat(-a.n, a.d, a.ty)


def r_sub(a: Rat, b: Rat) -> Rat:
    return r_add(a, r_neg(b))


def r_mul(a: Rat, b: Rat) -> Rat:
    return Rat(a.n * b.n, a.d * b.d, _jty(a, b))


def r_truediv(a: Rat, b: Rat, ty: str = 'D') -> Rat:
    if not b.n.t:
        raise AnalysisError('symbolic division by the literal 0')
    return Rat(a.n * b.d, a.d * b.n, ty)


def r_eq(a: Rat, b: Rat) -> bool:
    if a is b:
        return True
    if a.d.t == b.d.t:
        return a.n.t == b.n.t
    return (a.n * b.d) == (b.n * a.d)


class StrV:
    def __init__(self, v: Optional[str]):
        self.v = v


class StrSym:
    def __init__(self, name: str):
        self.name = name


class NullV:
    pass


class UnitV:
    pass


class ArrV:
    def __init__(self, items: List[Any]):
        self.items = items


class TupV:
    def __init__(self, items: List[Any]):
        self.items = items


class Ite:
    def __init__(self, c: 'BoolV', a: Any, b: Any):
        self.c, self.a, self.b = c, a, b


class MatchV:
    def __init__(self, scrut: StrSym, arms: List[Tuple[Any, Any]], default: Any):
        self.scrut, self.arms, self.default = scrut, arms, default


class ObjV:
    def __init__(self, cls: str, args: List[Any]):
        self.cls, self.args = cls, args


class FnV:
    """A reified function: body is a value over the bound names `params` (canonical, depth-indexed)."""

    def __init__(self, params: List[str], body: Any):
        self.params, self.body = params, body


class Fam:
    """Indexed family: elem (over the free index symbol $i), i = 0 .. n-1, restricted to the indices where pred holds."""

    def __init__(self, n: Rat, elem: Any, pred: Optional['BoolV'] = None, idx: str = '$i'):
        self.n, self.elem, self.pred, self.idx = n, elem, pred, idx


class RangeV:
    def __init__(self, lo: Rat, hi: Rat):
        self.lo, self.hi = lo, hi


class SeqV:
    """A lazy stream: base ('sym', name) | ('gen', def name, [args]) followed by operations."""

    def __init__(self, base: tuple, ops: Tuple[tuple, ...] = ()):
        self.base, self.ops = base, ops


class ConsV:
    def __init__(self, head: Any, tail: Any):
        self.head, self.tail = head, tail


class RecCall:
    def __init__(self, name: str, args: List[Any]):
        self.name, self.args = name, args


class Abort:
    def __init__(self, kind: str, what: str = ''):
        self.kind, self.what = kind, what


class RetV:
    def __init__(self, value: Any):
        self.value = value


class LamV:
    def __init__(self, params: List[tuple], body: Any, env: 'Env', cases: Optional[List[Tuple[tuple, Any]]] = None):
        self.params, self.body, self.env, self.cases = params, body, env, cases


class DefV:
    def __init__(self, d: Def, env: 'Env', bound: Optional[List[Dict[str, Any]]] = None):
        self.d, self.env, self.bound = d, env, bound or []


# ---- atoms ---------------------------------------------------------------------------


class _Atoms:
    def __init__(self):
        self.by_name: Dict[str, Tuple[str, List[Any], str]] = {}
        self.by_f: Dict[str, List[str]] = {}
        self.fv: Dict[str, frozenset] = {}

    def reset(self):
        self.__init__()

    def intern(self, f: str, args: List[Any], ty: str) -> Rat:
        for nm in self.by_f.get(f, ()):
            _f, a2, t2 = self.by_name[nm]
            if len(a2) == len(args) and all(veq(x, y) for x, y in zip(args, a2)):
                return Rat.sym(nm, t2)
        self.count = getattr(self, 'count', 0) + 1
        nm = f'{f}\u27e8{self.count}\u27e9'
        self.by_name[nm] = (f, list(args), ty)
        self.by_f.setdefault(f, []).append(nm)
        s: set = set()
        for a in args:
            s |= free_syms(a)
        self.fv[nm] = frozenset(s)
        return Rat.sym(nm, ty)

    def get(self, nm: str) -> Optional[Tuple[str, List[Any], str]]:
        return self.by_name.get(nm)


ATOMS = _Atoms()


def atom(f: str, args: List[Any], ty: str = 'D') -> Rat:
    return ATOMS.intern(f, args, ty)


def atom_of(r: Any) -> Optional[Tuple[str, List[Any], str]]:
    """(f, args, ty) when r is exactly one atom."""
    if isinstance(r, Rat):
        s = r.as_single_symbol()
        if s is not None:
            return ATOMS.get(s)
    return None


def free_syms(v: Any) -> set:
    """Plain (non-atom) symbols a value depends on, looking through atoms."""
    out: set = set()
    if isinstance(v, Rat):
        for s in v.symbols():
            if s in ATOMS.by_name:
                out |= ATOMS.fv[s]
            else:
                out.add(s)
    elif isinstance(v, BoolV):
        for r in v.rats():
            out |= free_syms(r)
        out |= v.syms()
    elif isinstance(v, (ArrV, TupV)):
        for x in v.items:
            out |= free_syms(x)
    elif isinstance(v, Ite):
        out |= free_syms(v.c) | free_syms(v.a) | free_syms(v.b)
    elif isinstance(v, MatchV):
        out.add(v.scrut.name)
        for _c, x in v.arms:
            out |= free_syms(x)
        if v.default is not None:
            out |= free_syms(v.default)
    elif isinstance(v, ObjV):
        for x in v.args:
            out |= free_syms(x)
    elif isinstance(v, FnV):
        out |= free_syms(v.body) - set(v.params)
    elif isinstance(v, Fam):
        out |= free_syms(v.n) | free_syms(v.elem)
        if v.pred is not None:
            out |= free_syms(v.pred)
    elif isinstance(v, RangeV):
        out |= free_syms(v.lo) | free_syms(v.hi)
    elif isinstance(v, SeqV):
        if v.base[0] == 'gen':
            for x in v.base[2]:
                out |= free_syms(x)
        else:
            out.add(v.base[1])
        for op in v.ops:
            for x in op[1:]:
                out |= free_syms(x)
    elif isinstance(v, ConsV):
        out |= free_syms(v.head) | free_syms(v.tail)
    elif isinstance(v, RecCall):
        for x in v.args:
            out |= free_syms(x)
    elif isinstance(v, RetV):
        out |= free_syms(v.value)
    elif isinstance(v, StrSym):
        out.add(v.name)
    return out


# ---- boolean formulas ----------------------------------------------------------------

_BASES: Dict[tuple, Tuple[Rat, bool]] = {}   # base key -> (non-constant part M, integral?)
_BAPPS: Dict[tuple, Tuple[str, List[Any]]] = {}


class BoolV:
    """node: ('c', b) | ('cmp', rel, basekey, threshold) rel in le/lt/eq (M <= t, M < t, M == t) | ('bsym', name) | ('streq', sym, const)
    | ('app', key) opaque predicate | ('not', x) | ('and', (..)) | ('or', (..))"""
    __slots__ = ('node',)

    def __init__(self, node: tuple):
        self.node = node

    def is_const(self) -> bool:
        return self.node[0] == 'c'

    def const_value(self) -> bool:
        return self.node[1]

    def atoms(self) -> List[tuple]:
        out: List[tuple] = []

        def rec(n):
            if n[0] in ('cmp', 'bsym', 'streq', 'app'):
                if n not in out:
                    out.append(n)
            elif n[0] == 'not':
                rec(n[1])
            elif n[0] in ('and', 'or'):
                for x in n[1]:
                    rec(x)
        rec(self.node)
        return out

    def rats(self) -> List[Any]:
        out: List[Any] = []
        for a in self.atoms():
            if a[0] == 'cmp':
                out.append(_BASES[a[2]][0])
            elif a[0] == 'app':
                out.extend(_BAPPS[a[1]][1])
        return out

    def syms(self) -> set:
        out = set()
        for a in self.atoms():
            if a[0] == 'bsym':
                out.add(a[1])
            elif a[0] == 'streq':
                out.add(a[1])
        return out


TRUE = BoolV(('c', True))
FALSE = BoolV(('c', False))


def b_not(x: BoolV) -> BoolV:
    n = x.node
    if n[0] == 'c':
        return BoolV(('c', not n[1]))
    if n[0] == 'not':
        return BoolV(n[1])
    return BoolV(('not', n))


def _b_nary(kind: str, xs: Sequence[BoolV]) -> BoolV:
    unit = kind == 'and'
    items: List[tuple] = []
    for x in xs:
        n = x.node
        if n[0] == 'c':
            if n[1] != unit:
                return BoolV(('c', not unit))
            continue
        sub = n[1] if n[0] == kind else (n,)
        for s in sub:
            if s not in items:
                items.append(s)
    if not items:
        return BoolV(('c', unit))
    if len(items) == 1:
        return BoolV(items[0])
    return BoolV((kind, tuple(sorted(items, key=repr))))


def b_and(*xs: BoolV) -> BoolV:
    return _b_nary('and', xs)


def b_or(*xs: BoolV) -> BoolV:
    return _b_nary('or', xs)


def b_ite(c: BoolV, a: BoolV, b: BoolV) -> BoolV:
    return b_or(b_and(c, a), b_and(b_not(c), b))


def _split_base(p: Poly, integral: bool) -> Tuple[Poly, Fraction, int]:
    """p = s * (g * M) + c with M normalised (leading coefficient positive; primitive for integers, leading 1 for reals).
    Returns (M, c / (s*g) i.e. the constant expressed in units of M, sign s)."""
    c = p.t.get((), Fraction(0))
    m = Poly({k: v for k, v in p.t.items() if k})
    lead = _lead(m)
    s = 1 if lead > 0 else -1
    if integral:
        import math
        nums = [v for v in m.t.values()]
        den = 1
        for v in nums:
            den = den * v.denominator // math.gcd(den, v.denominator)
        ints = [int(v * den) for v in nums]
        g = 0
        for v in ints:
            g = math.gcd(g, abs(v))
        scale = Fraction(g, den) * s
    else:
        scale = lead
    return m.scale(1 / scale), c / scale, s


def _base_key(m: Rat) -> tuple:
    k = m.key()
    if k not in _BASES:
        _BASES[k] = (m, m.ty == 'I')
    return k


def _floor(x: Fraction) -> int:
    return x.numerator // x.denominator


def _ceil(x: Fraction) -> int:
    return -((-x.numerator) // x.denominator)


def mk_cmp(op: str, a: Rat, b: Rat) -> BoolV:
    """a op b as a formula over normalised comparison atoms."""
    diff = r_sub(a, b)
    if diff.is_const():
        v = diff.const_value()
        return BoolV(('c', {'<': v < 0, '<=': v <= 0, '>': v > 0, '>=': v >= 0, '==': v == 0, '!=': v != 0}[op]))
    if diff.d.is_const() and '+Inf' in diff.n.symbols():
        inf_terms = {k: v for k, v in diff.n.t.items() if '+Inf' in k}
        rest = Poly({k: v for k, v in diff.n.t.items() if '+Inf' not in k})
        if list(inf_terms) == [('+Inf',)] and rest.is_const():
            v = inf_terms[('+Inf',)]          # sign of an infinite quantity
            return BoolV(('c', {'<': v < 0, '<=': v < 0, '>': v > 0, '>=': v > 0, '==': False, '!=': True}[op]))
    integral = diff.ty == 'I' and diff.d.is_const()
    if op == '!=':
        return b_not(mk_cmp('==', a, b))
    if op == '>':
        return mk_cmp('<', b, a)
    if op == '>=':
        return mk_cmp('<=', b, a)
    if not diff.d.is_const():
        # rational difference: keep num/den as the base with threshold 0 (sign-normalised through the numerator)
        s = 1 if _lead(diff.n) > 0 else -1
        base = Rat(diff.n.scale(s), diff.d, 'D')
        k = _base_key(base)
        if op == '==':
            return BoolV(('cmp', 'eq', k, Fraction(0)))
        node = ('cmp', 'lt' if op == '<' else 'le', k, Fraction(0))
        if s > 0:
            return BoolV(node)
        # -X < 0  <=>  X > 0  <=> not (X <= 0) ;  -X <= 0 <=> not (X < 0)
        return b_not(BoolV(('cmp', 'le' if op == '<' else 'lt', k, Fraction(0))))
    m, c, s = _split_base(diff.n, integral)
    mr = Rat(m, ONE, 'I' if integral else 'D')
    # diff = scale * (M + c) with sign(scale) = s
    if integral:
        # expand min / max standing alone
        single = mr.as_single_symbol()
        at = ATOMS.get(single) if single else None
        if at is not None and at[0] in ('min', 'max') and op in ('<', '<=') and all(isinstance(x, Rat) and x.ty == 'I' for x in at[1]):
            kc = Rat.const(c)
            parts = [mk_cmp(op, r_add(x, kc) if s > 0 else r_neg(r_add(x, kc)), Rat.const(0)) for x in at[1]]
            # s>0: min(..)+c op 0 <=> some part ; max <=> all parts.  s<0: -(min+c) op 0 <=> min+c >= .. <=> all parts ; max <=> some part
            some = (at[0] == 'min') == (s > 0)
            return b_or(*parts) if some else b_and(*parts)
        k = _base_key(mr)
        if op == '==':
            if c.denominator != 1:
                return FALSE
            return BoolV(('cmp', 'eq', k, -c))
        # s*(M + c) (<|<=) 0
        if s > 0:
            return BoolV(('cmp', 'le', k, Fraction(_floor(-c) if op == '<=' else _ceil(-c) - 1)))
        # M + c >= 0 (op <=)  <=> not (M <= ceil(-c) - 1) ;  M + c > 0 (op <) <=> not (M <= floor(-c))
        return b_not(BoolV(('cmp', 'le', k, Fraction(_ceil(-c) - 1 if op == '<=' else _floor(-c)))))
    k = _base_key(mr)
    if op == '==':
        return BoolV(('cmp', 'eq', k, -c))
    if s > 0:
        return BoolV(('cmp', 'lt' if op == '<' else 'le', k, -c))
    return b_not(BoolV(('cmp', 'le' if op == '<' else 'lt', k, -c)))


def mk_bapp(name: str, args: List[Any]) -> BoolV:
    for k, (n2, a2) in _BAPPS.items():
        if n2 == name and len(a2) == len(args) and all(veq(x, y) for x, y in zip(args, a2)):
            return BoolV(('app', k))
    k = (name, len(_BAPPS))
    _BAPPS[k] = (name, list(args))
    return BoolV(('app', k))


def _regions(ts: List[Fraction], integral: bool) -> List[tuple]:
    ts = sorted(set(ts))
    out: List[tuple] = [('lt', ts[0])]
    for i, t in enumerate(ts):
        out.append(('eq', t))
        if i + 1 < len(ts):
            if not (integral and ts[i + 1] - t == 1):
                out.append(('in', t, ts[i + 1]))
    out.append(('gt', ts[-1]))
    return out


def _cmp_in_region(rel: str, t: Fraction, reg: tuple) -> bool:
    # position of M relative to t: -1 below, 0 equal, +1 above
    if reg[0] == 'lt':
        pos = -1 if reg[1] <= t else None
    elif reg[0] == 'gt':
        pos = 1 if reg[1] >= t else None
    elif reg[0] == 'eq':
        pos = 0 if reg[1] == t else (-1 if reg[1] < t else 1)
    else:
        lo, hi = reg[1], reg[2]
        pos = -1 if hi <= t else (1 if lo >= t else None)
    if pos is None:
        raise AnalysisError('internal: threshold not aligned with region')
    return {'le': pos <= 0, 'lt': pos < 0, 'eq': pos == 0}[rel]


class Valuation:
    def __init__(self, regs: Dict[tuple, tuple], bools: Dict[tuple, bool], strs: Dict[str, Optional[str]]):
        self.regs, self.bools, self.strs = regs, bools, strs

    def ev(self, n: tuple) -> bool:
        k = n[0]
        if k == 'c':
            return n[1]
        if k == 'cmp':
            return _cmp_in_region(n[1], n[3], self.regs[n[2]])
        if k in ('bsym', 'app'):
            return self.bools[n]
        if k == 'streq':
            return self.strs[n[1]] == n[2]
        if k == 'not':
            return not self.ev(n[1])
        if k == 'and':
            return all(self.ev(x) for x in n[1])
        if k == 'or':
            return any(self.ev(x) for x in n[1])
        raise AnalysisError(f'internal: boolean node {k}')

    def describe(self) -> str:
        parts = []
        for bk, reg in self.regs.items():
            m = vshow(_BASES[bk][0])
            if reg[0] == 'in':
                parts.append(f'{_show_frac(reg[1])} < {m} < {_show_frac(reg[2])}')
            else:
                parts.append(f'{m} {dict(lt="<", eq="=", gt=">")[reg[0]]} {_show_frac(reg[1])}')
        for n, v in self.bools.items():
            parts.append(f'{n[1] if n[0] == "bsym" else _BAPPS[n[1]][0] + "(..)"}={"true" if v else "false"}')
        for s, v in self.strs.items():
            parts.append(f'{s}={v!r}' if v is not None else f'{s}=<other>')
        return ', '.join(parts)


def valuations(atoms: Sequence[tuple], limit: int = 300000):
    """Every consistent valuation of the atoms: per comparison base the order regions around its thresholds, independent bases."""
    bases: Dict[tuple, List[Fraction]] = {}
    bools: List[tuple] = []
    strs: Dict[str, List[str]] = {}
    for a in atoms:
        if a[0] == 'cmp':
            bases.setdefault(a[2], []).append(a[3])
        elif a[0] in ('bsym', 'app'):
            if a not in bools:
                bools.append(a)
        elif a[0] == 'streq':
            strs.setdefault(a[1], [])
            if a[2] not in strs[a[1]]:
                strs[a[1]].append(a[2])
    bkeys = list(bases)
    reg_lists = [_regions(bases[k], _BASES[k][1]) for k in bkeys]
    skeys = list(strs)
    str_lists = [strs[k] + [None] for k in skeys]
    total = 1
    for l in reg_lists:
        total *= len(l)
    for l in str_lists:
        total *= len(l)
    total *= 2 ** len(bools)
    if total > limit:
        raise AnalysisError(f'condition table too large ({total} cells)')
    for regs in itertools.product(*reg_lists):
        for bs in itertools.product((False, True), repeat=len(bools)):
            for ss in itertools.product(*str_lists):
                yield Valuation(dict(zip(bkeys, regs)), dict(zip(bools, bs)), dict(zip(skeys, ss)))


def bool_diff(f: BoolV, g: BoolV, assume: Optional[BoolV] = None) -> Optional[Valuation]:
    """A consistent valuation of the atoms (satisfying `assume`) on which f and g differ; None when they agree everywhere."""
    atoms = list(f.atoms())
    for a in g.atoms() + (assume.atoms() if assume is not None else []):
        if a not in atoms:
            atoms.append(a)
    for v in valuations(atoms):
        if assume is not None and not v.ev(assume.node):
            continue
        if v.ev(f.node) != v.ev(g.node):
            return v
    return None


def bool_implies_cex(f: BoolV, g: BoolV, assume: Optional[BoolV] = None) -> Optional[Valuation]:
    return bool_diff(b_or(b_not(f), g), TRUE, assume)


# ---- equality / difference of values --------------------------------------------------


def vshow(v: Any, depth: int = 0) -> str:
    if depth > 6:
        return '…'
    if isinstance(v, Rat):
        def poly(p: Poly) -> str:
            if not p.t:
                return '0'
            parts = []
            for k in sorted(p.t, key=lambda m: (len(m), m)):
                c = p.t[k]
                body = '*'.join(_show_sym(x, depth) for x in k)
                if not k:
                    parts.append(_show_frac(c))
                elif c == 1:
                    parts.append(body)
                elif c == -1:
                    parts.append('-' + body)
                else:
                    parts.append(_show_frac(c) + '*' + body)
            return ' + '.join(parts).replace('+ -', '- ')
        if v.d.is_const():
            return poly(v.n)
        return f'({poly(v.n)}) / ({poly(v.d)})'
    if isinstance(v, BoolV):
        return bshow(v.node)
    if isinstance(v, StrV):
        return repr(v.v)
    if isinstance(v, StrSym):
        return v.name
    if isinstance(v, NullV):
        return 'null'
    if isinstance(v, UnitV):
        return '()'
    if isinstance(v, ArrV):
        return 'Array(' + ', '.join(vshow(x, depth + 1) for x in v.items) + ')'
    if isinstance(v, TupV):
        return '(' + ', '.join(vshow(x, depth + 1) for x in v.items) + ')'
    if isinstance(v, Ite):
        return f'if ({vshow(v.c)}) {vshow(v.a, depth + 1)} else {vshow(v.b, depth + 1)}'
    if isinstance(v, MatchV):
        return f'{v.scrut.name} match {{' + '; '.join(f'{c!r} => {vshow(x, depth + 1)}' for c, x in v.arms) + '}'
    if isinstance(v, ObjV):
        return f'{v.cls}(' + ', '.join(vshow(x, depth + 1) for x in v.args) + ')'
    if isinstance(v, FnV):
        return f'({", ".join(v.params)}) => {vshow(v.body, depth + 1)}'
    if isinstance(v, Fam):
        p = f' if {vshow(v.pred)}' if v.pred is not None else ''
        return f'[{vshow(v.elem, depth + 1)} | {v.idx} < {vshow(v.n)}{p}]'
    if isinstance(v, RangeV):
        return f'({vshow(v.lo)} to {vshow(v.hi)})'
    if isinstance(v, SeqV):
        b = v.base[1] if v.base[0] == 'sym' else f'{v.base[1]}(' + ', '.join(vshow(x) for x in v.base[2]) + ')'
        return b + ''.join('.' + op[0] + '(' + ', '.join(vshow(x, depth + 1) for x in op[1:]) + ')' for op in v.ops)
    if isinstance(v, ConsV):
        return f'{vshow(v.head)} #:: {vshow(v.tail)}'
    if isinstance(v, RecCall):
        return f'{v.name}(' + ', '.join(vshow(x) for x in v.args) + ')'
    if isinstance(v, Abort):
        return f'<{v.kind}>'
    if isinstance(v, RetV):
        return f'return {vshow(v.value)}'
    if isinstance(v, (LamV, DefV)):
        return '<closure>'
    return repr(v)


def bshow(n: tuple) -> str:
    k = n[0]
    if k == 'c':
        return 'true' if n[1] else 'false'
    if k == 'cmp':
        return f'{vshow(_BASES[n[2]][0])} {dict(le="<=", lt="<", eq="==")[n[1]]} {_show_frac(n[3])}'
    if k == 'bsym':
        return n[1]
    if k == 'streq':
        return f'{n[1]} == {n[2]!r}'
    if k == 'app':
        nm, args = _BAPPS[n[1]]
        return f'{nm}(' + ', '.join(vshow(a) for a in args) + ')'
    if k == 'not':
        return f'!({bshow(n[1])})'
    return '(' + (' && ' if k == 'and' else ' || ').join(bshow(x) for x in n[1]) + ')'


def _show_sym(s: str, depth: int) -> str:
    at = ATOMS.get(s)
    if at is None:
        return s
    if depth > 4:
        return at[0] + '(…)'
    return at[0] + '(' + ', '.join(vshow(a, depth + 1) for a in at[1]) + ')'


class Diff:
    """First difference between two normal forms; the texts are rendered lazily (vdiff is also the equality test used while interning)."""

    def __init__(self, path: str, a: Any, b: Any, note: str = ''):
        self.path, self._a, self._b, self.note = path, a, b, note

    @property
    def a(self) -> str:
        return self._a if isinstance(self._a, str) else vshow(self._a)

    @property
    def b(self) -> str:
        return (self._b if isinstance(self._b, str) else vshow(self._b)) + self.note

    def __str__(self) -> str:
        return f'at {self.path or "<top>"}: code has `{short_(self.a)}`, expected `{short_(self.b)}`'


def short_(s: str, n: int = 220) -> str:
    return s if len(s) <= n else s[:n - 1] + '…'


def veq(a: Any, b: Any) -> bool:
    return vdiff(a, b) is None


def _ite_atoms(v: Any, out: List[tuple]) -> None:
    if isinstance(v, Ite):
        for a in v.c.atoms():
            if a not in out:
                out.append(a)
        _ite_atoms(v.a, out)
        _ite_atoms(v.b, out)


def _ite_leaf(v: Any, val: Valuation) -> Any:
    while isinstance(v, Ite):
        v = v.a if val.ev(v.c.node) else v.b
    return v


def vdiff(a: Any, b: Any, path: str = '') -> Optional[Diff]:
    """None when the normal forms agree, else the first difference (code side a, expected side b)."""
    if a is b:
        return None
    if isinstance(a, Ite) or isinstance(b, Ite):
        atoms: List[tuple] = []
        _ite_atoms(a, atoms)
        _ite_atoms(b, atoms)
        seen: List[Tuple[Any, Any]] = []
        for val in valuations(atoms):
            la, lb = _ite_leaf(a, val), _ite_leaf(b, val)
            if any(x is la and y is lb for x, y in seen):
                continue
            d = vdiff(la, lb, path + f'[case {val.describe()}]')
            if d is not None:
                return d
            seen.append((la, lb))
        return None
    if isinstance(a, Rat) and isinstance(b, Rat):
        if r_eq(a, b):
            return None
        # descend when both are a single atom of the same function (better message)
        aa, ab = atom_of(a), atom_of(b)
        if aa is not None and ab is not None and aa[0] == ab[0] and len(aa[1]) == len(ab[1]):
            for i, (x, y) in enumerate(zip(aa[1], ab[1])):
                d = vdiff(x, y, f'{path}/{aa[0]}.arg{i}')
                if d is not None:
                    return d
        return Diff(path, a, b)
    if type(a) is not type(b):
        return Diff(path, a, b)
    if isinstance(a, BoolV):
        if a.node == b.node:
            return None
        w = bool_diff(a, b)
        return None if w is None else Diff(path, a, b, f' (they differ when {w.describe()})')
    if isinstance(a, StrV):
        return None if a.v == b.v else Diff(path, a, b)
    if isinstance(a, StrSym):
        return None if a.name == b.name else Diff(path, a.name, b.name)
    if isinstance(a, (NullV, UnitV)):
        return None
    if isinstance(a, (ArrV, TupV)):
        if len(a.items) != len(b.items):
            return Diff(path, a, b)
        for i, (x, y) in enumerate(zip(a.items, b.items)):
            d = vdiff(x, y, f'{path}[{i}]')
            if d is not None:
                return d
        return None
    if isinstance(a, MatchV):
        if a.scrut.name != b.scrut.name or sorted(map(repr, (c for c, _ in a.arms))) != sorted(map(repr, (c for c, _ in b.arms))):
            return Diff(path, a, b)
        bm = {repr(c): x for c, x in b.arms}
        for c, x in a.arms:
            d = vdiff(x, bm[repr(c)], f'{path}[{a.scrut.name}={c!r}]')
            if d is not None:
                return d
        if (a.default is None) != (b.default is None):
            return Diff(path + '[default]', a.default, b.default)
        return None if a.default is None else vdiff(a.default, b.default, path + '[default]')
    if isinstance(a, ObjV):
        if a.cls != b.cls or len(a.args) != len(b.args):
            return Diff(path, a, b)
        for i, (x, y) in enumerate(zip(a.args, b.args)):
            d = vdiff(x, y, f'{path}/{a.cls}.arg{i}')
            if d is not None:
                return d
        return None
    if isinstance(a, FnV):
        if a.params != b.params:
            return Diff(path, a, b)
        return vdiff(a.body, b.body, path + '/fn')
    if isinstance(a, Fam):
        d = vdiff(a.n, b.n, path + '/len') or vdiff(a.elem, b.elem, path + '/elem')
        if d is not None:
            return d
        if (a.pred is None) != (b.pred is None):
            return Diff(path + '/filter', a.pred, b.pred)
        return None if a.pred is None else vdiff(a.pred, b.pred, path + '/filter')
    if isinstance(a, RangeV):
        return vdiff(a.lo, b.lo, path + '/from') or vdiff(a.hi, b.hi, path + '/to')
    if isinstance(a, SeqV):
        if a.base[0] != b.base[0] or a.base[1] != b.base[1]:
            return Diff(path, a, b)
        if a.base[0] == 'gen':
            if len(a.base[2]) != len(b.base[2]):
                return Diff(path, a, b)
            for i, (x, y) in enumerate(zip(a.base[2], b.base[2])):
                d = vdiff(x, y, f'{path}/{a.base[1]}.arg{i}')
                if d is not None:
                    return d
        if len(a.ops) != len(b.ops) or any(x[0] != y[0] or len(x) != len(y) for x, y in zip(a.ops, b.ops)):
            return Diff(path, a, b)
        for x, y in zip(a.ops, b.ops):
            for i, (p, q) in enumerate(zip(x[1:], y[1:])):
                d = vdiff(p, q, f'{path}.{x[0]}.arg{i}')
                if d is not None:
                    return d
        return None
    if isinstance(a, ConsV):
        return vdiff(a.head, b.head, path + '/head') or vdiff(a.tail, b.tail, path + '/tail')
    if isinstance(a, RecCall):
        if a.name != b.name or len(a.args) != len(b.args):
            return Diff(path, a, b)
        for i, (x, y) in enumerate(zip(a.args, b.args)):
            d = vdiff(x, y, f'{path}/{a.name}.arg{i}')
            if d is not None:
                return d
        return None
    if isinstance(a, Abort):
        return None if a.kind == b.kind else Diff(path, a, b)
    if isinstance(a, RetV):
        return vdiff(a.value, b.value, path + '/return')
    raise AnalysisError(f'cannot compare values of kind {type(a).__name__}')


# ---- substitution ---------------------------------------------------------------------


def vsubst(v: Any, sub: Dict[str, Rat]) -> Any:
    if not (free_syms(v) & set(sub)):
        return v
    if isinstance(v, Rat):
        def term(p: Poly) -> Rat:
            acc = Rat.const(0, v.ty)
            for mono, c in p.t.items():
                t = Rat.const(c, v.ty)
                for s in mono:
                    if s in sub:
                        f = sub[s]
                    elif s in ATOMS.by_name and (ATOMS.fv[s] & set(sub)):
                        fn, args, ty = ATOMS.by_name[s]
                        f = rebuild_atom(fn, [vsubst(x, sub) for x in args], ty)
                    else:
                        f = Rat.sym(s, v.ty)
                    t = r_mul(t, f)
                acc = r_add(acc, t)
            return acc
        n = term(v.n)
        if v.d.is_const():
            return n.retag(v.ty) if n.ty != v.ty and v.ty == 'D' else n
        return r_truediv(n, term(v.d), v.ty)
    if isinstance(v, BoolV):
        return _bsubst(v.node, sub)
    if isinstance(v, ArrV):
        return ArrV([vsubst(x, sub) for x in v.items])
    if isinstance(v, TupV):
        return TupV([vsubst(x, sub) for x in v.items])
    if isinstance(v, Ite):
        return mk_ite(vsubst(v.c, sub), vsubst(v.a, sub), vsubst(v.b, sub))
    if isinstance(v, MatchV):
        return MatchV(v.scrut, [(c, vsubst(x, sub)) for c, x in v.arms], None if v.default is None else vsubst(v.default, sub))
    if isinstance(v, ObjV):
        return ObjV(v.cls, [vsubst(x, sub) for x in v.args])
    if isinstance(v, FnV):
        return FnV(v.params, vsubst(v.body, {k: x for k, x in sub.items() if k not in v.params}))
    if isinstance(v, Fam):
        s2 = {k: x for k, x in sub.items()}
        return Fam(vsubst(v.n, s2), vsubst(v.elem, s2), None if v.pred is None else vsubst(v.pred, s2), v.idx)
    if isinstance(v, RangeV):
        return RangeV(vsubst(v.lo, sub), vsubst(v.hi, sub))
    if isinstance(v, SeqV):
        base = v.base if v.base[0] == 'sym' else ('gen', v.base[1], [vsubst(x, sub) for x in v.base[2]])
        return SeqV(base, tuple((op[0],) + tuple(vsubst(x, sub) for x in op[1:]) for op in v.ops))
    if isinstance(v, ConsV):
        return ConsV(vsubst(v.head, sub), vsubst(v.tail, sub))
    if isinstance(v, RecCall):
        return RecCall(v.name, [vsubst(x, sub) for x in v.args])
    if isinstance(v, RetV):
        return RetV(vsubst(v.value, sub))
    return v


def _bsubst(n: tuple, sub: Dict[str, Rat]) -> BoolV:
    k = n[0]
    if k == 'cmp':
        m = vsubst(_BASES[n[2]][0], sub)
        t = Rat.const(n[3], m.ty)
        return mk_cmp({'le': '<=', 'lt': '<', 'eq': '=='}[n[1]], m, t)
    if k == 'app':
        nm, args = _BAPPS[n[1]]
        return mk_bapp(nm, [vsubst(x, sub) for x in args])
    if k == 'not':
        return b_not(_bsubst(n[1], sub))
    if k == 'and':
        return b_and(*[_bsubst(x, sub) for x in n[1]])
    if k == 'or':
        return b_or(*[_bsubst(x, sub) for x in n[1]])
    return BoolV(n)


def rebuild_atom(fn: str, args: List[Any], ty: str) -> Rat:
    """Re-create an atom after substitution, re-applying the constructor simplifications."""
    if fn in ('min', 'max'):
        return mk_minmax(fn, args)
    if fn == 'idiv':
        return mk_idiv(args[0], args[1])
    if fn == 'mod':
        return mk_mod(args[0], args[1])
    return atom(fn, args, ty)


def mk_ite(c: BoolV, a: Any, b: Any) -> Any:
    if c.is_const():
        return a if c.const_value() else b
    if isinstance(a, BoolV) and isinstance(b, BoolV):
        return b_ite(c, a, b)
    if c.node[0] == 'not':
        return Ite(BoolV(c.node[1]), b, a)
    return Ite(c, a, b)


def mk_minmax(fn: str, args: List[Rat]) -> Rat:
    flat: List[Rat] = []
    for a in args:
        at = atom_of(a)
        if at is not None and at[0] == fn:
            flat.extend(at[1])
        else:
            flat.append(a)
    uniq: List[Rat] = []
    for a in flat:
        if not any(r_eq(a, u) for u in uniq):
            uniq.append(a)
    if all(u.is_const() for u in uniq):
        vals = [u.const_value() for u in uniq]
        return Rat.const(min(vals) if fn == 'min' else max(vals), 'D' if any(u.ty == 'D' for u in uniq) else 'I')
    if len(uniq) == 1:
        return uniq[0]
    uniq.sort(key=lambda r: repr(r.key()))
    return atom(fn, uniq, 'D' if any(u.ty == 'D' for u in uniq) else 'I')


def mk_idiv(a: Rat, b: Rat) -> Rat:
    if b.is_const() and b.const_value() != 0 and a.d.is_const():
        q = a.n.scale(1 / b.const_value())
        if q.integral():
            return Rat(q, ONE, 'I')
    return atom('idiv', [a, b], 'I')


def mk_mod(a: Rat, b: Rat) -> Rat:
    if a.is_const() and b.is_const() and b.const_value() != 0 and a.const_value() >= 0 and b.const_value() > 0:
        return Rat.const(int(a.const_value()) % int(b.const_value()), 'I')
    return atom('mod', [a, b], 'I')


def close_fam(f: Fam) -> Fam:
    """Rename the free index of a family to a canonical bound name (depth-indexed) so that it can be the argument of an aggregate atom."""
    k = 0
    for s in free_syms(f.elem) | free_syms(f.n) | (free_syms(f.pred) if f.pred is not None else set()):
        if s.startswith('$j') and s[2:].isdigit():
            k = max(k, int(s[2:]))
    nm = f'$j{k + 1}'
    sub = {f.idx: Rat.sym(nm, 'I')}
    return Fam(f.n, vsubst(f.elem, sub), None if f.pred is None else vsubst(f.pred, sub), nm)


# ======================================================================================
# 3. abstract interpreter
# ======================================================================================


class Env:
    def __init__(self, parent: Optional['Env'] = None):
        self.d: Dict[str, Any] = {}
        self.parent = parent

    def get(self, k: str) -> Any:
        e: Optional[Env] = self
        while e is not None:
            if k in e.d:
                return e.d[k]
            e = e.parent
        return None

    def has(self, k: str) -> bool:
        e: Optional[Env] = self
        while e is not None:
            if k in e.d:
                return True
            e = e.parent
        return False

    def assign(self, k: str, v: Any) -> bool:
        e: Optional[Env] = self
        while e is not None:
            if k in e.d:
                e.d[k] = v
                return True
            e = e.parent
        return False


class Frame:
    def __init__(self, name: str):
        self.name = name
        self.guards: List[Tuple[BoolV, Any, int]] = []     # (condition, Abort | RetV, statement index)
        self.asserts: List[BoolV] = []
        self.requires: List[BoolV] = []
        self.trace: List[Tuple[str, Any]] = []


class FuncResult:
    def __init__(self, frame: Frame, value: Any):
        self.guards = frame.guards
        self.asserts = frame.asserts
        self.requires = frame.requires
        self.trace = frame.trace
        self.value = value


def _ty_of(type_text: str) -> str:
    t = type_text.replace(' ', '')
    if t in ('Int', 'Long', 'Short', 'Byte'):
        return 'I'
    if t in ('Double', 'Float'):
        return 'D'
    if t == 'Boolean':
        return 'B'
    if t == 'String':
        return 'S'
    return 'O'


def input_value(name: str, type_text: str) -> Any:
    ty = _ty_of(type_text)
    if ty in ('I', 'D'):
        return Rat.sym(name, ty)
    if ty == 'B':
        return BoolV(('bsym', name))
    if ty == 'S':
        return StrSym(name)
    return ObjV('sym:' + name, [])


_MATH = ('math', 'Math', 'scala.math', 'java.lang.Math')


class Interp:
    """Configuration:
      globals        name -> [Def]          package / class level defs that are inlined (overload chosen by arity)
      opaque_fns     name -> result kind    'D' | 'I' (numeric atom) | 'B' (opaque predicate) | 'O' (object) | 'abort'
      opaque_ctors   names whose application / `new` builds an opaque object
      obj_methods    class -> {method: 'D'|'I'|'O'}   methods of opaque objects that may be applied (result = atom / object)
      opaque_defs    names of globals that must NOT be inlined (modular analysis): result is the atom <name>(args) of kind 'O'
    """

    def __init__(self, where: str, globals_: Optional[Dict[str, List[Def]]] = None, opaque_fns: Optional[Dict[str, str]] = None,
                 opaque_ctors: Sequence[str] = (), obj_methods: Optional[Dict[str, Dict[str, str]]] = None, opaque_defs: Sequence[str] = ()):
        self.where = where
        self.globals = globals_ or {}
        self.opaque_fns = dict(opaque_fns or {})
        self.opaque_ctors = set(opaque_ctors)
        self.obj_methods = obj_methods or {}
        self.opaque_defs = set(opaque_defs)
        self.frames: List[Frame] = []
        self.defstack: List[str] = []
        self.reify_depth = 0
        self.genv = Env()
        self.stream_defs: Dict[str, DefV] = {}
        self.erase_negligible_cuts = False
        self.erased: List[str] = []

    def err(self, msg: str) -> AnalysisError:
        return AnalysisError(f'{self.where}: {msg}')

    # ---- entry -------------------------------------------------------------------------
    def run_def(self, d: Def, args: Optional[Dict[str, Any]] = None, env: Optional[Env] = None) -> FuncResult:
        e = Env(env or self.genv)
        for nm, ty, _dflt in d.params:
            e.d[nm] = (args or {}).get(nm) if args and nm in args else input_value(nm, ty)
        fr = Frame(d.name)
        self.frames.append(fr)
        self.defstack.append(d.name)
        try:
            v = self.eval(d.body, e, tail=True)
        finally:
            self.frames.pop()
            self.defstack.pop()
        return FuncResult(fr, v)

    # ---- statements --------------------------------------------------------------------
    def block(self, stmts: List[tuple], env: Env, tail: bool) -> Any:
        e = Env(env)
        last: Any = UnitV()
        n = len(stmts)
        for idx, st in enumerate(stmts):
            k = st[0]
            is_last = idx == n - 1
            if k in ('val', 'var'):
                v = self.eval(st[2], e)
                self.bind_pattern(st[1], v, e)
                if self.frames and tail:
                    self.frames[-1].trace.append(('bind', st))
                last = UnitV()
            elif k == 'def':
                d: Def = st[1]
                e.d[d.name] = DefV(d, e)
                last = UnitV()
            elif k == 'import':
                pass
            elif k == 'assign':
                v = self.eval(st[2], e)
                if not e.assign(st[1], v):
                    raise self.err(f'assignment to unknown variable {st[1]}')
                last = UnitV()
            elif k == 'aug':
                cur = e.get(st[1])
                if cur is None:
                    raise self.err(f'assignment to unknown variable {st[1]}')
                e.assign(st[1], self.binop(st[2], cur, self.eval(st[3], e)))
                last = UnitV()
            elif k == 'expr':
                ex = strip(st[1])
                if not is_last and isinstance(ex, tuple) and ex[0] == 'if':
                    self.guard_stmt(ex, e, idx, tail)
                    continue
                v = self.eval(st[1], e, tail=tail and is_last)
                if isinstance(v, (Abort, RetV)) and not is_last:
                    # unconditional abort / return in the middle of a block: the rest is dead
                    return v
                if self.frames and tail and not is_last:
                    self.frames[-1].trace.append(('expr', st))
                last = v
            else:
                raise self.err(f'statement kind {k} not supported')
        return last

    def guard_stmt(self, ex: tuple, env: Env, idx: int, tail: bool) -> None:
        """`if (c) <fatal | return v>` in statement position: recorded as a guard; afterwards !c is known."""
        if not (self.frames and tail):
            raise self.err('conditional statement inside a nested expression is outside the subset')
        c = self.as_bool(self.eval(ex[1], env))
        fr = self.frames[-1]
        for branch, cond in ((ex[2], c), (ex[3], b_not(c))):
            if branch is None:
                continue
            if cond.is_const() and not cond.const_value():
                continue
            if _assigns(branch):
                raise self.err('assignment under a condition is outside the subset')
            v = self.eval(branch, Env(env))
            if isinstance(v, (Abort, RetV)):
                fr.guards.append((cond, v, idx))
                fr.trace.append(('guard', (cond, v)))
            # any other value in statement position has no effect

    def bind_pattern(self, pat: tuple, v: Any, env: Env) -> None:
        k = pat[0]
        if k == 'pid':
            env.d[pat[1]] = v
        elif k == 'pwild':
            pass
        elif k == 'ptyped':
            if pat[1]:
                env.d[pat[1]] = v
        elif k == 'ptuple':
            if not isinstance(v, TupV) or len(v.items) != len(pat[1]):
                raise self.err(f'tuple pattern applied to {vshow(v)}')
            for p, x in zip(pat[1], v.items):
                self.bind_pattern(p, x, env)
        else:
            raise self.err(f'pattern {k} not supported here')

    # ---- expressions -------------------------------------------------------------------
    def as_bool(self, v: Any) -> BoolV:
        if isinstance(v, BoolV):
            return v
        if isinstance(v, Ite):
            return b_ite(v.c, self.as_bool(v.a), self.as_bool(v.b))
        raise self.err(f'boolean expected, got {vshow(v)}')

    def as_rat(self, v: Any, what: str = 'number') -> Rat:
        if isinstance(v, Rat):
            return v
        raise self.err(f'{what} expected, got {vshow(v)}')

    def eval(self, e: Any, env: Env, tail: bool = False) -> Any:
        k = e[0]
        if k in ('paren', 'targ'):
            return self.eval(e[1], env, tail)
        if k == 'num':
            return Rat.const(e[1], 'D' if e[2] == 'D' else 'I')
        if k == 'str':
            return StrV(e[1])
        if k == 'bool':
            return TRUE if e[1] else FALSE
        if k == 'null':
            return NullV()
        if k == 'unit':
            return UnitV()
        if k == 'name':
            return self.name(e[1], env)
        if k == 'block':
            return self.block(e[1], env, tail)
        if k == 'tuple':
            return TupV([self.eval(x, env) for x in e[1]])
        if k == 'if':
            c = self.as_bool(self.eval(e[1], env))
            if c.is_const():
                br = e[2] if c.const_value() else e[3]
                return UnitV() if br is None else self.eval(br, env)
            if e[3] is None:
                v = self.eval(e[2], env)
                if isinstance(v, (Abort, RetV)) and self.frames and tail:
                    self.frames[-1].guards.append((c, v, -1))
                    return UnitV()
                raise self.err('`if` without `else` used as a value')
            return self.ite(c, self.eval(e[2], env), self.eval(e[3], env))
        if k == 'un':
            v = self.eval(e[2], env)
            if e[1] == '!':
                return b_not(self.as_bool(v))
            if e[1] == '-':
                return self.lift1(lambda r: r_neg(r), v)
            if e[1] == '+':
                return v
            raise self.err(f'unary {e[1]} not supported')
        if k == 'bin':
            op = e[1]
            if op == '&&':
                return b_and(self.as_bool(self.eval(e[2], env)), self.as_bool(self.eval(e[3], env)))
            if op == '||':
                return b_or(self.as_bool(self.eval(e[2], env)), self.as_bool(self.eval(e[3], env)))
            if op == '#::':
                return self.cons(e[2], e[3], env)
            if op == '->':
                return TupV([self.eval(e[2], env), self.eval(e[3], env)])
            return self.binop(op, self.eval(e[2], env), self.eval(e[3], env))
        if k == 'lambda':
            return LamV(e[1], e[2], env)
        if k == 'caselam':
            return LamV([], None, env, cases=e[1])
        if k == 'match':
            return self.match(e, env)
        if k == 'new':
            if e[1] not in self.opaque_ctors:
                raise self.err(f'`new {e[1]}` is not a known class')
            return ObjV(e[1], [self.eval(a, env) for _kw, a in e[2]])
        if k == 'return':
            return RetV(UnitV() if e[1] is None else self.eval(e[1], env))
        if k == 'throw':
            return Abort('throw')
        if k == 'sel':
            return self.select(e, env)
        if k == 'call':
            return self.call(e, env)
        if k == 'ph':
            raise self.err('free placeholder `_`')
        raise self.err(f'expression kind {k} not supported')

    def ite(self, c: BoolV, a: Any, b: Any) -> Any:
        return mk_ite(c, a, b)

    def name(self, nm: str, env: Env) -> Any:
        if env.has(nm):
            v = env.get(nm)
            if isinstance(v, DefV) and not v.d.plists:
                return self.apply_def(v, [])
            return v
        if nm in self.globals:
            cands = [d for d in self.globals[nm] if not d.plists or not d.plists[0]]
            if len(cands) == 1:
                return self.apply_def(DefV(cands[0], self.genv), [[]] if cands[0].plists else [])
            return ('overloads', nm)
        raise self.err(f'unknown name `{nm}`')

    def lift1(self, f: Callable[[Rat], Any], v: Any) -> Any:
        if isinstance(v, Ite):
            return self.ite(v.c, self.lift1(f, v.a), self.lift1(f, v.b))
        return f(self.as_rat(v))

    def lift2(self, f: Callable[[Rat, Rat], Any], a: Any, b: Any) -> Any:
        if isinstance(a, Ite):
            return self.ite(a.c, self.lift2(f, a.a, b), self.lift2(f, a.b, b))
        if isinstance(b, Ite):
            return self.ite(b.c, self.lift2(f, a, b.a), self.lift2(f, a, b.b))
        if isinstance(a, Abort) or isinstance(b, Abort):
            return a if isinstance(a, Abort) else b
        if isinstance(a, MatchV) or isinstance(b, MatchV):
            m = a if isinstance(a, MatchV) else b
            arms = [(c, self.lift2(f, x, b) if m is a else self.lift2(f, a, x)) for c, x in m.arms]
            dflt = None if m.default is None else (self.lift2(f, m.default, b) if m is a else self.lift2(f, a, m.default))
            if all(isinstance(x, BoolV) for _c, x in arms) and (dflt is None or isinstance(dflt, BoolV)):
                parts = [b_and(BoolV(('streq', m.scrut.name, c)), x) for c, x in arms]
                if dflt is not None:
                    parts.append(b_and(*[b_not(BoolV(('streq', m.scrut.name, c))) for c, _x in arms], dflt))
                return b_or(*parts)
            return MatchV(m.scrut, arms, dflt)
        return f(self.as_rat(a), self.as_rat(b))

    def binop(self, op: str, a: Any, b: Any) -> Any:
        if op in ('==', '!=') and (isinstance(a, (StrV, StrSym)) or isinstance(b, (StrV, StrSym))):
            if isinstance(a, StrV) and isinstance(b, StrSym):
                a, b = b, a
            if isinstance(a, StrSym) and isinstance(b, StrV) and b.v is not None:
                r = BoolV(('streq', a.name, b.v))
            elif isinstance(a, StrV) and isinstance(b, StrV) and a.v is not None and b.v is not None:
                r = TRUE if a.v == b.v else FALSE
            else:
                raise self.err('string comparison outside the subset')
            return r if op == '==' else b_not(r)
        if op in ('==', '!=') and isinstance(a, BoolV) and isinstance(b, BoolV):
            r = b_or(b_and(a, b), b_and(b_not(a), b_not(b)))
            return r if op == '==' else b_not(r)
        if op in ('<', '<=', '>', '>=', '==', '!='):
            return self.lift2(lambda x, y: mk_cmp(op, x, y), a, b)
        if op == '+':
            return self.lift2(r_add, a, b)
        if op == '-':
            return self.lift2(r_sub, a, b)
        if op == '*':
            return self.lift2(r_mul, a, b)
        if op == '/':
            def div(x: Rat, y: Rat) -> Rat:
                if x.ty == 'I' and y.ty == 'I':
                    return mk_idiv(x, y)
                return r_truediv(x, y, 'D')
            return self.lift2(div, a, b)
        if op == '%':
            def mod(x: Rat, y: Rat) -> Rat:
                if x.ty == 'I' and y.ty == 'I':
                    return mk_mod(x, y)
                raise self.err('`%` on doubles not supported')
            return self.lift2(mod, a, b)
        raise self.err(f'operator {op} not supported')

    def cons(self, head: Any, tail: Any, env: Env) -> Any:
        h = self.eval(head, env)
        t = strip(tail)
        if isinstance(t, tuple) and t[0] == 'call' and t[1][0] == 'name' and t[1][1] in self.defstack:
            return ConsV(h, RecCall(t[1][1], [self.eval(a, env) for _kw, a in t[2]]))
        raise self.err('`#::` whose tail is not a recursive call of the enclosing def')

    def match(self, e: tuple, env: Env) -> Any:
        s = self.eval(e[1], env)
        arms = e[2]
        if isinstance(s, StrV):
            for pat, body in arms:
                if pat[0] == 'plit' and pat[1] == s.v:
                    return self.eval(body, env)
                if pat[0] == 'pwild':
                    return self.eval(body, env)
            return Abort('MatchError')
        if isinstance(s, StrSym):
            out: List[Tuple[Any, Any]] = []
            default = None
            for pat, body in arms:
                if pat[0] == 'plit' and isinstance(pat[1], str):
                    if any(c == pat[1] for c, _ in out):
                        continue
                    out.append((pat[1], self.eval(body, Env(env))))
                elif pat[0] == 'pwild':
                    default = self.eval(body, Env(env))
                    break
                else:
                    raise self.err('match arm outside the subset')
            return MatchV(s, out, default)
        if isinstance(s, Rat) and s.is_const():
            for pat, body in arms:
                if pat[0] == 'plit' and isinstance(pat[1], Fraction) and pat[1] == s.const_value():
                    return self.eval(body, env)
                if pat[0] == 'pwild':
                    return self.eval(body, env)
            return Abort('MatchError')
        if isinstance(s, TupV) and len(arms) == 1:
            e2 = Env(env)
            self.bind_pattern(arms[0][0], s, e2)
            return self.eval(arms[0][1], e2)
        raise self.err(f'match on {vshow(s)} is outside the subset')

    # ---- selections / calls ------------------------------------------------------------
    def select(self, e: tuple, env: Env) -> Any:
        dn = dotted(e)
        if dn is not None:
            head = dn.split('.')[0]
            if not env.has(head) and head not in self.globals:
                if dn == 'Double.NaN':
                    return Rat.sym('NaN', 'D')
                if dn == 'Double.PositiveInfinity':
                    return Rat.sym('+Inf', 'D')
                if dn == 'Double.NegativeInfinity':
                    return r_neg(Rat.sym('+Inf', 'D'))
                raise self.err(f'unknown name `{dn}`')
        recv = self.eval(e[1], env)
        return self.method(recv, e[2], None, env)

    def eval_args(self, args: List[Tuple[Optional[str], Any]], env: Env) -> List[Tuple[Optional[str], Any]]:
        return [(kw, self.eval(a, env)) for kw, a in args]

    def call(self, e: tuple, env: Env) -> Any:
        f = strip(e[1])
        args = e[2]
        if f[0] == 'name':
            nm = f[1]
            if env.has(nm):
                return self.apply(env.get(nm), self.eval_args(args, env))
            if nm in self.globals:
                return self.call_global(nm, self.eval_args(args, env))
            return self.builtin(nm, args, env)
        if f[0] == 'sel':
            dn = dotted(f)
            if dn is not None:
                head = dn.split('.')[0]
                if not env.has(head) and head not in self.globals:
                    return self.builtin(dn, args, env)
            recv = self.eval(f[1], env)
            return self.method(recv, f[2], self.eval_args(args, env), env)
        fv = self.eval(f, env)
        return self.apply(fv, self.eval_args(args, env))

    def positional(self, args: List[Tuple[Optional[str], Any]], n: Optional[int] = None, what: str = '') -> List[Any]:
        if any(kw for kw, _ in args) or (n is not None and len(args) != n):
            raise self.err(f'{what}: unexpected argument list')
        return [v for _kw, v in args]

    def builtin(self, nm: str, args: List[Tuple[Optional[str], Any]], env: Env) -> Any:
        base = nm.split('.')[-1]
        pre = nm[:-(len(base) + 1)] if '.' in nm else ''
        if nm in ('fatal',):
            return Abort('fatal')
        if nm == 'assert' or nm == 'require':
            c = self.as_bool(self.eval(args[0][1], env))
            if self.frames:
                (self.frames[-1].asserts if nm == 'assert' else self.frames[-1].requires).append(c)
            return UnitV()
        if nm == 'Array' or nm == 'FastSeq' or nm == 'ArraySeq' or nm == 'IndexedSeq' or nm == 'Seq':
            return ArrV(self.positional(self.eval_args(args, env), None, nm))
        if pre in _MATH and base in ('max', 'min'):
            a = self.positional(self.eval_args(args, env), 2, nm)
            return self.lift2(lambda x, y: mk_minmax(base, [x, y]), a[0], a[1])
        if pre in _MATH and base in ('log', 'exp', 'abs', 'sqrt', 'round', 'floor', 'ceil', 'pow', 'log10'):
            a = self.positional(self.eval_args(args, env), None, nm)
            rats = [self.as_rat(x, nm) for x in a]
            return atom(base, rats, 'I' if base == 'round' else 'D')
        if nm in self.opaque_ctors:
            return ObjV(nm, self.positional(self.eval_args(args, env), None, nm))
        if nm in self.opaque_fns:
            kind = self.opaque_fns[nm]
            vals = [self.reify(v) for _kw, v in self.eval_args(args, env)]
            kws = [kw for kw, _ in args]
            if any(kws):
                vals = [TupV([StrV(kw), v]) if kw else v for kw, v in zip(kws, vals)]
            if kind == 'abort':
                return Abort(nm)
            if kind == 'B':
                return mk_bapp(nm, vals)
            if kind == 'O':
                return ObjV(nm, vals)
            return atom(nm, vals, kind)
        raise self.err(f'unknown function `{nm}`')

    def reify(self, v: Any) -> Any:
        """Closures handed to opaque routines become FnV over canonical bound names."""
        if isinstance(v, (LamV, DefV)):
            n = self.arity(v)
            self.reify_depth += 1
            try:
                names = [f'$x{self.reify_depth}' + ('' if n == 1 else f'_{i}') for i in range(n)]
                body = self.apply(v, [(None, Rat.sym(nm, 'D')) for nm in names])
            finally:
                self.reify_depth -= 1
            return FnV(names, self.reify(body))
        return v

    def arity(self, v: Any) -> int:
        if isinstance(v, LamV):
            if v.cases is not None:
                return 1
            return len(v.params)
        if isinstance(v, DefV):
            k = len(v.bound)
            if k >= len(v.d.plists):
                raise self.err('fully applied def used as a function value')
            return len(v.d.plists[k])
        raise self.err('not a function value')

    def apply(self, f: Any, args: List[Tuple[Optional[str], Any]]) -> Any:
        if isinstance(f, LamV):
            if f.cases is not None:
                vals = self.positional(args, None, 'case-lambda')
                v = vals[0] if len(vals) == 1 else TupV(vals)
                if len(f.cases) != 1:
                    raise self.err('case-lambda with several arms is outside the subset')
                e2 = Env(f.env)
                self.bind_pattern(f.cases[0][0], v, e2)
                return self.eval(f.cases[0][1], e2)
            vals = self.positional(args, None, 'lambda')
            if len(vals) != len(f.params):
                if len(f.params) == 1 and len(vals) > 1:
                    vals = [TupV(vals)]
                else:
                    raise self.err('lambda applied to a wrong number of arguments')
            e2 = Env(f.env)
            for p, v in zip(f.params, vals):
                self.bind_pattern(p, v, e2)
            return self.eval(f.body, e2)
        if isinstance(f, DefV):
            return self.apply_def(f, [args])
        if isinstance(f, ArrV):
            i = self.as_rat(self.positional(args, 1, 'index')[0])
            if i.is_const() and i.const_value().denominator == 1 and 0 <= i.const_value() < len(f.items):
                return f.items[int(i.const_value())]
            raise self.err(f'array indexed with {vshow(i)}')
        if isinstance(f, Fam):
            if f.pred is not None:
                raise self.err('indexing a filtered collection is outside the subset')
            i = self.as_rat(self.positional(args, 1, 'index')[0])
            return vsubst(f.elem, {f.idx: i})
        if isinstance(f, SeqV):
            i = self.as_rat(self.positional(args, 1, 'index')[0])
            return atom('elem', [f, i], 'D')
        if isinstance(f, tuple) and f and f[0] == 'overloads':
            return self.call_global(f[1], args)
        raise self.err(f'cannot apply {vshow(f)}')

    def bind_args(self, plist: List[Tuple[str, str, Any]], args: List[Tuple[Optional[str], Any]]) -> Optional[Dict[str, Any]]:
        """Scala argument binding: positional arguments fill their positions; a named argument in its own position keeps positional
        mode, an out-of-position named argument switches to named-only."""
        names = [p[0] for p in plist]
        b: Dict[str, Any] = {}
        positional = True
        for i, (kw, v) in enumerate(args):
            if kw is None:
                if not positional or i >= len(names):
                    return None
                b[names[i]] = v
            else:
                if kw not in names or kw in b:
                    return None
                if not (positional and i < len(names) and names[i] == kw):
                    positional = False
                b[kw] = v
        return b

    def bindable(self, plist: List[Tuple[str, str, Any]], args: List[Tuple[Optional[str], Any]]) -> Optional[int]:
        """Number of defaults needed to bind args to plist, or None when they do not fit."""
        b = self.bind_args(plist, args)
        if b is None:
            return None
        missing = [p for p in plist if p[0] not in b]
        if any(p[2] is None for p in missing):
            return None
        return len(missing)

    def call_global(self, nm: str, args: List[Tuple[Optional[str], Any]]) -> Any:
        cands = []
        for d in self.globals[nm]:
            if not d.plists:
                continue
            k = self.bindable(d.plists[0], args)
            if k is not None:
                cands.append((k, d))
        if not cands:
            raise self.err(f'no overload of `{nm}` accepts {len(args)} argument(s)')
        best = min(k for k, _ in cands)
        chosen = [d for k, d in cands if k == best]
        if len(chosen) != 1:
            raise self.err(f'ambiguous overloads of `{nm}`')
        return self.apply_def(DefV(chosen[0], self.genv), [args])

    def apply_def(self, f: DefV, arglists: List[List[Tuple[Optional[str], Any]]]) -> Any:
        d = f.d
        bound = list(f.bound)
        for args in arglists:
            k = len(bound)
            if k >= len(d.plists):
                # applying the result of a fully applied def
                res = self.apply_def(DefV(d, f.env, bound), [])
                return self.apply(res, args)
            plist = d.plists[k]
            if self.bindable(plist, args) is None:
                raise self.err(f'arguments do not fit `{d.name}`')
            bound.append(self.bind_args(plist, args) or {})
        if len(bound) < len(d.plists):
            return DefV(d, f.env, bound)
        if d.name in self.opaque_defs:
            vals: List[Any] = []
            for plist, b in zip(d.plists, bound):
                for p in plist:
                    if p[0] not in b:
                        raise self.err(f'opaque def `{d.name}` applied with defaults')
                    vals.append(self.coerce(b[p[0]], p[1]))
            return ObjV('call:' + d.name, vals)
        body = strip(d.body)
        if isinstance(body, tuple) and body[0] == 'bin' and body[1] == '#::':
            # self-recursive lazy stream: not unrolled; the rule analyses the def separately
            self.stream_defs[d.name] = f
            vals = []
            for plist, b in zip(d.plists, bound):
                for p in plist:
                    vals.append(self.coerce(b[p[0]], p[1]))
            return SeqV(('gen', d.name, vals))
        if self.defstack.count(d.name) > 0 and len(self.defstack) > 40:
            raise self.err(f'recursion through `{d.name}`')
        e = Env(f.env)
        for plist, b in zip(d.plists, bound):
            for nm, ty, dflt in plist:
                if nm in b:
                    e.d[nm] = self.coerce(b[nm], ty)
                else:
                    e.d[nm] = self.coerce(self.eval(dflt, e), ty)
        fr = Frame(d.name)
        self.frames.append(fr)
        self.defstack.append(d.name)
        try:
            v = self.eval(d.body, e, tail=True)
        finally:
            self.frames.pop()
            self.defstack.pop()
        if fr.guards:
            # early exits of an inlined callee become a decision list
            out = v
            for c, g, _i in reversed(fr.guards):
                out = self.ite(c, g.value if isinstance(g, RetV) else g, out)
            v = out
        if self.frames:
            self.frames[-1].asserts.extend(fr.asserts)
            self.frames[-1].requires.extend(fr.requires)
        return v

    def coerce(self, v: Any, type_text: str) -> Any:
        ty = _ty_of(type_text)
        if ty == 'D':
            if isinstance(v, Rat):
                return v.retag('D')
            if isinstance(v, Ite):
                return self.ite(v.c, self.coerce(v.a, type_text), self.coerce(v.b, type_text))
        return v

    # ---- methods -----------------------------------------------------------------------
    def method(self, recv: Any, m: str, args: Optional[List[Tuple[Optional[str], Any]]], env: Env) -> Any:
        a = args or []
        if isinstance(recv, Ite):
            return self.ite(recv.c, self.method(recv.a, m, args, env), self.method(recv.b, m, args, env))
        if isinstance(recv, MatchV):
            return MatchV(recv.scrut, [(c, self.method(x, m, args, env)) for c, x in recv.arms],
                          None if recv.default is None else self.method(recv.default, m, args, env))
        if isinstance(recv, Abort):
            return recv
        if isinstance(recv, Rat):
            if m == 'toDouble':
                return recv.retag('D')
            if m in ('toInt', 'toLong'):
                return recv if recv.ty == 'I' else atom('toInt', [recv], 'I')
            if m in ('min', 'max'):
                o = self.as_rat(self.positional(a, 1, m)[0])
                return mk_minmax(m, [recv, o])
            if m == 'abs':
                return atom('abs', [recv], recv.ty)
            at = atom_of(recv)
            if at is not None and at[0] == 'uniroot' and m == 'getOrElse':
                return atom('getOrElse', [recv] + self.positional(a, 1, m), 'D')
            if m == 'to' or m == 'until':
                o = self.as_rat(self.positional(a, 1, m)[0])
                return RangeV(recv, o if m == 'to' else r_sub(o, Rat.const(1)))
            raise self.err(f'method .{m} on a number is outside the subset')
        if isinstance(recv, RangeV):
            if m in ('toArray', 'toIndexedSeq', 'toSeq', 'toList', 'toVector'):
                return Fam(r_add(r_sub(recv.hi, recv.lo), Rat.const(1)), r_add(recv.lo, Rat.sym('$i', 'I')))
            if m == 'map':
                return self.method(self.method(recv, 'toArray', None, env), m, args, env)
            raise self.err(f'method .{m} on a range is outside the subset')
        if isinstance(recv, TupV):
            if m in ('_1', '_2', '_3', '_4') and int(m[1]) <= len(recv.items):
                return recv.items[int(m[1]) - 1]
            raise self.err(f'method .{m} on a tuple is outside the subset')
        if isinstance(recv, ArrV):
            if m == 'apply':
                return self.apply(recv, a)
            if m == 'length' or m == 'size':
                return Rat.const(len(recv.items))
            raise self.err(f'method .{m} on an array literal is outside the subset')
        if isinstance(recv, Fam):
            return self.fam_method(recv, m, a)
        if isinstance(recv, SeqV):
            return self.seq_method(recv, m, a)
        if isinstance(recv, ObjV):
            ms = self.obj_methods.get(recv.cls)
            if ms is not None and m in ms:
                vals = [self.reify(v) for _kw, v in a]
                if any(kw for kw, _ in a):
                    raise self.err(f'named arguments to opaque method .{m}')
                if ms[m] == 'O':
                    return ObjV(f'{recv.cls}.{m}', [recv] + vals)
                return atom(f'{recv.cls}.{m}', [recv] + vals, ms[m])
            raise self.err(f'method .{m} of {recv.cls} is not known')
        if isinstance(recv, (LamV, DefV)) and m == 'apply':
            return self.apply(recv, a)
        raise self.err(f'method .{m} on {vshow(recv)} is outside the subset')

    def fam_method(self, f: Fam, m: str, a: List[Tuple[Optional[str], Any]]) -> Any:
        if m in ('toArray', 'toIndexedSeq', 'toSeq'):
            return f
        if m == 'zipWithIndex':
            if f.pred is not None:
                raise self.err('zipWithIndex after filter is outside the subset')
            return Fam(f.n, TupV([f.elem, Rat.sym(f.idx, 'I')]), None, f.idx)
        if m == 'map':
            fn = self.positional(a, 1, 'map')[0]
            return Fam(f.n, self.apply(fn, [(None, f.elem)]), f.pred, f.idx)
        if m == 'filter':
            fn = self.positional(a, 1, 'filter')[0]
            p = self.as_bool(self.apply(fn, [(None, f.elem)]))
            return Fam(f.n, f.elem, p if f.pred is None else b_and(f.pred, p), f.idx)
        if m in ('sum', 'max', 'min', 'product'):
            if a:
                raise self.err(f'.{m} with arguments')
            ty = 'I' if isinstance(f.elem, Rat) and f.elem.ty == 'I' else 'D'
            return atom({'sum': 'Σ', 'max': 'MAX', 'min': 'MIN', 'product': 'Π'}[m], [close_fam(f)], ty)
        if m in ('length', 'size'):
            if f.pred is not None:
                raise self.err('length of a filtered collection')
            return f.n
        if m == 'apply':
            return self.apply(f, a)
        raise self.err(f'collection method .{m} is outside the subset')

    NEGLIGIBLE = Fraction(1, 10 ** 15)

    def negligible_cut(self, lam: Any) -> Optional[str]:
        """`x => x > E` where every coefficient of E is at most 1e-15 (relative truncation of a stream normalised to a leading term 1):
        a numerical device that is not part of the mathematical definition.  Returns a description, or None when it is not of that shape."""
        if not isinstance(lam, LamV) or lam.cases is not None or len(lam.params) != 1 or lam.params[0][0] != 'pid':
            return None
        body = strip(lam.body)
        if not (isinstance(body, tuple) and body[0] == 'bin' and body[1] in ('>', '>=') and strip(body[2]) == ('name', lam.params[0][1])):
            return None
        try:
            v = self.eval(body[3], lam.env)
        except AnalysisError:
            return None

        def small(x: Any) -> bool:
            if isinstance(x, Ite):
                return small(x.a) and small(x.b)
            if not isinstance(x, Rat) or not x.n.t:
                return isinstance(x, Rat)
            top = max(abs(c) for c in x.n.t.values())
            bot = min(abs(c) for c in x.d.t.values())
            return top / bot <= self.NEGLIGIBLE
        return f'takeWhile(_ > {vshow(v)})' if small(v) else None

    def seq_method(self, s: SeqV, m: str, a: List[Tuple[Optional[str], Any]]) -> Any:
        if m == 'apply':
            return self.apply(s, a)
        if m == 'slice':
            lo, hi = [self.as_rat(x) for x in self.positional(a, 2, 'slice')]
            return SeqV(s.base, s.ops + (('slice', lo, hi),))
        if m == 'takeWhile' and self.erase_negligible_cuts:
            lam = self.positional(a, 1, m)[0]
            cut = self.negligible_cut(lam)
            if cut is not None:
                self.erased.append(cut)
                return s
        if m in ('takeWhile', 'dropWhile', 'filter'):
            fn = self.reify(self.positional(a, 1, m)[0])
            return SeqV(s.base, s.ops + ((m, fn),))
        if m == 'span':
            fn = self.reify(self.positional(a, 1, m)[0])
            return TupV([SeqV(s.base, s.ops + (('takeWhile', fn),)), SeqV(s.base, s.ops + (('dropWhile', fn),))])
        if m in ('tail',):
            return SeqV(s.base, s.ops + (('drop', Rat.const(1)),))
        if m in ('drop', 'take'):
            k = self.as_rat(self.positional(a, 1, m)[0])
            return SeqV(s.base, s.ops + ((m, k),))
        if m == 'head':
            return atom('elem', [s, Rat.const(0)], 'D')
        if m == 'sum':
            return atom('Σseq', [s], 'D')
        raise self.err(f'stream method .{m} is outside the subset')


def _assigns(e: Any) -> bool:
    if isinstance(e, tuple):
        if e and e[0] in ('assign', 'aug'):
            return True
        if e and e[0] in ('lambda', 'caselam'):
            return False
        return any(_assigns(x) for x in e)
    if isinstance(e, list):
        return any(_assigns(x) for x in e)
    return False


def reset() -> None:
    ATOMS.reset()
    _BASES.clear()
    _BAPPS.clear()
