"""Facts used by rules/c38.py (GVCF/VDS combiner), all computed from syntax trees -- nothing is imported or run.

 * ClassModel              methods / property getters / property setters / integer class constants of one class
 * inline_with_setters     a method with its same-class helpers AND the property setters it goes through inlined:  `self.x = v`  where the
                           class defines `@x.setter` is a call of the setter (engines/inline.py does the splicing)
 * Sym                     symbolic value of a string/list/record expression: which constants, `self.<slot>` reads, loop indices, fresh
                           sources (uuid4, urandom ...) and deterministic functions (uuid5, hashes ...) it is built from; follows locals,
                           comprehensions, for-targets, NamedTuple records and expression helpers.  Used for "which components name this path"
 * AbsExec / witness       interval analysis of integer attributes through a statement list (guards `if p < 1: raise` refine, branches join,
                           `K // n` with n in [1, inf) has lower bound 0) and a concrete search over boundary values that confirms a
                           may-violate verdict with an input before anything is reported
"""
from __future__ import annotations

import ast
import copy
import itertools
import math
from typing import Dict, Iterator, List, Optional, Sequence, Set, Tuple

from . import pyfacts as pf
from .common import AnalysisError
from .inline import Inliner

FuncDef = pf.FuncDef
INF = math.inf
SETTER_PREFIX = '__set_'


# ---------------------------------------------------------------------------------------------------------------------------
# class model
# ---------------------------------------------------------------------------------------------------------------------------
class ClassModel:
    def __init__(self, m: pf.Module, cls_name: str):
        self.m = m
        self.name = cls_name
        self.cls = m.cls(cls_name)
        self.methods: Dict[str, FuncDef] = {}
        self.getters: Dict[str, FuncDef] = {}
        self.setters: Dict[str, FuncDef] = {}
        self.consts: Dict[str, int] = {}
        for st in self.cls.body:
            if isinstance(st, (ast.FunctionDef, ast.AsyncFunctionDef)):
                decs = pf.decorator_names(st)
                if any(d.endswith('.setter') for d in decs):
                    self.setters[st.name] = st
                elif any(d.endswith('.deleter') for d in decs):
                    continue
                elif 'property' in decs or 'functools.cached_property' in decs or 'cached_property' in decs:
                    self.getters.setdefault(st.name, st)
                else:
                    self.methods.setdefault(st.name, st)
            elif isinstance(st, ast.Assign) and len(st.targets) == 1 and isinstance(st.targets[0], ast.Name):
                v = st.value
                if isinstance(v, ast.Constant) and isinstance(v.value, int) and not isinstance(v.value, bool):
                    self.consts[st.targets[0].id] = v.value
            elif isinstance(st, ast.AnnAssign) and isinstance(st.target, ast.Name) and isinstance(st.value, ast.Constant) \
                    and isinstance(st.value.value, int) and not isinstance(st.value.value, bool):
                self.consts[st.target.id] = st.value.value

    def getter_alias(self) -> Dict[str, str]:
        """property name -> slot, for getters whose body is `return self.<slot>`."""
        out: Dict[str, str] = {}
        for p, g in self.getters.items():
            body = _strip_doc(g.body)
            if len(body) == 1 and isinstance(body[0], ast.Return) and g.args.args:
                a = self_attr(body[0].value, g.args.args[0].arg)
                if a is not None:
                    out[p] = a
        return out

    def const_env(self) -> Dict[str, int]:
        """Names under which the integer class constants are read: bare (parameter defaults), Class.X, self.X, cls.X."""
        out: Dict[str, int] = {}
        for k, v in self.consts.items():
            for pre in ('', self.name + '.', 'self.', 'cls.', 'self.__class__.', 'type(self).'):
                out[pre + k] = v
        return out


def _strip_doc(body: Sequence[ast.stmt]) -> List[ast.stmt]:
    body = list(body)
    if body and isinstance(body[0], ast.Expr) and isinstance(body[0].value, ast.Constant) and isinstance(body[0].value.value, str):
        return body[1:]
    return body


def self_attr(e: Optional[ast.AST], recv: str = 'self') -> Optional[str]:
    if isinstance(e, ast.Attribute) and isinstance(e.value, ast.Name) and e.value.id == recv:
        return e.attr
    return None


class _SetterStores(ast.NodeTransformer):
    """`recv.prop = v`  ==>  `recv.__set_prop(v)` for the properties of the class that have a setter."""

    def __init__(self, recv: str, props: Set[str]):
        self.recv = recv
        self.props = props
        self.left: List[str] = []

    def visit_FunctionDef(self, node):
        return node

    visit_AsyncFunctionDef = visit_FunctionDef
    visit_Lambda = visit_FunctionDef
    visit_ClassDef = visit_FunctionDef

    def visit_Assign(self, node: ast.Assign):
        hit = [t for t in node.targets if self_attr(t, self.recv) in self.props]
        if not hit:
            return node
        if len(node.targets) != 1:
            self.left.append(pf.nsrc(node))
            return node
        t = node.targets[0]
        call = ast.Call(func=ast.Attribute(value=ast.Name(id=self.recv, ctx=ast.Load()), attr=SETTER_PREFIX + t.attr, ctx=ast.Load()),  # type: ignore[attr-defined]
                        args=[node.value], keywords=[])
        return ast.fix_missing_locations(ast.copy_location(ast.Expr(value=call), node))

    def visit_AugAssign(self, node: ast.AugAssign):
        if self_attr(node.target, self.recv) in self.props:
            self.left.append(pf.nsrc(node))
        return node


def _rewrite_body(fn: FuncDef, props: Set[str]) -> List[str]:
    if not fn.args.args:
        return []
    tr = _SetterStores(fn.args.args[0].arg, props)
    fn.body = [tr.visit(st) for st in fn.body]
    return tr.left


def inline_with_setters(m: pf.Module, cls_name: str, target: str, max_depth: int = 4, exclude: Tuple[str, ...] = (),
                        target_is_setter: bool = False) -> Tuple[pf.Module, FuncDef, Inliner]:
    """Copy of `m` in which method `target` of `cls_name` (or the setter of property `target`) has the statement-level calls of its same-class
    helpers inlined, a store through a property setter being such a call.  Raises AnalysisError when a store through a setter cannot be
    inlined (the caller would otherwise silently miss the setter's effect)."""
    top = [st for st in m.tree.body if isinstance(st, ast.ClassDef) and st.name == cls_name]
    if len(top) == 1:
        # only the class is copied (it is all that gets rewritten); the other top-level statements are shared with `m`
        tree = ast.Module(body=[copy.deepcopy(st) if st is top[0] else st for st in m.tree.body], type_ignores=[])
    else:
        tree = copy.deepcopy(m.tree)
    m2 = pf.Module(m.rel, m.path, m.src, tree)
    cm = ClassModel(m2, cls_name)
    fn = cm.setters.get(target) if target_is_setter else cm.methods.get(target)
    if fn is None:
        raise AnalysisError(f'anchor vanished: {m.rel}::{cls_name}.{target}')
    props = set(cm.setters)
    helpers: Dict[str, FuncDef] = {}
    for name, f in cm.methods.items():
        if f is fn or name in exclude or f.decorator_list:
            continue
        helpers[name] = copy.deepcopy(f)
    for prop, f in cm.setters.items():
        if f is fn:
            continue
        g = copy.deepcopy(f)
        g.decorator_list = []
        g.name = SETTER_PREFIX + prop
        helpers[g.name] = g
    left: List[str] = []
    for h in helpers.values():
        left += _rewrite_body(h, props)
    left += _rewrite_body(fn, props - ({target} if target_is_setter else set()))
    recv = fn.args.args[0].arg if fn.args.args else 'self'
    il = Inliner(helpers, recv, max_depth)
    il.run(fn)
    for c in pf.calls_in(fn):
        if isinstance(c.func, ast.Attribute) and c.func.attr.startswith(SETTER_PREFIX):
            left.append(f'{recv}.{c.func.attr[len(SETTER_PREFIX):]} = ... ({[w for n, _l, w in il.skipped if n == c.func.attr]})')
    if left:
        raise AnalysisError(f'{m.rel}::{cls_name}.{target}: store through a property setter that cannot be inlined: {left[:3]}')
    ast.fix_missing_locations(fn)
    return m2, fn, il


class _PropReads(ast.NodeTransformer):
    def __init__(self, recv: str, alias: Dict[str, str]):
        self.recv, self.alias = recv, alias

    def visit_Attribute(self, node: ast.Attribute):
        self.generic_visit(node)
        if isinstance(node.ctx, ast.Load) and self_attr(node, self.recv) in self.alias:
            return ast.copy_location(ast.Attribute(value=node.value, attr=self.alias[node.attr], ctx=ast.Load()), node)
        return node


def resolve_property_reads(fn: FuncDef, alias: Dict[str, str]) -> None:
    """In place: `self.prop` (Load) -> `self.<slot>` for trivial getters."""
    if alias and fn.args.args:
        _PropReads(fn.args.args[0].arg, alias).visit(fn)


# ---------------------------------------------------------------------------------------------------------------------------
# symbolic values of path-like expressions
# ---------------------------------------------------------------------------------------------------------------------------
# closed tables (canonical dotted names after import resolution)
FRESH = {
    'uuid.uuid4': 'random 122 bits per call', 'uuid.uuid1': 'host id + timestamp per call',
    'secrets.token_hex': 'OS randomness', 'secrets.token_urlsafe': 'OS randomness', 'secrets.token_bytes': 'OS randomness', 'secrets.randbits': 'OS randomness',
    'os.urandom': 'OS randomness', 'time.time': 'wall clock', 'time.time_ns': 'wall clock', 'datetime.datetime.now': 'wall clock',
    'datetime.datetime.utcnow': 'wall clock', 'datetime.now': 'wall clock', 'datetime.utcnow': 'wall clock', 'tempfile.mkdtemp': 'fresh directory',
    'tempfile.mktemp': 'fresh name', 'hail.utils.new_temp_file': 'random suffix', 'hl.utils.new_temp_file': 'random suffix', 'new_temp_file': 'random suffix',
    'hail.utils.java.new_temp_file': 'random suffix', 'hailtop.utils.secret_alnum_string': 'OS randomness', 'secret_alnum_string': 'OS randomness',
    'random.getrandbits': 'process-seeded PRNG', 'random.random': 'process-seeded PRNG',
}
DET_FUNCS = {'uuid.uuid5', 'uuid.uuid3', 'uuid.UUID', 'hash', 'str', 'repr', 'int', 'hex', 'oct', 'format', 'len', 'abs', 'min', 'max', 'sorted', 'tuple', 'list',
             'os.path.basename', 'os.path.dirname', 'os.path.normpath', 'os.path.abspath', 'os.path.splitext', 'os.fspath', 'bytes', 'bool', 'float', 'round'}
DET_PREFIX = ('hashlib.', 'base64.', 'binascii.', 'zlib.crc32', 'zlib.adler32', 'urllib.parse.')
DET_METHODS = {'hexdigest', 'digest', 'encode', 'decode', 'format', 'rjust', 'ljust', 'zfill', 'strip', 'rstrip', 'lstrip', 'lower', 'upper', 'replace', 'hex',
               'join', 'removeprefix', 'removesuffix', 'title', 'casefold', 'center', 'update', 'copy'}
PATH_JOIN = {'os.path.join', 'posixpath.join', 'path.join'}
DET_CONST_ATTRS = {'uuid.NAMESPACE_URL', 'uuid.NAMESPACE_DNS', 'uuid.NAMESPACE_OID', 'uuid.NAMESPACE_X500', 'os.sep', 'os.path.sep'}

Val = tuple


def _alt(vals: Sequence[Val]) -> Val:
    flat: List[Val] = []
    for v in vals:
        if v[0] == 'alt':
            flat += list(v[1])
        else:
            flat.append(v)
    uniq = sorted(set(flat), key=repr)
    return uniq[0] if len(uniq) == 1 else ('alt', tuple(uniq))


def _cat(parts: Sequence[Val]) -> Val:
    out: List[Val] = []
    for p in parts:
        ps = list(p[1]) if p[0] == 'cat' else [p]
        for q in ps:
            if q[0] == 'const' and out and out[-1][0] == 'const':
                out[-1] = ('const', out[-1][1] + q[1])
            else:
                out.append(q)
    out = [p for p in out if p != ('const', '')] or [('const', '')]
    return out[0] if len(out) == 1 else ('cat', tuple(out))


def leaves(v: Val) -> Iterator[Val]:
    k = v[0]
    if k in ('cat', 'alt'):
        for p in v[1]:
            yield from leaves(p)
    elif k == 'det':
        for p in v[2]:
            yield from leaves(p)
    elif k == 'list':
        yield from leaves(v[1])
    elif k == 'rec':
        for _f, p in v[2]:
            yield from leaves(p)
    elif k == 'field':
        yield v
    else:
        yield v


def render(v: Val) -> str:
    k = v[0]
    if k == 'const':
        return v[1]
    if k == 'slot':
        return f'<self.{v[1]}>'
    if k == 'index':
        return '<index>'
    if k == 'fresh':
        return f'<{v[1]}()>'
    if k == 'param':
        return f'<{v[1]}>'
    if k == 'cat':
        return ''.join(render(p) for p in v[1])
    if k == 'alt':
        return '{' + ' | '.join(render(p) for p in v[1]) + '}'
    if k == 'det':
        return f'{v[1]}(' + ', '.join(render(p) for p in v[2]) + ')'
    if k == 'list':
        return '[' + render(v[1]) + ', ...]'
    if k == 'count':
        return f'<len({v[1]})>'
    if k == 'slotelem':
        return f'<element of self.{v[1]}>'
    if k == 'field':
        return render(v[2]) + '.' + v[1]
    if k == 'rec':
        return v[1] + '(' + ', '.join(f'{f}={render(p)}' for f, p in v[2]) + ')'
    return f'<?{v[1] if len(v) > 1 else k}>'


class Sym:
    """Symbolic evaluation of expressions of one function of one class (see module docstring)."""

    def __init__(self, m: pf.Module, cm: Optional[ClassModel], records: Optional[Dict[str, List[str]]] = None):
        self.m = m
        self.cm = cm
        self.imports = m.imports()
        self.alias = cm.getter_alias() if cm is not None else {}
        self.records = records or {}
        self._defs: Dict[int, Dict[str, List[ast.AST]]] = {}

    # -- helpers ------------------------------------------------------------------------------------------------------------
    def canon(self, func: ast.AST) -> Optional[str]:
        d = pf.dotted(func)
        if d is None:
            return None
        head, _, rest = d.partition('.')
        org = self.imports.get(head)
        if org is not None and not org.startswith('.'):
            # `import uuid` -> uuid ; `from uuid import uuid4` -> uuid.uuid4 ; `import hail as hl` -> hail
            d = org + ('.' + rest if rest else '')
        return d

    def defs(self, fn: FuncDef) -> Dict[str, List[ast.AST]]:
        if id(fn) not in self._defs:
            self._defs[id(fn)] = pf.assignments(fn)
        return self._defs[id(fn)]

    # -- evaluation ---------------------------------------------------------------------------------------------------------
    def ev(self, e: Optional[ast.AST], fn: FuncDef, binds: Optional[Dict[str, Val]] = None, depth: int = 0) -> Val:
        binds = binds or {}
        if e is None:
            return ('unknown', 'None')
        if depth > 14:
            return ('unknown', 'too deep')
        recv = fn.args.args[0].arg if fn.args.args else None
        ev = lambda x, b=binds: self.ev(x, fn, b, depth + 1)  # noqa: E731
        if isinstance(e, ast.Constant):
            if isinstance(e.value, (str, int)) and not isinstance(e.value, bool):
                return ('const', str(e.value))
            return ('const', repr(e.value))
        if isinstance(e, ast.JoinedStr):
            parts: List[Val] = []
            for v in e.values:
                if isinstance(v, ast.FormattedValue):
                    parts.append(ev(v.value) if v.format_spec is None else ('det', 'format', (ev(v.value),)))
                else:
                    parts.append(ev(v))
            return _cat(parts)
        if isinstance(e, ast.BinOp) and isinstance(e.op, ast.Add):
            a, b = ev(e.left), ev(e.right)
            if a[0] == 'list' or b[0] == 'list':
                return ('list', _alt([x[1] if x[0] == 'list' else ('unknown', 'non-list operand of +') for x in (a, b)]))
            return _cat([a, b])
        if isinstance(e, ast.BinOp) and isinstance(e.op, ast.Mod) and isinstance(e.left, ast.Constant) and isinstance(e.left.value, str):
            r = e.right.elts if isinstance(e.right, ast.Tuple) else [e.right]
            return ('det', '%', (ev(e.left),) + tuple(ev(x) for x in r))
        if isinstance(e, ast.BinOp) and isinstance(e.op, ast.Div):  # pathlib style a / b
            return _cat([ev(e.left), ('const', '/'), ev(e.right)])
        if isinstance(e, ast.BinOp) and isinstance(e.op, (ast.Sub, ast.Mult, ast.FloorDiv, ast.Mod, ast.Pow)):
            return ('det', type(e.op).__name__, (ev(e.left), ev(e.right)))
        if isinstance(e, ast.IfExp):
            return _alt([ev(e.body), ev(e.orelse)])
        if isinstance(e, ast.BoolOp):
            return _alt([ev(v) for v in e.values])  # `a or b` / `a and b` evaluate to one of the operands
        if isinstance(e, ast.Attribute):
            if recv is not None and self_attr(e, recv) is not None:
                a = self.alias.get(e.attr, e.attr)
                if self.cm is not None and a in self.cm.consts:
                    return ('const', str(self.cm.consts[a]))
                return ('slot', a)
            d = self.canon(e)
            if d in DET_CONST_ATTRS:
                return ('const', d)
            if d is not None and self.cm is not None and d.startswith(self.cm.name + '.') and d[len(self.cm.name) + 1:] in self.cm.consts:
                return ('const', str(self.cm.consts[d[len(self.cm.name) + 1:]]))
            base = ev(e.value)
            if base[0] in ('fresh', 'det', 'cat', 'const', 'param', 'slot'):
                return ('det', '.' + e.attr, (base,))  # an attribute of a value is a function of that value (uuid4().hex, self._x.path)
            return self._field(base, e.attr)
        if isinstance(e, ast.Name):
            if e.id in binds:
                return binds[e.id]
            return self._name(e.id, fn, binds, depth)
        if isinstance(e, ast.Subscript):
            base = ev(e.value)
            if isinstance(e.slice, ast.Slice):
                if base[0] == 'list':
                    return base
                if base[0] in ('slot', 'slotelem'):
                    return ('list', ('slotelem', base[1]))
                if base[0] in ('det', 'cat', 'const', 'fresh', 'param'):
                    return ('det', 'slice', (base,))  # a substring is a function of the string
                return ('unknown', pf.nsrc(e))
            if base[0] == 'list':
                return base[1]
            if base[0] in ('slot', 'slotelem'):
                return ('slotelem', base[1])
            return ('unknown', pf.nsrc(e))
        if isinstance(e, (ast.List, ast.Tuple, ast.Set)):
            if not e.elts:
                return ('list', ('unknown', 'empty literal'))
            return ('list', _alt([ev(x) for x in e.elts]))
        if isinstance(e, (ast.ListComp, ast.GeneratorExp, ast.SetComp)):
            b2 = dict(binds)
            for g in e.generators:
                self._bind(g.target, g.iter, fn, b2, depth)
            return ('list', self.ev(e.elt, fn, b2, depth + 1))
        if isinstance(e, ast.Call):
            return self._call(e, fn, binds, depth)
        return ('unknown', pf.nsrc(e)[:60])

    def _field(self, base: Val, attr: str) -> Val:
        if base[0] == 'rec':
            for f, v in base[2]:
                if f == attr:
                    return v
            return ('unknown', f'{base[1]}.{attr}')
        if base[0] == 'alt':
            return _alt([self._field(b, attr) for b in base[1]])
        if base[0] in ('slotelem', 'field'):
            return ('field', attr, base)
        return ('unknown', f'.{attr} of {render(base)[:40]}')

    def _elem(self, v: Val) -> Val:
        if v[0] == 'list':
            return v[1]
        if v[0] in ('slot', 'slotelem'):
            return ('slotelem', v[1])
        if v[0] == 'alt':
            return _alt([self._elem(x) for x in v[1]])
        return ('unknown', f'element of {render(v)[:40]}')

    def _bind(self, target: ast.AST, it: ast.AST, fn: FuncDef, binds: Dict[str, Val], depth: int) -> None:
        """Bind the names of a for/comprehension target to the symbolic element of the iterable."""
        d = self.canon(it.func) if isinstance(it, ast.Call) else None
        if d == 'enumerate' and it.args and isinstance(target, (ast.Tuple, ast.List)) and len(target.elts) == 2:  # type: ignore[union-attr]
            self._bind_to(target.elts[0], ('index',), binds)
            self._bind_to(target.elts[1], self._elem(self.ev(it.args[0], fn, binds, depth + 1)), binds)  # type: ignore[union-attr]
            return
        if d == 'range':
            self._bind_to(target, ('index',), binds)
            return
        if d == 'zip' and isinstance(target, (ast.Tuple, ast.List)) and len(target.elts) == len(it.args):  # type: ignore[union-attr]
            for t, a in zip(target.elts, it.args):  # type: ignore[union-attr]
                self._bind_to(t, self._elem(self.ev(a, fn, binds, depth + 1)), binds)
            return
        self._bind_to(target, self._elem(self.ev(it, fn, binds, depth + 1)), binds)

    def _bind_to(self, target: ast.AST, v: Val, binds: Dict[str, Val]) -> None:
        if isinstance(target, ast.Name):
            binds[target.id] = v
        else:
            for n in ast.walk(target):
                if isinstance(n, ast.Name):
                    binds[n.id] = ('unknown', f'destructured {n.id}')

    def _name(self, name: str, fn: FuncDef, binds: Dict[str, Val], depth: int) -> Val:
        ds = self.defs(fn).get(name)
        if not ds:
            d = self.imports.get(name)
            return ('unknown', f'free name {name}' + (f' ({d})' if d else ''))
        vals: List[Val] = []
        # an accumulator: `xs = []` (its only definition) filled by `xs.append(v)` / `xs.extend(vs)` statements -> the list of what is appended
        if all(isinstance(d, (ast.List, ast.Call)) and ((isinstance(d, ast.List) and not d.elts) or (isinstance(d, ast.Call) and pf.dotted(d.func) == 'list' and not d.args
                                                                                              and not d.keywords)) for d in ds):
            elems: List[Val] = []
            other_use = False
            for n in pf.walk_shallow(fn):
                if isinstance(n, ast.Call) and isinstance(n.func, ast.Attribute) and isinstance(n.func.value, ast.Name) and n.func.value.id == name:
                    if n.func.attr == 'append' and len(n.args) == 1 and not n.keywords:
                        elems.append(self.ev(n.args[0], fn, {k: v for k, v in binds.items() if k != name}, depth + 1))
                    elif n.func.attr == 'extend' and len(n.args) == 1 and not n.keywords:
                        elems.append(self._elem(self.ev(n.args[0], fn, {k: v for k, v in binds.items() if k != name}, depth + 1)))
                    elif n.func.attr in ('insert', 'pop', 'remove', 'clear', 'sort', 'reverse', '__setitem__'):
                        other_use = True
            if elems and not other_use:
                return ('list', _alt(elems))
        for d in ds:
            if isinstance(d, ast.arg):
                vals.append(('param', name))
            elif isinstance(d, (ast.For, ast.AsyncFor, ast.comprehension)):
                b2: Dict[str, Val] = {}
                self._bind(d.target, d.iter, fn, b2, depth + 1)
                vals.append(b2.get(name, ('unknown', f'loop target {name}')))
            elif isinstance(d, ast.expr):
                vals.append(self.ev(d, fn, {k: v for k, v in binds.items() if k != name}, depth + 1))
            else:
                vals.append(('unknown', f'{name} bound by {type(d).__name__}'))
        return _alt(vals)

    def _call(self, e: ast.Call, fn: FuncDef, binds: Dict[str, Val], depth: int) -> Val:
        ev = lambda x: self.ev(x, fn, binds, depth + 1)  # noqa: E731
        d = self.canon(e.func)
        recv = fn.args.args[0].arg if fn.args.args else None
        if d in FRESH:
            return ('fresh', d)
        if d in PATH_JOIN and not e.keywords:
            parts: List[Val] = []
            for i, a in enumerate(e.args):
                if i:
                    parts.append(('const', '/'))
                parts.append(ev(a))
            return _cat(parts)
        if d == 'str' and len(e.args) == 1 and not e.keywords:
            return ev(e.args[0])
        if d == 'len' and len(e.args) == 1 and not e.keywords:
            return ('count', pf.nsrc(e.args[0])[:40])  # a length: deterministic, carries none of the element values
        if d in ('max', 'min') and len(e.args) == 1:
            return self._elem(ev(e.args[0]))
        if d in ('list', 'tuple', 'sorted', 'reversed') and len(e.args) == 1:
            v = ev(e.args[0])
            return v if v[0] == 'list' else ('list', self._elem(v))
        # NamedTuple / record constructors
        if d in self.records:
            fields = self.records[d]
            vals: Dict[str, Val] = {}
            for f, a in zip(fields, e.args):
                vals[f] = ev(a)
            for k in e.keywords:
                if k.arg is not None:
                    vals[k.arg] = ev(k.value)
            return ('rec', d, tuple((f, vals.get(f, ('unknown', f'{f} not given'))) for f in fields))
        # expression helpers of the same class: `return <expr>`
        if recv is not None and isinstance(e.func, ast.Attribute) and self_attr(e.func, recv) is not None and self.cm is not None:
            h = self.cm.methods.get(e.func.attr)
            if h is not None and not h.decorator_list:
                body = _strip_doc(h.body)
                params = [a.arg for a in h.args.args[1:]]
                if len(body) == 1 and isinstance(body[0], ast.Return) and body[0].value is not None and len(e.args) <= len(params) \
                        and not h.args.vararg and not h.args.kwarg:
                    b2: Dict[str, Val] = {}
                    for p, a in zip(params, e.args):
                        b2[p] = ev(a)
                    for k in e.keywords:
                        if k.arg in params:
                            b2[k.arg] = ev(k.value)
                    dfl = dict(zip(params[len(params) - len(h.args.defaults):], h.args.defaults))
                    for p in params:
                        if p not in b2:
                            b2[p] = self.ev(dfl[p], h, {}, depth + 1) if p in dfl else ('unknown', f'unbound parameter {p}')
                    return self.ev(body[0].value, h, b2, depth + 1)
            return ('unknown', pf.nsrc(e)[:60])
        if d is not None and (d in DET_FUNCS or d.startswith(DET_PREFIX)):
            return ('det', d, tuple(ev(a) for a in e.args) + tuple(ev(k.value) for k in e.keywords))
        if isinstance(e.func, ast.Attribute) and e.func.attr in DET_METHODS:
            return ('det', '.' + e.func.attr, (ev(e.func.value),) + tuple(ev(a) for a in e.args))
        return ('unknown', pf.nsrc(e)[:60])


def named_tuples(m: pf.Module) -> Dict[str, List[str]]:
    """NamedTuple classes of the module: name -> field names in order."""
    out: Dict[str, List[str]] = {}
    for c in m.tree.body:
        if isinstance(c, ast.ClassDef) and any((pf.dotted(b) or '').split('.')[-1] == 'NamedTuple' for b in c.bases):
            out[c.name] = [st.target.id for st in c.body if isinstance(st, ast.AnnAssign) and isinstance(st.target, ast.Name)]
    return out


# ---------------------------------------------------------------------------------------------------------------------------
# integer intervals through statement lists
# ---------------------------------------------------------------------------------------------------------------------------
class Iv:
    __slots__ = ('lo', 'hi')

    def __init__(self, lo=-INF, hi=INF):
        self.lo, self.hi = lo, hi

    def __repr__(self) -> str:
        f = lambda x: ('-inf' if x == -INF else 'inf' if x == INF else str(int(x)))  # noqa: E731
        return f'[{f(self.lo)}, {f(self.hi)}]'

    def __eq__(self, o: object) -> bool:
        return isinstance(o, Iv) and (self.lo, self.hi) == (o.lo, o.hi)

    def join(self, o: 'Iv') -> 'Iv':
        return Iv(min(self.lo, o.lo), max(self.hi, o.hi))

    def meet(self, o: 'Iv') -> Optional['Iv']:
        lo, hi = max(self.lo, o.lo), min(self.hi, o.hi)
        return None if lo > hi else Iv(lo, hi)


TOP = Iv()
Env = Dict[str, Iv]


def _mul(x, y):
    if x == 0 or y == 0:
        return 0
    return x * y


def _fdiv(x, y):
    if y in (INF, -INF):
        if x in (INF, -INF):
            return None
        return 0 if (x >= 0) == (y > 0) else -1
    if x in (INF, -INF):
        return x if y > 0 else -x
    return x // y


def atom_key(e: ast.AST, recv: Optional[str]) -> Optional[str]:
    """Key under which an integer-valued atom is tracked: a local name, `self.x`, or `len(<expr>)`."""
    if isinstance(e, ast.Name):
        return e.id
    if recv is not None and self_attr(e, recv) is not None:
        return f'self.{e.attr}'  # type: ignore[attr-defined]
    if isinstance(e, ast.Call) and pf.dotted(e.func) == 'len' and len(e.args) == 1 and not e.keywords:
        return 'len(' + pf.nsrc(e.args[0]).replace(f'{recv}.', 'self.') + ')'
    return None


class AbsExec:
    """Interval interpretation of a statement list.  `exits` collects the environments at normal exits (return / fall-through)."""

    def __init__(self, recv: Optional[str], consts: Dict[str, int], where: str):
        self.recv = recv
        self.consts = consts
        self.where = where
        self.exits: List[Env] = []
        self.atoms: Set[str] = set()  # atoms read before any assignment (inputs)
        self.int_consts: Set[int] = set()

    # -- expressions --------------------------------------------------------------------------------------------------------
    def ev(self, e: ast.AST, env: Env) -> Iv:
        if isinstance(e, ast.Constant):
            if isinstance(e.value, int) and not isinstance(e.value, bool):
                self.int_consts.add(e.value)
                return Iv(e.value, e.value)
            return TOP
        d = pf.dotted(e)
        if d is not None and d in self.consts and (not isinstance(e, ast.Name) or d not in env):
            self.int_consts.add(self.consts[d])
            return Iv(self.consts[d], self.consts[d])
        k = atom_key(e, self.recv)
        if k is not None:
            if k not in env:
                self.atoms.add(k)
                env[k] = Iv(0, INF) if k.startswith('len(') else Iv()
            return env[k]
        if isinstance(e, ast.BinOp):
            a, b = self.ev(e.left, env), self.ev(e.right, env)
            if isinstance(e.op, ast.Add):
                return Iv(a.lo + b.lo, a.hi + b.hi)
            if isinstance(e.op, ast.Sub):
                return Iv(a.lo - b.hi, a.hi - b.lo)
            if isinstance(e.op, ast.Mult):
                vs = [_mul(x, y) for x in (a.lo, a.hi) for y in (b.lo, b.hi)]
                return Iv(min(vs), max(vs))
            if isinstance(e.op, ast.FloorDiv):
                if b.lo <= 0 <= b.hi:
                    return TOP  # may divide by zero / change sign: nothing known
                vs = [_fdiv(x, y) for x in (a.lo, a.hi) for y in (b.lo, b.hi)]
                if any(v is None for v in vs):
                    return TOP
                return Iv(min(vs), max(vs))
            return TOP
        if isinstance(e, ast.UnaryOp) and isinstance(e.op, ast.USub):
            a = self.ev(e.operand, env)
            return Iv(-a.hi, -a.lo)
        if isinstance(e, ast.IfExp):
            return self.ev(e.body, env).join(self.ev(e.orelse, env))
        if isinstance(e, ast.Call) and not e.keywords:
            d = pf.dotted(e.func)
            args = [self.ev(a, env) for a in e.args]
            if d == 'min' and len(args) >= 2:
                return Iv(min(a.lo for a in args), min(a.hi for a in args))
            if d == 'max' and len(args) >= 2:
                return Iv(max(a.lo for a in args), max(a.hi for a in args))
            if d == 'int' and len(args) == 1:
                return args[0]
            if d == 'abs' and len(args) == 1:
                a = args[0]
                return Iv(0 if a.lo <= 0 <= a.hi else min(abs(a.lo), abs(a.hi)), max(abs(a.lo), abs(a.hi)))
        return TOP

    # -- tests --------------------------------------------------------------------------------------------------------------
    def refine(self, t: ast.AST, env: Env, truth: bool) -> Optional[Env]:
        """Environment restricted to `t` being `truth`; None when infeasible.  Unrecognised tests restrict nothing."""
        if isinstance(t, ast.UnaryOp) and isinstance(t.op, ast.Not):
            return self.refine(t.operand, env, not truth)
        if isinstance(t, ast.BoolOp):
            conj = isinstance(t.op, ast.And) == truth  # (A and B) true / (A or B) false: every operand constrained
            if conj:
                cur: Optional[Env] = env
                for v in t.values:
                    cur = self.refine(v, cur, truth) if cur is not None else None
                return cur
            outs = [self.refine(v, dict(env), truth) for v in t.values]
            outs = [o for o in outs if o is not None]
            return _join_envs(outs) if outs else None
        if isinstance(t, ast.Compare) and len(t.ops) == 1:
            op = t.ops[0]
            if not truth:
                neg = {ast.Lt: ast.GtE, ast.LtE: ast.Gt, ast.Gt: ast.LtE, ast.GtE: ast.Lt, ast.Eq: ast.NotEq, ast.NotEq: ast.Eq}
                if type(op) not in neg:
                    return env
                op = neg[type(op)]()
            return self._cmp(t.left, op, t.comparators[0], env)
        return env

    def _cmp(self, l: ast.AST, op: ast.cmpop, r: ast.AST, env: Env) -> Optional[Env]:
        a, b = self.ev(l, env), self.ev(r, env)
        env = dict(env)

        def narrow(e: ast.AST, iv: Iv) -> bool:
            k = atom_key(e, self.recv)
            cur = self.ev(e, env)
            m = cur.meet(iv)
            if m is None:
                return False
            if k is not None and not (pf.dotted(e) in self.consts and k not in env):
                env[k] = m
            return True
        if isinstance(op, ast.Lt):
            ok = narrow(l, Iv(-INF, b.hi - 1)) and narrow(r, Iv(a.lo + 1, INF))
        elif isinstance(op, ast.LtE):
            ok = narrow(l, Iv(-INF, b.hi)) and narrow(r, Iv(a.lo, INF))
        elif isinstance(op, ast.Gt):
            ok = narrow(l, Iv(b.lo + 1, INF)) and narrow(r, Iv(-INF, a.hi - 1))
            # a * b > K >= 0 with non-negative factors: both factors are positive
            if ok and b.lo >= 0 and isinstance(l, ast.BinOp) and isinstance(l.op, ast.Mult):
                x, y = self.ev(l.left, env), self.ev(l.right, env)
                if x.lo >= 0 and y.lo >= 0:
                    ok = narrow(l.left, Iv(1, INF)) and narrow(l.right, Iv(1, INF))
        elif isinstance(op, ast.GtE):
            ok = narrow(l, Iv(b.lo, INF)) and narrow(r, Iv(-INF, a.hi))
            if ok and b.lo >= 1 and isinstance(l, ast.BinOp) and isinstance(l.op, ast.Mult):
                x, y = self.ev(l.left, env), self.ev(l.right, env)
                if x.lo >= 0 and y.lo >= 0:
                    ok = narrow(l.left, Iv(1, INF)) and narrow(l.right, Iv(1, INF))
        elif isinstance(op, ast.Eq):
            m = a.meet(b)
            ok = m is not None and narrow(l, m) and narrow(r, m)
        else:
            ok = True
        return env if ok else None

    # -- statements ---------------------------------------------------------------------------------------------------------
    def assigned(self, stmts: Sequence[ast.stmt]) -> Set[str]:
        out: Set[str] = set()
        for st in stmts:
            for n in pf.walk_shallow(st):
                ts: List[ast.AST] = []
                if isinstance(n, ast.Assign):
                    ts = list(n.targets)
                elif isinstance(n, (ast.AugAssign, ast.AnnAssign)):
                    ts = [n.target]
                elif isinstance(n, (ast.For, ast.AsyncFor)):
                    ts = [n.target]
                elif isinstance(n, ast.NamedExpr):
                    ts = [n.target]
                for t in ts:
                    for x in ast.walk(t):
                        k = atom_key(x, self.recv) if isinstance(x, (ast.Name, ast.Attribute)) else None
                        if k is not None and isinstance(getattr(x, 'ctx', None), (ast.Store, ast.Del)):
                            out.add(k)
        return out

    def havoc(self, env: Env, keys: Set[str]) -> Env:
        env = dict(env)
        for k in keys:
            env[k] = Iv()
            for k2 in list(env):
                if k2.startswith('len(') and k in k2:
                    env[k2] = Iv(0, INF)
        return env

    def run(self, stmts: Sequence[ast.stmt], env: Optional[Env]) -> Optional[Env]:
        """Returns the environment after falling through the block (None if no path falls through)."""
        for st in stmts:
            if env is None:
                return None
            env = self.stmt(st, env)
        return env

    def stmt(self, st: ast.stmt, env: Env) -> Optional[Env]:
        if isinstance(st, ast.If):
            et, ef = self.refine(st.test, dict(env), True), self.refine(st.test, dict(env), False)
            a = self.run(st.body, et) if et is not None else None
            b = self.run(st.orelse, ef) if ef is not None else None
            outs = [x for x in (a, b) if x is not None]
            return _join_envs(outs) if outs else None
        if isinstance(st, ast.Raise):
            return None
        if isinstance(st, ast.Return):
            self.exits.append(env)
            return None
        if isinstance(st, ast.Assert):
            return self.refine(st.test, dict(env), True)
        if isinstance(st, (ast.Assign, ast.AnnAssign)):
            if st.value is None:
                return env
            v = self.ev(st.value, env)
            env = dict(env)
            targets = st.targets if isinstance(st, ast.Assign) else [st.target]
            for t in targets:
                k = atom_key(t, self.recv) if isinstance(t, (ast.Name, ast.Attribute)) else None
                if k is not None:
                    env = self.havoc(env, {k})
                    env[k] = v
                else:
                    env = self.havoc(env, self.assigned([ast.Assign(targets=[t], value=ast.Constant(value=0))]))
            return env
        if isinstance(st, ast.AugAssign):
            k = atom_key(st.target, self.recv) if isinstance(st.target, (ast.Name, ast.Attribute)) else None
            if k is None:
                return env
            v = self.ev(ast.BinOp(left=_load(st.target), op=st.op, right=st.value), env)
            env = self.havoc(env, {k})
            env[k] = v
            return env
        if isinstance(st, (ast.For, ast.AsyncFor, ast.While)):
            keys = self.assigned(st.body) | (self.assigned([st]) if not isinstance(st, ast.While) else set())
            inner = self.havoc(env, keys)
            # the body may return: evaluate it once from the widened state to collect exits
            if isinstance(st, ast.While):
                et = self.refine(st.test, dict(inner), True)
                if et is not None:
                    self.run(st.body, et)
                out = self.refine(st.test, dict(inner), False)
                if isinstance(st.test, ast.Constant) and st.test.value:
                    out = None
            else:
                self.run(st.body, dict(inner))
                out = inner
            return self.run(st.orelse, out) if (st.orelse and out is not None) else out
        if isinstance(st, (ast.With, ast.AsyncWith)):
            return self.run(st.body, env)
        if isinstance(st, ast.Try):
            # an exception may leave the body after any statement: a handler starts from the join of the states between the body's statements
            # (a simple statement assigns atomically; what compound statements assign is forgotten, they may be left half-way)
            snaps: List[Env] = [dict(env)]
            a: Optional[Env] = dict(env)
            for bst in st.body:
                if a is None:
                    break
                a = self.stmt(bst, a)
                if a is not None:
                    snaps.append(dict(a))
            compound = [b for b in st.body if isinstance(b, (ast.If, ast.For, ast.AsyncFor, ast.While, ast.With, ast.AsyncWith, ast.Try))]
            if a is not None and st.orelse:
                a = self.run(st.orelse, a)
            outs = [a] if a is not None else []
            for h in st.handlers:
                b = self.run(h.body, self.havoc(_join_envs(snaps), self.assigned(compound)))
                if b is not None:
                    outs.append(b)
            out = _join_envs(outs) if outs else None
            if st.finalbody and out is not None:
                out = self.run(st.finalbody, out)
            return out
        if isinstance(st, (ast.Expr, ast.Pass, ast.FunctionDef, ast.AsyncFunctionDef, ast.ClassDef, ast.Import, ast.ImportFrom, ast.Delete, ast.Global, ast.Nonlocal)):
            return env
        if isinstance(st, (ast.Break, ast.Continue)):
            return None
        raise AnalysisError(f'{self.where}: statement not supported by the interval analysis: `{pf.nsrc(st)[:60]}`')

    def analyse(self, stmts: Sequence[ast.stmt], env: Env) -> Env:
        out = self.run(stmts, dict(env))
        if out is not None:
            self.exits.append(out)
        if not self.exits:
            raise AnalysisError(f'{self.where}: no normal exit found')
        return _join_envs(self.exits)


def _load(t: ast.AST) -> ast.AST:
    t2 = copy.deepcopy(t)
    for n in ast.walk(t2):
        if hasattr(n, 'ctx'):
            n.ctx = ast.Load()  # type: ignore[attr-defined]
    return t2


def _join_envs(envs: Sequence[Env]) -> Env:
    keys = set(envs[0])
    for e in envs[1:]:
        keys &= set(e)
    out: Env = {}
    for k in keys:
        iv = envs[0][k]
        for e in envs[1:]:
            iv = iv.join(e[k])
        out[k] = iv
    # a key missing on some path is unconstrained there (len atoms stay non-negative)
    for e in envs:
        for k in e:
            if k not in out and k.startswith('len('):
                out[k] = Iv(0, INF)
    return out


class _Stop(Exception):
    pass


class Concrete:
    """Concrete integer interpretation of the same statement forms.  Opaque tests fork (both outcomes are explored)."""

    def __init__(self, recv: Optional[str], consts: Dict[str, int], budget: int = 4000):
        self.recv = recv
        self.consts = consts
        self.budget = budget

    def ev(self, e: ast.AST, env: Dict[str, int]):
        if isinstance(e, ast.Constant) and isinstance(e.value, int) and not isinstance(e.value, bool):
            return e.value
        d = pf.dotted(e)
        if d is not None and d in self.consts and (not isinstance(e, ast.Name) or d not in env):
            return self.consts[d]
        k = atom_key(e, self.recv)
        if k is not None:
            if k in env:
                return env[k]
            raise _Stop()
        if isinstance(e, ast.BinOp):
            a, b = self.ev(e.left, env), self.ev(e.right, env)
            if isinstance(e.op, ast.Add):
                return a + b
            if isinstance(e.op, ast.Sub):
                return a - b
            if isinstance(e.op, ast.Mult):
                return a * b
            if isinstance(e.op, ast.FloorDiv):
                if b == 0:
                    raise _Stop()
                return a // b
            raise _Stop()
        if isinstance(e, ast.UnaryOp) and isinstance(e.op, ast.USub):
            return -self.ev(e.operand, env)
        if isinstance(e, ast.Call) and not e.keywords:
            d = pf.dotted(e.func)
            if d in ('min', 'max') and len(e.args) >= 2:
                return (min if d == 'min' else max)(self.ev(a, env) for a in e.args)
            if d == 'int' and len(e.args) == 1:
                return self.ev(e.args[0], env)
            if d == 'abs' and len(e.args) == 1:
                return abs(self.ev(e.args[0], env))
        raise _Stop()

    def test(self, t: ast.AST, env: Dict[str, int]) -> Optional[bool]:
        """True/False when decidable from the integer atoms, None when opaque."""
        if isinstance(t, ast.UnaryOp) and isinstance(t.op, ast.Not):
            v = self.test(t.operand, env)
            return None if v is None else not v
        if isinstance(t, ast.BoolOp):
            vs = [self.test(v, env) for v in t.values]
            if isinstance(t.op, ast.And):
                if any(v is False for v in vs):
                    return False
                return True if all(v is True for v in vs) else None
            if any(v is True for v in vs):
                return True
            return False if all(v is False for v in vs) else None
        if isinstance(t, ast.Compare) and len(t.ops) == 1:
            try:
                a, b = self.ev(t.left, env), self.ev(t.comparators[0], env)
            except _Stop:
                return None
            for ty, f in ((ast.Lt, a < b), (ast.LtE, a <= b), (ast.Gt, a > b), (ast.GtE, a >= b), (ast.Eq, a == b), (ast.NotEq, a != b)):
                if isinstance(t.ops[0], ty):
                    return f
            return None
        # truthiness of a container whose length is an atom
        k = 'len(' + pf.nsrc(t).replace(f'{self.recv}.', 'self.') + ')'
        if k in env:
            return env[k] > 0
        return None

    def run(self, stmts: Sequence[ast.stmt], env: Dict[str, int], k) -> None:
        """Continuation-passing: k(env) is called for each way of falling through the block."""
        self.budget -= 1
        if self.budget < 0:
            raise AnalysisError('concrete witness search exceeded its budget')
        if not stmts:
            k(env)
            return
        st, rest = stmts[0], stmts[1:]
        nxt = lambda e: self.run(rest, e, k)  # noqa: E731
        if isinstance(st, ast.If):
            v = self.test(st.test, env)
            for truth in ((True, False) if v is None else (v,)):
                self.run(st.body if truth else st.orelse, dict(env), nxt)
            return
        if isinstance(st, ast.Raise):
            return
        if isinstance(st, ast.Return):
            self.done(env)
            return
        if isinstance(st, ast.Assert):
            if self.test(st.test, env) is not False:
                nxt(env)
            return
        if isinstance(st, (ast.Assign, ast.AnnAssign)) and st.value is not None:
            targets = st.targets if isinstance(st, ast.Assign) else [st.target]
            env = dict(env)
            try:
                v = self.ev(st.value, env)
            except _Stop:
                v = None
            for t in targets:
                kk = atom_key(t, self.recv) if isinstance(t, (ast.Name, ast.Attribute)) else None
                if kk is not None:
                    if v is None:
                        env.pop(kk, None)
                    else:
                        env[kk] = v
                    if kk in ('self.' + x for x in ()):
                        pass
            nxt(env)
            return
        if isinstance(st, ast.AugAssign):
            kk = atom_key(st.target, self.recv) if isinstance(st.target, (ast.Name, ast.Attribute)) else None
            env = dict(env)
            if kk is not None:
                try:
                    env[kk] = self.ev(ast.BinOp(left=_load(st.target), op=st.op, right=st.value), env)
                except _Stop:
                    env.pop(kk, None)
            nxt(env)
            return
        if isinstance(st, ast.Try):
            # one feasible way through: the body completes without raising
            self.run(list(st.body) + list(st.orelse) + list(st.finalbody) + list(rest), env, k)
            return
        if isinstance(st, (ast.For, ast.AsyncFor, ast.While)):
            # not interpreted: forget what the construct may assign
            env = dict(env)
            ae = AbsExec(self.recv, self.consts, '')
            for kk in ae.assigned([st]):
                env.pop(kk, None)
            nxt(env)
            return
        if isinstance(st, (ast.With, ast.AsyncWith)):
            self.run(list(st.body) + list(rest), env, k)
            return
        nxt(env)

    def done(self, env: Dict[str, int]) -> None:
        self._results.append(env)

    def results(self, stmts: Sequence[ast.stmt], env: Dict[str, int]) -> List[Dict[str, int]]:
        self._results: List[Dict[str, int]] = []
        self.run(list(stmts), dict(env), self.done)
        return self._results


def find_witness(stmts: Sequence[ast.stmt], recv: Optional[str], consts: Dict[str, int], entry: Env, inputs: Sequence[str], extra_consts: Set[int],
                 target: str, bound: int, prefer: Optional[Dict[str, int]] = None) -> Optional[Dict[str, int]]:
    """Search boundary values of the input atoms for a run that ends with `target` < bound.  Returns the input assignment."""
    prefer = prefer or {}
    cands: List[List[int]] = []
    pool = sorted({c + d for c in extra_consts for d in (-1, 0, 1)} | {0, 1, 2})
    for a in inputs:
        iv = entry.get(a, Iv(0, INF) if a.startswith('len(') else Iv())
        vals: List[int] = []
        if a in prefer:
            vals.append(prefer[a])
        for v in ([iv.lo, iv.lo + 1] if iv.lo != -INF else []) + pool + ([iv.hi] if iv.hi != INF else []):
            if iv.lo <= v <= iv.hi and v not in vals:
                vals.append(int(v))
        cands.append(vals[:10])
    n = 0
    for combo in itertools.product(*cands):
        n += 1
        if n > 3000:
            break
        env = dict(zip(inputs, combo))
        try:
            res = Concrete(recv, consts).results(stmts, env)
        except AnalysisError:
            continue
        for r in res:
            if target in r and r[target] < bound:
                # drop the inputs the outcome does not depend on (leaving them unknown still reaches a value below the bound)
                for a in [x for x in env if x not in prefer and not x.startswith('len(')]:
                    trial = {k: v for k, v in env.items() if k != a}
                    try:
                        rs = Concrete(recv, consts).results(stmts, trial)
                    except AnalysisError:
                        continue
                    if any(target in x and x[target] == r[target] for x in rs):
                        env = trial
                w = dict(env)
                w['=> ' + target] = r[target]
                return w
    return None


def relevant_atoms(stmts: Sequence[ast.stmt], recv: Optional[str], target: str) -> Set[str]:
    """Atoms the final value of `target` may depend on (data dependences through assignments, control dependences through the tests of
    compound statements that assign a relevant atom, and guards `if t: raise` that mention a relevant atom)."""
    def atoms_of(e: ast.AST) -> Set[str]:
        out: Set[str] = set()
        stack = [e]
        while stack:
            n = stack.pop()
            k = atom_key(n, recv) if isinstance(n, (ast.Name, ast.Attribute, ast.Call)) else None
            if k is not None:
                if not (isinstance(n, ast.Name) and n.id == recv):
                    out.add(k)
                continue  # an atom is opaque: `self` inside `self.x`, `x` inside `len(x)` are not atoms of their own
            if isinstance(n, ast.Call):
                stack.extend(list(n.args) + [kw.value for kw in n.keywords])  # the callee name is not a value
                continue
            if isinstance(n, ast.Attribute):
                continue  # attribute chain on something that is not the receiver: not an integer atom
            stack.extend(ast.iter_child_nodes(n))
        return out
    ae = AbsExec(recv, {}, '')
    rel: Set[str] = {target}
    changed = True
    while changed:
        changed = False
        for st in stmts:
            for n in [st] + [x for x in pf.walk_shallow(st) if isinstance(x, ast.stmt)]:
                add: Set[str] = set()
                if isinstance(n, (ast.Assign, ast.AnnAssign, ast.AugAssign)) and getattr(n, 'value', None) is not None:
                    if ae.assigned([n]) & rel:
                        add = atoms_of(n.value) | (atoms_of(n.target) if isinstance(n, ast.AugAssign) else set())
                elif isinstance(n, (ast.If, ast.While)):
                    body_assigns = ae.assigned(list(n.body) + list(n.orelse))
                    guard = any(isinstance(x, (ast.Raise, ast.Return)) for b in (n.body, n.orelse) for x in b)
                    if (body_assigns & rel) or (guard and atoms_of(n.test) & rel):
                        add = atoms_of(n.test)
                elif isinstance(n, ast.Assert):
                    if atoms_of(n.test) & rel:
                        add = atoms_of(n.test)
                if not add <= rel:
                    rel |= add
                    changed = True
    return rel
