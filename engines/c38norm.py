"""Behaviour-preserving normal form of the combiner class used by rules/c38.py -- syntax-tree rewriting only, nothing is run.

The C38 rules are written against a handful of statement shapes (`self.x += 1`, `self.h()` as a statement, `x = self.S[a:b]`, ...).  The
same behaviour can be written in other ways; instead of teaching every rule every spelling, the class is brought into one normal form first:

  N1  `t = t + e`, `t = t - e`                           ->  `t += e`, `t -= e`          (t a name, `self.a`, `self.a[k]`)
      `self.a = v` with the single-definition local `v = self.a + e` right in front      ->  `self.a += e`
  N2  bound-method dispatch
          f = self.A if c else self.B ; f(args)           ->  if c: self.A(args) else: self.B(args)
          if c: f = self.A else: f = self.B ; f(args)     ->  same
          (self.A if c else self.B)(args)                 ->  same
      (only when the call statement follows the selection directly, so that `c` is evaluated in the same state)
  N3  alias of a plan bin:  `b = self.S[k]` (single definition, `self.S[k]` not re-bound and b not mutated in between) ... `b[i:j]`, `len(b)`
          -> the alias is substituted by `self.S[k]` in slices / len() / iteration, so that "which list is sliced" stays visible
  N5  a boolean local that holds a test and is used once, by the `if` / `while`-free statement right behind it:
          b = <test> ; if b: ...   /   if not b: ...      ->  if <test>: ...  /  if not <test>: ...
  N6  `a, b = x, y`  ->  `a = x ; b = y`   when no later value reads what an earlier target stores (then the order of evaluation is the same)
  N7  `if a: (if b: S)` without else branches            ->  `if a and b: S`
  N8  a @staticmethod helper that is only ever called from instance methods of the class (`Cls.h(..)`, `self.h(..)`, `type(self).h(..)`)
      becomes a plain method called as `self.h(..)` -- so that engines/inline.py can inline it like any other helper
  N10 `self.S[k] += [x]` / `+= [..comprehension..]`       ->  `self.S[k].append(x)` / `.extend([...])`  (the right-hand side is visibly a list)
All rewritten nodes keep the source position of the statement they replace.  A construct that does not fit exactly is left alone (the rules
then decline or see the original shape)."""
from __future__ import annotations

import ast
import copy
from typing import Dict, List, Optional, Sequence, Set

from . import pyfacts as pf

FuncDef = pf.FuncDef


def _same(a: ast.AST, b: ast.AST) -> bool:
    return ast.dump(_load(a)) == ast.dump(_load(b))


def _load(t: ast.AST) -> ast.AST:
    t2 = copy.deepcopy(t)
    for n in ast.walk(t2):
        if hasattr(n, 'ctx'):
            n.ctx = ast.Load()  # type: ignore[attr-defined]
    return t2


def _is_target(t: ast.AST) -> bool:
    if isinstance(t, ast.Name):
        return True
    if isinstance(t, ast.Attribute):
        return isinstance(t.value, ast.Name)
    if isinstance(t, ast.Subscript):
        return _is_target(t.value) and not isinstance(t.slice, ast.Slice)
    return False


def _aug(st: ast.stmt) -> Optional[ast.stmt]:
    """N1 (first form)."""
    if not (isinstance(st, ast.Assign) and len(st.targets) == 1 and _is_target(st.targets[0]) and isinstance(st.value, ast.BinOp)
            and isinstance(st.value.op, (ast.Add, ast.Sub))):
        return None
    t, v = st.targets[0], st.value
    if _same(t, v.left) and not any(_same(t, x) for x in ast.walk(v.right)):
        return ast.copy_location(ast.AugAssign(target=t, op=v.op, value=v.right), st)
    # `t = 1 + t`: only for an integer literal on the left (addition of numbers commutes; list concatenation does not)
    if isinstance(v.op, ast.Add) and _same(t, v.right) and isinstance(v.left, ast.Constant) and isinstance(v.left.value, int) and not isinstance(v.left.value, bool):
        return ast.copy_location(ast.AugAssign(target=t, op=ast.Add(), value=v.left), st)
    return None


def _method_ref(e: ast.AST, recv: str, methods: Set[str]) -> bool:
    return isinstance(e, ast.Attribute) and isinstance(e.value, ast.Name) and e.value.id == recv and e.attr in methods


def _selection(e: ast.AST, recv: str, methods: Set[str]) -> bool:
    """e is `self.A if c else <selection>` / `self.A`."""
    if _method_ref(e, recv, methods):
        return True
    return isinstance(e, ast.IfExp) and _selection(e.body, recv, methods) and _selection(e.orelse, recv, methods)


def _call_stmt_parts(st: ast.stmt):
    """(call, rebuild(new call) -> stmt) for the statement forms `f(..)`, `x = f(..)`, `return f(..)`."""
    if isinstance(st, ast.Expr) and isinstance(st.value, ast.Call):
        return st.value, lambda c: ast.copy_location(ast.Expr(value=c), st)
    if isinstance(st, ast.Assign) and isinstance(st.value, ast.Call):
        return st.value, lambda c: ast.copy_location(ast.Assign(targets=copy.deepcopy(st.targets), value=c, lineno=st.lineno), st)
    if isinstance(st, ast.Return) and isinstance(st.value, ast.Call):
        return st.value, lambda c: ast.copy_location(ast.Return(value=c), st)
    return None, None


def _dispatch(sel: ast.AST, call: ast.Call, rebuild, at: ast.stmt) -> ast.stmt:
    def mk(ref: ast.AST) -> List[ast.stmt]:
        if isinstance(ref, ast.IfExp):
            return [ast.copy_location(ast.If(test=copy.deepcopy(ref.test), body=mk(ref.body), orelse=mk(ref.orelse)), at)]
        c = ast.copy_location(ast.Call(func=copy.deepcopy(ref), args=copy.deepcopy(call.args), keywords=copy.deepcopy(call.keywords)), call)
        return [rebuild(c)]
    out = mk(sel)[0]
    ast.fix_missing_locations(out)
    return out


class _Norm:
    def __init__(self, fn: FuncDef, methods: Set[str]):
        self.fn = fn
        self.recv = fn.args.args[0].arg if fn.args.args else None
        self.methods = methods
        self.changed = False

    def _loads(self, name: str) -> List[ast.Name]:
        return [n for n in pf.walk_shallow(self.fn, into_nested_defs=True) if isinstance(n, ast.Name) and n.id == name and isinstance(n.ctx, ast.Load)]

    def _stores(self, name: str) -> int:
        return sum(1 for n in pf.walk_shallow(self.fn, into_nested_defs=True) if isinstance(n, ast.Name) and n.id == name and isinstance(n.ctx, (ast.Store, ast.Del)))

    def block(self, stmts: Sequence[ast.stmt]) -> List[ast.stmt]:
        out: List[ast.stmt] = []
        stmts = list(stmts)
        i = 0
        while i < len(stmts):
            st = stmts[i]
            nxt = stmts[i + 1] if i + 1 < len(stmts) else None
            # ---- N2: selection of a bound method followed by its call ----------------------------------------------------------------
            if self.recv is not None and nxt is not None:
                sel = name = None
                if isinstance(st, ast.Assign) and len(st.targets) == 1 and isinstance(st.targets[0], ast.Name) and isinstance(st.value, ast.IfExp) \
                        and _selection(st.value, self.recv, self.methods):
                    name, sel = st.targets[0].id, st.value
                elif isinstance(st, ast.If) and len(st.body) == 1 and len(st.orelse) == 1:
                    a, b = st.body[0], st.orelse[0]
                    if all(isinstance(x, ast.Assign) and len(x.targets) == 1 and isinstance(x.targets[0], ast.Name) and _selection(x.value, self.recv, self.methods)
                           for x in (a, b)) and a.targets[0].id == b.targets[0].id:  # type: ignore[union-attr]
                        name = a.targets[0].id  # type: ignore[union-attr]
                        sel = ast.copy_location(ast.IfExp(test=st.test, body=a.value, orelse=b.value), st)  # type: ignore[union-attr]
                if sel is not None and name is not None:
                    call, rebuild = _call_stmt_parts(nxt)
                    n_stores = 1 if isinstance(st, ast.Assign) else 2
                    if call is not None and isinstance(call.func, ast.Name) and call.func.id == name and self._stores(name) == n_stores \
                            and len(self._loads(name)) == 1:
                        out.append(_dispatch(sel, call, rebuild, st))
                        self.changed = True
                        i += 2
                        continue
            if self.recv is not None:
                call, rebuild = _call_stmt_parts(st)
                if call is not None and isinstance(call.func, ast.IfExp) and _selection(call.func, self.recv, self.methods):
                    out.append(_dispatch(call.func, call, rebuild, st))
                    self.changed = True
                    i += 1
                    continue
            # ---- N5: boolean local consumed by the next `if` -------------------------------------------------------------------------
            if nxt is not None and isinstance(st, ast.Assign) and len(st.targets) == 1 and isinstance(st.targets[0], ast.Name) and isinstance(nxt, ast.If) \
                    and not isinstance(st.value, (ast.Await, ast.Yield, ast.YieldFrom, ast.NamedExpr)):
                name = st.targets[0].id
                t = nxt.test
                inner = t.operand if isinstance(t, ast.UnaryOp) and isinstance(t.op, ast.Not) else t
                if isinstance(inner, ast.Name) and inner.id == name and self._stores(name) == 1 and len(self._loads(name)) == 1:
                    val = copy.deepcopy(st.value)
                    # `b = bool(x)` / `b = x` under `if b:` test the truth of x
                    if isinstance(val, ast.Call) and pf.dotted(val.func) == 'bool' and len(val.args) == 1 and not val.keywords:
                        val = val.args[0]
                    nxt.test = ast.copy_location(ast.UnaryOp(op=ast.Not(), operand=val), t) if inner is not t else ast.copy_location(val, t)
                    ast.fix_missing_locations(nxt)
                    self.changed = True
                    i += 1
                    continue
            # ---- N6: parallel assignment ----------------------------------------------------------------------------------------------
            if isinstance(st, ast.Assign) and len(st.targets) == 1 and isinstance(st.targets[0], (ast.Tuple, ast.List)) and isinstance(st.value, (ast.Tuple, ast.List)) \
                    and len(st.targets[0].elts) == len(st.value.elts) and not any(isinstance(x, ast.Starred) for x in st.targets[0].elts + st.value.elts) \
                    and all(_is_target(x) for x in st.targets[0].elts):
                ts, vs = st.targets[0].elts, st.value.elts
                safe = True
                for k, t in enumerate(ts):
                    root: ast.AST = t
                    while isinstance(root, ast.Subscript):
                        root = root.value
                    for later in vs[k + 1:]:
                        for x in ast.walk(later):
                            if isinstance(root, ast.Name) and isinstance(x, ast.Name) and x.id == root.id:
                                safe = False
                            if isinstance(root, ast.Attribute) and isinstance(x, ast.Attribute) and x.attr == root.attr:
                                safe = False
                            if isinstance(x, ast.Call):
                                safe = safe and not isinstance(root, ast.Attribute)  # a call may read the attribute just stored
                if safe:
                    for t, v0 in zip(ts, vs):
                        out.extend(self.block([ast.copy_location(ast.Assign(targets=[t], value=v0, lineno=st.lineno), st)]))
                    self.changed = True
                    i += 1
                    continue
            # ---- N7: nested ifs ----------------------------------------------------------------------------------------------------------
            if isinstance(st, ast.If) and not st.orelse and len(st.body) == 1 and isinstance(st.body[0], ast.If) and not st.body[0].orelse:
                innerif = st.body[0]
                vals = (list(st.test.values) if isinstance(st.test, ast.BoolOp) and isinstance(st.test.op, ast.And) else [st.test]) + \
                       (list(innerif.test.values) if isinstance(innerif.test, ast.BoolOp) and isinstance(innerif.test.op, ast.And) else [innerif.test])
                merged = ast.copy_location(ast.If(test=ast.copy_location(ast.BoolOp(op=ast.And(), values=vals), st.test), body=innerif.body, orelse=[]), st)
                ast.fix_missing_locations(merged)
                stmts[i] = merged
                self.changed = True
                continue
            # ---- N10: `<bin> += [x]` on a list held in the object -> `<bin>.append(x)` / `.extend(...)` -----------------------------------
            if isinstance(st, ast.AugAssign) and isinstance(st.op, ast.Add) and isinstance(st.target, ast.Subscript) and not isinstance(st.target.slice, ast.Slice) \
                    and isinstance(st.value, (ast.List, ast.ListComp)) and not any(isinstance(x, ast.Starred) for x in getattr(st.value, 'elts', [])):
                single = isinstance(st.value, ast.List) and len(st.value.elts) == 1
                call = ast.Call(func=ast.Attribute(value=_load(st.target), attr='append' if single else 'extend', ctx=ast.Load()),
                                args=[st.value.elts[0] if single else st.value], keywords=[])  # type: ignore[union-attr]
                new_st = ast.copy_location(ast.Expr(value=ast.copy_location(call, st)), st)
                ast.fix_missing_locations(new_st)
                out.append(new_st)
                self.changed = True
                i += 1
                continue
            # ---- N1 -------------------------------------------------------------------------------------------------------------------
            a = _aug(st)
            if a is not None:
                out.append(a)
                self.changed = True
                i += 1
                continue
            if self.recv is not None and nxt is not None and isinstance(st, ast.Assign) and len(st.targets) == 1 and isinstance(st.targets[0], ast.Name) \
                    and isinstance(nxt, ast.Assign) and len(nxt.targets) == 1 and isinstance(nxt.targets[0], ast.Attribute) and isinstance(nxt.value, ast.Name) \
                    and nxt.value.id == st.targets[0].id and self._stores(nxt.value.id) == 1 and len(self._loads(nxt.value.id)) == 1:
                a = _aug(ast.copy_location(ast.Assign(targets=[nxt.targets[0]], value=st.value, lineno=st.lineno), nxt))
                if a is not None:
                    out.append(a)
                    self.changed = True
                    i += 2
                    continue
            # ---- recurse into compound statements ---------------------------------------------------------------------------------
            if not isinstance(st, (ast.FunctionDef, ast.AsyncFunctionDef, ast.ClassDef)):
                for fld in ('body', 'orelse', 'finalbody'):
                    b = getattr(st, fld, None)
                    if isinstance(b, list) and b and isinstance(b[0], ast.stmt):
                        setattr(st, fld, self.block(b))
                if isinstance(st, ast.Try):
                    for h in st.handlers:
                        h.body = self.block(h.body)
            out.append(st)
            i += 1
        return out


def _mutated_names(fn: FuncDef) -> Set[str]:
    """Local names whose object may be changed in place (method call on it, item store / delete, augmented assignment) or that are passed on whole."""
    out: Set[str] = set()
    for n in pf.walk_shallow(fn, into_nested_defs=True):
        if isinstance(n, ast.Call) and isinstance(n.func, ast.Attribute) and isinstance(n.func.value, ast.Name) and n.func.attr in (
                'append', 'extend', 'insert', 'pop', 'remove', 'clear', 'sort', 'reverse', 'update', 'add', 'discard', 'setdefault', 'popitem'):
            out.add(n.func.value.id)
        elif isinstance(n, ast.Subscript) and isinstance(n.ctx, (ast.Store, ast.Del)) and isinstance(n.value, ast.Name):
            out.add(n.value.id)
        elif isinstance(n, ast.AugAssign) and isinstance(n.target, ast.Name):
            out.add(n.target.id)
    return out


class _AliasSubst(ast.NodeTransformer):
    def __init__(self, mapping: Dict[str, ast.AST]):
        self.mapping = mapping
        self.n = 0

    def visit_Name(self, node: ast.Name):
        if isinstance(node.ctx, ast.Load) and node.id in self.mapping:
            self.n += 1
            return ast.copy_location(copy.deepcopy(self.mapping[node.id]), node)
        return node


def _bin_aliases(fn: FuncDef, recv: str) -> bool:
    """N3.  `b = self.S[k]` where b has this one definition, is never mutated in place, and every use of b is a slice `b[i:j]`, `len(b)`, or the
    iterable of a loop / comprehension -- uses that only READ the list, so reading `self.S[k]` at the use site is the same provided the bin is
    not re-bound or mutated between the definition and the use.  That proviso is checked syntactically: all uses lie in the same block as the
    definition, before the first statement after the definition that stores to / deletes / mutates `self.S...`; the statement that contains a use
    may itself store to self.S[k] (`self.S[k] = b[n:]`): its right-hand side is evaluated first."""
    changed = False
    mutated = _mutated_names(fn)
    par: Dict[ast.AST, ast.AST] = {}
    for a in ast.walk(fn):
        for c in ast.iter_child_nodes(a):
            par[c] = a

    def blocks(node: ast.AST):
        for fld in ('body', 'orelse', 'finalbody'):
            b = getattr(node, fld, None)
            if isinstance(b, list) and b and isinstance(b[0], ast.stmt):
                yield b
                for st in b:
                    if not isinstance(st, (ast.FunctionDef, ast.AsyncFunctionDef, ast.ClassDef)):
                        yield from blocks(st)
        for h in getattr(node, 'handlers', []) or []:
            yield h.body
            for st in h.body:
                yield from blocks(st)

    def touches_slot(st: ast.AST, slot: str) -> bool:
        """st may re-bind / mutate self.<slot> (or call a method of self, which may)."""
        for n in ast.walk(st):
            if isinstance(n, (ast.Attribute, ast.Subscript)) and isinstance(getattr(n, 'ctx', None), (ast.Store, ast.Del)):
                x: ast.AST = n
                while isinstance(x, ast.Subscript):
                    x = x.value
                if isinstance(x, ast.Attribute) and isinstance(x.value, ast.Name) and x.value.id == recv and x.attr == slot:
                    return True
            if isinstance(n, ast.Call) and isinstance(n.func, ast.Attribute):
                x = n.func.value
                while isinstance(x, ast.Subscript):
                    x = x.value
                if isinstance(x, ast.Attribute) and isinstance(x.value, ast.Name) and x.value.id == recv and x.attr == slot:
                    return True
                if isinstance(n.func.value, ast.Name) and n.func.value.id == recv:
                    return True  # self.helper(...): may do anything to the plan
        return False

    for blk in list(blocks(fn)):
        for i, st in enumerate(blk):
            if not (isinstance(st, ast.Assign) and len(st.targets) == 1 and isinstance(st.targets[0], ast.Name) and isinstance(st.value, ast.Subscript)
                    and not isinstance(st.value.slice, ast.Slice)):
                continue
            base = st.value.value
            if not (isinstance(base, ast.Attribute) and isinstance(base.value, ast.Name) and base.value.id == recv):
                continue
            name, slot = st.targets[0].id, base.attr
            key_names = pf.names_in(st.value.slice)
            stores = [n for n in pf.walk_shallow(fn, into_nested_defs=True) if isinstance(n, ast.Name) and n.id == name and isinstance(n.ctx, (ast.Store, ast.Del))]
            if len(stores) != 1 or name in mutated:
                continue
            loads = [n for n in pf.walk_shallow(fn, into_nested_defs=True) if isinstance(n, ast.Name) and n.id == name and isinstance(n.ctx, ast.Load)]
            if not loads:
                continue

            def read_only_use(n: ast.Name) -> bool:
                p = par.get(n)
                if isinstance(p, ast.Subscript) and p.value is n and isinstance(p.slice, ast.Slice) and isinstance(p.ctx, ast.Load):
                    return True
                if isinstance(p, ast.Call) and pf.dotted(p.func) == 'len' and len(p.args) == 1 and p.args[0] is n:
                    return True
                return False
            if not all(read_only_use(n) for n in loads):
                continue
            # every use in a statement of the same block after the definition, none after the first later statement that touches the slot or the key
            ok = True
            closed = False
            remaining = set(id(n) for n in loads)
            for later in blk[i + 1:]:
                here = [n for n in ast.walk(later) if id(n) in remaining]
                if here and closed:
                    ok = False
                    break
                if here:
                    # uses inside a compound statement that also touches the slot: order inside it is not tracked
                    if not isinstance(later, (ast.Assign, ast.Expr, ast.AugAssign, ast.Return, ast.AnnAssign)) and touches_slot(later, slot):
                        ok = False
                        break
                    # a simple statement evaluates its value before it stores: `self.S[k] = b[n:]` is fine.  A call of a self method in it is fine
                    # only as the outermost expression with the uses among its arguments (arguments are evaluated before the method runs)
                    selfcalls = [c for c in ast.walk(later) if isinstance(c, ast.Call) and isinstance(c.func, ast.Attribute) and isinstance(c.func.value, ast.Name)
                                 and c.func.value.id == recv]
                    if selfcalls:
                        outer = later.value if isinstance(later, (ast.Expr, ast.Assign, ast.Return, ast.AugAssign, ast.AnnAssign)) else None
                        arg_ids = {id(x) for a in (list(outer.args) + [k.value for k in outer.keywords]) for x in ast.walk(a)} if isinstance(outer, ast.Call) else set()
                        if len(selfcalls) != 1 or selfcalls[0] is not outer or not all(id(n) in arg_ids for n in here):
                            ok = False
                            break
                    remaining -= set(id(n) for n in here)
                if touches_slot(later, slot) or any(isinstance(n, ast.Name) and isinstance(n.ctx, (ast.Store, ast.Del)) and n.id in key_names for n in ast.walk(later)):
                    closed = True
            if not ok or remaining:
                continue
            tr = _AliasSubst({name: st.value})
            for j in range(i + 1, len(blk)):
                blk[j] = tr.visit(blk[j])
            if tr.n:
                changed = True
    return changed


def _static_helpers_to_methods(m: pf.Module, cls: ast.ClassDef) -> None:
    """N8 (in place, on the copied class)."""
    name = cls.name
    statics = {f.name: f for f in cls.body if isinstance(f, ast.FunctionDef) and pf.decorator_names(f) == ['staticmethod']}
    if not statics:
        return
    inst = [f for f in cls.body if isinstance(f, (ast.FunctionDef, ast.AsyncFunctionDef)) and f.args.args and f.args.args[0].arg == 'self'
            and not any(d in ('staticmethod', 'classmethod') for d in pf.decorator_names(f))]

    def class_ref(e: ast.AST) -> bool:
        d = pf.dotted(e)
        if d in (name, 'self', 'self.__class__'):
            return True
        return isinstance(e, ast.Call) and pf.dotted(e.func) == 'type' and len(e.args) == 1 and pf.dotted(e.args[0]) == 'self'
    for hname, h in statics.items():
        if any(a.arg == 'self' for a in h.args.posonlyargs + h.args.args + h.args.kwonlyargs) or h.args.posonlyargs:
            continue
        # every reference `<x>.hname` in the module must be the callee of a call inside an instance method of this class, on the class / self
        calls: List[ast.Call] = []
        for f in inst:
            for c in pf.calls_in(f, into_nested_defs=False):
                if isinstance(c.func, ast.Attribute) and c.func.attr == hname and class_ref(c.func.value):
                    calls.append(c)
        callee_ids = {id(c.func) for c in calls}
        others = [n for n in ast.walk(m.tree) if isinstance(n, ast.Attribute) and n.attr == hname and id(n) not in callee_ids]
        # `m.tree` still holds the ORIGINAL class: count the references there instead of in the copy
        orig_refs = [n for n in ast.walk(m.tree) if isinstance(n, ast.Attribute) and n.attr == hname]
        if not calls or len(orig_refs) != len(calls) or any(isinstance(n, ast.Name) and n.id == hname for n in ast.walk(m.tree)):
            continue
        del others
        h.decorator_list = []
        h.args.args.insert(0, ast.arg(arg='self'))
        for c in calls:
            c.func = ast.copy_location(ast.Attribute(value=ast.Name(id='self', ctx=ast.Load()), attr=hname, ctx=ast.Load()), c.func)
        ast.fix_missing_locations(h)


_READING = {'len', 'min', 'max', 'isinstance', 'sorted', 'sum', 'any', 'all', 'bool', 'int', 'str'}


def forward_single_use(fn: FuncDef) -> bool:
    """N9 (meant for a function with helpers inlined: engines/inline.py binds a non-trivial argument to a fresh local in front of the helper's body).
           v = E                                   if T: ...                       (no other statement in between)
           if T: ... else: self.S[k] = v     ->    else: self.S[k] = E
    for every definition of the local v: each is directly followed by a statement that is an `if` whose test only reads (calls of len / min / ...)
    or a simple assignment, in which v is read exactly once as the whole right-hand side of an assignment, and v is read nowhere else.
    Evaluating E inside the branch instead of in front of the test gives the same value: the test changes nothing."""
    changed = False
    recv = fn.args.args[0].arg if fn.args.args else None

    def blocks(node: ast.AST):
        for fld in ('body', 'orelse', 'finalbody'):
            b = getattr(node, fld, None)
            if isinstance(b, list) and b and isinstance(b[0], ast.stmt):
                yield b
                for st in b:
                    if not isinstance(st, (ast.FunctionDef, ast.AsyncFunctionDef, ast.ClassDef)):
                        yield from blocks(st)
        for h in getattr(node, 'handlers', []) or []:
            yield h.body
            for st in h.body:
                yield from blocks(st)
    names = {n.id for n in pf.walk_shallow(fn) if isinstance(n, ast.Name) and isinstance(n.ctx, ast.Store)}
    for name in sorted(names):
        loads = [n for n in pf.walk_shallow(fn, into_nested_defs=True) if isinstance(n, ast.Name) and n.id == name and isinstance(n.ctx, ast.Load)]
        sites = []  # (block, index of the definition)
        ok = True
        n_stores = 0
        for blk in blocks(fn):
            for i, st in enumerate(blk):
                stores_here = [n for n in ([st] if not isinstance(st, (ast.If, ast.For, ast.While, ast.With, ast.Try)) else []) for n in ast.walk(n)
                               if isinstance(n, ast.Name) and n.id == name and isinstance(n.ctx, (ast.Store, ast.Del))]
                if not stores_here:
                    continue
                n_stores += len(stores_here)
                if not (isinstance(st, ast.Assign) and len(st.targets) == 1 and isinstance(st.targets[0], ast.Name) and isinstance(st.value, ast.Subscript)
                        and isinstance(st.value.slice, ast.Slice) and i + 1 < len(blk)):
                    ok = False
                    continue
                sites.append((blk, i))
        all_stores = sum(1 for n in pf.walk_shallow(fn, into_nested_defs=True) if isinstance(n, ast.Name) and n.id == name and isinstance(n.ctx, (ast.Store, ast.Del)))
        if not ok or not sites or all_stores != len(sites) or len(loads) != len(sites):
            continue
        plan = []
        for blk, i in sites:
            nxt = blk[i + 1]
            uses = [n for n in ast.walk(nxt) if isinstance(n, ast.Name) and n.id == name and isinstance(n.ctx, ast.Load)]
            if len(uses) != 1:
                ok = False
                break
            holder = None
            cands = [nxt] if isinstance(nxt, ast.Assign) else ([x for x in ast.walk(nxt) if isinstance(x, ast.Assign)] if isinstance(nxt, ast.If) else [])
            for a in cands:
                if a.value is uses[0]:
                    holder = a
            if holder is None:
                ok = False
                break
            if isinstance(nxt, ast.If):
                # only plain if / else nesting between the test and the use, and tests that only read
                tests = [x.test for x in ast.walk(nxt) if isinstance(x, ast.If)]
                if any(isinstance(x, (ast.For, ast.While, ast.With, ast.Try, ast.FunctionDef)) for x in ast.walk(nxt)):
                    ok = False
                    break
                for t in tests:
                    for c in ast.walk(t):
                        if isinstance(c, ast.Call) and pf.dotted(c.func) not in _READING:
                            ok = False
                        if isinstance(c, (ast.NamedExpr, ast.Await, ast.Yield)):
                            ok = False
                # no statement of the `if` in front of the use may change what E reads: require the holder to be the first statement of its branch
                firsts = {id(x.body[0]) for x in ast.walk(nxt) if isinstance(x, ast.If) and x.body} | {id(x.orelse[0]) for x in ast.walk(nxt) if isinstance(x, ast.If) and x.orelse}
                if id(holder) not in firsts:
                    ok = False
                if not ok:
                    break
            plan.append((blk, i, holder))
        if not ok:
            continue
        for blk, i, holder in plan:
            holder.value = blk[i].value
        for blk, i, _h in sorted(plan, key=lambda t: -t[1]):
            del blk[i]
        changed = changed or bool(plan)
    if changed:
        ast.fix_missing_locations(fn)
    del recv
    return changed


def normalise_class(m: pf.Module, cls_name: str) -> pf.Module:
    """Copy of `m` whose class `cls_name` is in the normal form described in the module docstring (other top-level statements are shared)."""
    top = [st for st in m.tree.body if isinstance(st, ast.ClassDef) and st.name == cls_name]
    if len(top) != 1:
        return m
    cls = copy.deepcopy(top[0])
    _static_helpers_to_methods(m, cls)
    methods = {f.name for f in cls.body if isinstance(f, (ast.FunctionDef, ast.AsyncFunctionDef)) and not f.decorator_list}
    for f in cls.body:
        if isinstance(f, (ast.FunctionDef, ast.AsyncFunctionDef)):
            nm = _Norm(f, methods)
            f.body = nm.block(f.body)
            if f.args.args:
                _bin_aliases(f, f.args.args[0].arg)
            ast.fix_missing_locations(f)
    tree = ast.Module(body=[cls if st is top[0] else st for st in m.tree.body], type_ignores=[])
    return pf.Module(m.rel, m.path, m.src, tree)
