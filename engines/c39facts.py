"""Facts for C39 (job lifecycle protocol: structural necessary conditions of progress and of the single current attempt).

Nothing here imports or runs repository code; everything is decided from parsed source.

  part 1  selections: which classes (state, always_run, cancelled, group-cancelled) of jobs a driver loop's queries MUST select - truth
          tables over the three jobs columns (engines/c0506facts.job_classes, helpers followed) combined with a three-valued evaluation
          of the Python guards on the group-cancelled flag; conjuncts that are not keys / a closed list of environment conditions are
          declined, not guessed.
  part 2  loop registrations: `ensure_future(retry_long_running(name, run_if_changed, EVENT, BODY))`, `ensure_future(periodically_call(n, BODY))`
          and `ensure_future(self.m())` where m awaits one of the periodic runners; resolution of EVENT to an application key, a
          subscription of a Notice, or an event private to the component; which events a function sets on every normal path.
  part 3  a tiny three-valued evaluator for Python tests over enumerated atoms (instance.state, isinstance(vm_state, ..)).
  part 4  SQL: lower bounds of the from-sets of the statements that move a job on; writers of a column.
"""
from __future__ import annotations

import ast
from typing import Any, Callable, Dict, List, Optional, Sequence, Set, Tuple

from . import c0506facts as cf
from . import pyfacts as pf
from . import sqlfront as sf
from . import sqlrules as sr
from .common import AnalysisError
from .sqlast import N, text
from .sqleval import UNKNOWN, may

LIVE = ('Ready', 'Creating', 'Running')
Row = Tuple[str, int, int, int]        # (state, always_run, cancelled, group cancelled)

# conjuncts of a jobs selection that do not speak about the job's own flags: keys bound by the caller and conditions on the
# environment (the instance collection the loop serves, the instance being up).  Anything else is declined.
ENV_CONJUNCTS = {
    '(inst_coll = %s)', '(jobs.inst_coll = %s)', "(job_groups.state = 'running')", "(instances.state = 'active')",
}
ENV_HAVING = {'(live_attempts = 0)'}


# ======================================================================================
# part 1: selections
# ======================================================================================

class Selection:
    """What one selection generator (e.g. `user_cancelled_ready_jobs`) must / may select."""

    def __init__(self, what: str):
        self.what = what
        self.must: Set[Row] = set()
        self.may: Set[Row] = set()
        self.queries: List[Dict[str, Any]] = []
        self.gc_domain: Tuple[int, ...] = (0, 1)
        self.lineno = 0


def _norm_conj(c: N) -> str:
    return text(c).lower().replace('`', '')


def _group_query_ok(F: cf.SchedulerFacts, what: str) -> None:
    g = F.group_inst
    st = g.stmts()[0]
    if getattr(st, 'limit', None) is not None:
        raise AnalysisError(f'{what}: the job-group query has a LIMIT (groups beyond it would never be visited; not modelled)')
    for c in sf.conjuncts(st.where):
        t = _norm_conj(c)
        if t in ("(state = 'running')", "(job_groups.state = 'running')"):
            continue
        if c.kind == 'bin' and c.op == '=' and c.right.kind == 'param' and c.left.kind == 'col' and c.left.parts[-1].lower() == 'user':
            continue
        raise AnalysisError(f'{what}: the job-group query restricts the groups by `{text(c)}`, which is not modelled (only user = %s and state = running are)')


def selection(m: pf.Module, fn: pf.FuncDef, what: str, schema: Dict[str, List[str]]) -> Selection:
    """Selection generator with the canonical shape: one query over running job groups (with the lateral ancestor walk of the
    group's cancellation), job queries per group underneath."""
    F = cf.scheduler_facts(m, fn, what)
    _group_query_ok(F, what)
    S = Selection(what)
    S.lineno = fn.lineno
    gsel = F.group_inst.stmts()[0]
    lat = [(j, j.ref) for j in gsel.frm.joins if j.ref.kind == 'derived']
    jn, ref = lat[0]
    w = sr.ancestor_walk(ref.select)
    canon = w is not None and text(w['batch']).lower() == 'job_groups.batch_id' and text(w['group']).lower() == 'job_groups.job_group_id'
    if not canon:
        raise AnalysisError(f'{what}: the lateral join of the job-group query is not the ancestor walk of the group\'s own (batch_id, job_group_id) [decided under C07-R1/R5]')
    on_true = jn.on is None or text(jn.on).upper() in ('TRUE', '1', '(TRUE)')
    if not on_true:
        raise AnalysisError(f'{what}: lateral join condition `{text(jn.on)}` not recognised')
    flag_src: Optional[str] = None
    if jn.jtype == 'INNER':
        S.gc_domain = (1,)          # only groups with a cancelled self-or-ancestor are iterated
    elif jn.jtype == 'LEFT':
        S.gc_domain = (0, 1)
        if F.flag_col is not None:
            flag_src = f"{F.loop_var}['{F.flag_col}']"
    else:
        raise AnalysisError(f'{what}: {jn.jtype} JOIN LATERAL not recognised')
    lv = F.loop_var
    for inst in F.jobs:
        jc = cf.job_classes(inst, schema)
        if jc['unbound']:
            raise AnalysisError(f'{what}: a parameter compared with always_run / cancelled / state is not a constant at its call site ({jc["unbound"][:2]})')
        st = inst.stmts()[0]
        keyed = jc['key']['batch_id'] == f"{lv}['batch_id']" and jc['key']['job_group_id'] == f"{lv}['job_group_id']"
        if not keyed:
            raise AnalysisError(f'{what}: a job query is not keyed by the (batch_id, job_group_id) of the loop\'s group [decided under C07-R5 / C05-R4]')
        rel = set(x.lower().replace('`', '') for x in jc['conj'])
        extra = []
        for c in sf.conjuncts(st.where):
            t = _norm_conj(c)
            if t in rel or t in ENV_CONJUNCTS:
                continue
            if c.kind == 'bin' and c.op == '=' and c.right.kind == 'param' and c.left.kind == 'col' and c.left.parts[-1].lower() in ('batch_id', 'job_group_id'):
                continue
            extra.append(text(c))
        if getattr(st, 'having', None) is not None:
            extra += [text(c) for c in sf.conjuncts(st.having) if _norm_conj(c) not in ENV_HAVING]
        for j in st.frm.joins:
            if j.jtype not in ('LEFT',) and not (j.ref.kind == 'table' and j.ref.name.lower() == 'attempts'):
                extra.append(f'{j.jtype} JOIN {getattr(j.ref, "name", "<derived>")}')
        if extra:
            raise AnalysisError(f'{what}: a job query is further restricted by {extra}; whether every job of the class is still selected is not decided')
        runs_must = {gc for gc in S.gc_domain if all(cf.guard3(t, pol, fn, flag_src, bool(gc)) is True for t, pol in inst.guards)}
        runs_may = {gc for gc in S.gc_domain if all(cf.guard3(t, pol, fn, flag_src, bool(gc)) is not False for t, pol in inst.guards)}
        S.must |= {(s, a, c, gc) for a, c, s in jc['must'] for gc in runs_must}
        S.may |= {(s, a, c, gc) for a, c, s in jc['may'] for gc in runs_may}
        S.queries.append({'conj': jc['conj'], 'guards': [("" if p else "not ") + pf.nsrc(t) for t, p in inst.guards], 'runs_must': sorted(runs_must), 'line': inst.lineno})
    return S


def flat_selection(m: pf.Module, fn: pf.FuncDef, what: str, schema: Dict[str, List[str]]) -> Selection:
    """A loop body that selects its jobs with ONE query joining job_groups and jobs (no per-group loop, no cancellation lookup)."""
    insts = [q for q in cf.collect_queries(m, fn) if q.stmts() and q.stmts()[0].kind == 'select']
    for q in insts:
        if q.problem:
            raise AnalysisError(f'{what}: query at line {q.emb.lineno}: {q.problem}')
    insts = [q for q in insts if any(t.lower() == 'jobs' for t in sf.table_names(q.stmts()[0].frm))]
    if len(insts) != 1:
        raise AnalysisError(f'{what}: expected exactly one jobs selection, found {len(insts)}')
    inst = insts[0]
    st = inst.stmts()[0]
    if any(t.lower() == 'job_groups_cancelled' for s in st.walk() if s.kind == 'select' and s.frm is not None for t in sf.table_names(s.frm)):
        raise AnalysisError(f'{what}: the selection consults job_groups_cancelled; its dependence on the group flag is not modelled for a flat query')
    jc = cf.job_classes(inst, schema)
    if jc['unbound']:
        raise AnalysisError(f'{what}: a parameter compared with always_run / cancelled / state is not a constant ({jc["unbound"][:2]})')
    rel = set(x.lower().replace('`', '') for x in jc['conj'])
    extra = [text(c) for c in sf.conjuncts(st.where) if _norm_conj(c) not in rel and _norm_conj(c) not in ENV_CONJUNCTS]
    if getattr(st, 'having', None) is not None:
        extra += [text(c) for c in sf.conjuncts(st.having)]
    if extra:
        raise AnalysisError(f'{what}: the selection is further restricted by {extra}; not decided')
    if inst.guards:
        raise AnalysisError(f'{what}: the selection runs under Python guards {[pf.nsrc(t) for t, _ in inst.guards]}; not modelled')
    S = Selection(what)
    S.lineno = inst.lineno
    S.must = {(s, a, c, gc) for a, c, s in jc['must'] for gc in (0, 1)}
    S.may = {(s, a, c, gc) for a, c, s in jc['may'] for gc in (0, 1)}
    S.queries.append({'conj': jc['conj'], 'guards': [], 'runs_must': [0, 1], 'line': inst.lineno})
    return S


def record_loops(m: pf.Module, body_fn: pf.FuncDef, gen_name: str) -> List[ast.AST]:
    """The `async for record in <gen_name>(..)` loops of a loop body."""
    out = []
    for n in pf.walk_shallow(body_fn):
        if isinstance(n, (ast.For, ast.AsyncFor)) and any(isinstance(c, ast.Call) and (pf.dotted(c.func) or '').split('.')[-1] == gen_name for c in ast.walk(n.iter)):
            out.append(n)
    return out


def dispatched_calls(loop: ast.AST) -> List[ast.Call]:
    """Calls made for one record of a selection loop: calls in the loop body itself plus calls inside closures that are DEFINED in
    the loop body and referenced there (awaited directly or handed to a worker pool)."""
    body_nodes: List[ast.AST] = []
    defs: Dict[str, ast.AST] = {}
    stack: List[ast.AST] = list(reversed(loop.body))       # type: ignore[attr-defined]
    while stack:
        n = stack.pop()
        if isinstance(n, (ast.FunctionDef, ast.AsyncFunctionDef)):
            defs[n.name] = n
            continue
        if isinstance(n, (ast.ClassDef, ast.Lambda)):
            continue
        body_nodes.append(n)
        stack.extend(reversed(list(ast.iter_child_nodes(n))))
    used = {n.id for n in body_nodes if isinstance(n, ast.Name) and isinstance(n.ctx, ast.Load) and n.id in defs}
    calls = [n for n in body_nodes if isinstance(n, ast.Call)]
    for name in used:
        calls += [c for c in ast.walk(defs[name]) if isinstance(c, ast.Call)]
    return calls


def positional_index(fn: pf.FuncDef, param: str) -> int:
    names = [a.arg for a in fn.args.args]
    if param not in names:
        raise AnalysisError(f'{fn.name}: parameter {param} not found')
    return names.index(param)


def call_arg(call: ast.Call, fn: pf.FuncDef, param: str) -> Optional[ast.expr]:
    i = positional_index(fn, param)
    if i < len(call.args) and not any(isinstance(a, ast.Starred) for a in call.args[:i + 1]):
        return call.args[i]
    for k in call.keywords:
        if k.arg == param:
            return k.value
    return None


# ======================================================================================
# part 2: loop registrations and events
# ======================================================================================

class Registration:
    def __init__(self, m: pf.Module, holder: pf.FuncDef, node: ast.Call, runner: str, body: ast.expr, event: Optional[ast.expr], args: List[ast.expr], via: str = ''):
        self.m = m
        self.holder = holder
        self.node = node            # the ensure_future(..) call
        self.runner = runner        # 'event' | 'periodic'
        self.body = body            # expression naming the loop body
        self.event = event
        self.args = args
        self.via = via

    @property
    def body_name(self) -> str:
        return (pf.dotted(self.body) or pf.nsrc(self.body)).split('.')[-1]


PERIODIC = ('periodically_call', 'periodically_call_with_dynamic_sleep')


def _runner_call(c: ast.AST) -> Optional[Tuple[str, ast.expr, Optional[ast.expr], List[ast.expr]]]:
    """(kind, body, event, extra args) for retry_long_running(name, run_if_changed, EVENT, BODY, *a) / periodically_call(p, BODY, *a)."""
    if isinstance(c, ast.Await):
        c = c.value
    if not isinstance(c, ast.Call):
        return None
    name = (pf.dotted(c.func) or '').split('.')[-1]
    if name == 'retry_long_running' and len(c.args) >= 4 and (pf.dotted(c.args[1]) or '').split('.')[-1] == 'run_if_changed':
        return 'event', c.args[3], c.args[2], list(c.args[4:])
    if name == 'run_if_changed' and len(c.args) >= 2:
        return 'event-unprotected', c.args[1], c.args[0], list(c.args[2:])
    if name in PERIODIC and len(c.args) >= 2:
        return 'periodic', c.args[1], None, list(c.args[2:])
    return None


def registrations(m: pf.Module) -> List[Registration]:
    """Every `<x>.ensure_future(<runner call>)` of the module; `ensure_future(self.m())` is followed into method m when m's body
    is a single awaited runner call."""
    out: List[Registration] = []
    for q, fn in m.functions():
        for c in pf.calls_in(fn):
            if not (isinstance(c.func, ast.Attribute) and c.func.attr == 'ensure_future' and len(c.args) == 1):
                continue
            a = c.args[0]
            r = _runner_call(a)
            if r is not None:
                out.append(Registration(m, fn, c, r[0], r[1], r[2], r[3]))
                continue
            if isinstance(a, ast.Call) and isinstance(a.func, ast.Attribute) and not a.args and not a.keywords:
                # ensure_future(obj.method()): a wrapper coroutine
                cls = cf.enclosing_class(m, fn)
                target = None
                if cls is not None:
                    for d in cls.body:
                        if isinstance(d, (ast.FunctionDef, ast.AsyncFunctionDef)) and d.name == a.func.attr:
                            target = d
                if target is not None:
                    stmts = [s for s in target.body if not (isinstance(s, ast.Expr) and isinstance(s.value, ast.Constant))]
                    if len(stmts) == 1 and isinstance(stmts[0], ast.Expr):
                        r = _runner_call(stmts[0].value)
                        if r is not None:
                            out.append(Registration(m, fn, c, r[0], r[1], r[2], r[3], via=target.name))
    return out


def on_every_normal_path(fn: pf.FuncDef, node: ast.AST) -> Optional[str]:
    """None when every normal (non-exceptional) path entry -> exit of fn passes the statement containing `node`;
    otherwise a description of an escaping path."""
    g = pf.cfg(fn)
    goals = g.node_of(node)
    if not goals:
        raise AnalysisError(f'{fn.name}: statement not found in the CFG')
    p = g.path_avoiding(g.entry, lambda n: n is g.exit, lambda n: any(n is x for x in goals), edge_ok=lambda a, b, lab: lab != 'exc')
    if p is None:
        return None
    return ' -> '.join(x.text()[:40] for x in p[1:-1][-3:]) or 'straight to the exit'


EventKey = Tuple[str, ...]      # ('app', key) | ('notice', key) | ('local', Class, attr)


def _app_key(e: ast.AST) -> Optional[str]:
    if isinstance(e, ast.Subscript) and (pf.dotted(e.value) or '').split('.')[-1] == 'app':
        return pf.const_str(e.slice)
    return None


def class_attr_value(m: pf.Module, cls: ast.ClassDef, attr: str) -> Tuple[pf.FuncDef, ast.expr]:
    init = next((d for d in cls.body if isinstance(d, ast.FunctionDef) and d.name == '__init__'), None)
    if init is None:
        raise AnalysisError(f'{m.rel}::{cls.name}: no __init__')
    vals = []
    for st in pf.walk_shallow(init):
        tgt = None
        if isinstance(st, ast.Assign) and len(st.targets) == 1:
            tgt, val = st.targets[0], st.value
        elif isinstance(st, ast.AnnAssign) and st.value is not None:
            tgt, val = st.target, st.value
        if tgt is not None and isinstance(tgt, ast.Attribute) and isinstance(tgt.value, ast.Name) and tgt.value.id == 'self' and tgt.attr == attr:
            vals.append(val)
    if len(vals) != 1:
        raise AnalysisError(f'{m.rel}::{cls.name}.__init__: self.{attr} is assigned {len(vals)} times')
    return init, vals[0]


def resolve_event(m: pf.Module, cls: ast.ClassDef, attr: str, depth: int = 0) -> EventKey:
    """What the event stored in self.<attr> of class cls is."""
    init, v = class_attr_value(m, cls, attr)
    v = pf.expand_locals(init, v)
    k = _app_key(v)
    if k is not None:
        return ('app', k)
    if isinstance(v, ast.Call) and isinstance(v.func, ast.Attribute) and v.func.attr == 'subscribe' and not v.args:
        src = pf.expand_locals(init, v.func.value)
        k = _app_key(src)
        if k is not None:
            return ('notice', k)
    if isinstance(v, ast.Call) and (pf.dotted(v.func) or '').split('.')[-1] == 'Event' and not v.args:
        return ('local', cls.name, attr)
    if isinstance(v, ast.Attribute) and isinstance(v.value, ast.Name) and depth < 2:
        # another component's event: `pool.scheduler_state_changed` with parameter `pool: Pool`
        ann = next((a.annotation for a in init.args.args if a.arg == v.value.id), None)
        cname = pf.nsrc(ann).strip("'\"") if ann is not None else None
        other = next((c for c in m.classes() if c.name == cname), None)
        if other is not None:
            return resolve_event(m, other, v.attr, depth + 1)
    raise AnalysisError(f'{m.rel}::{cls.name}.{attr}: event `{pf.nsrc(v)}` not resolved to an application key, a Notice subscription or a private Event')


def events_set_by(m: pf.Module, fn: pf.FuncDef, depth: int = 0) -> Set[EventKey]:
    """Events set on EVERY normal path of fn (app[k].set(), app[k].notify(), self.a.set(); one level of module-level helpers)."""
    out: Set[EventKey] = set()
    cls = cf.enclosing_class(m, fn)
    for c in pf.calls_in(fn):
        key: Optional[EventKey] = None
        if isinstance(c.func, ast.Attribute) and c.func.attr in ('set', 'notify') and not c.args:
            k = _app_key(pf.expand_locals(fn, c.func.value))
            if k is not None:
                key = ('notice' if c.func.attr == 'notify' else 'app', k)
            elif c.func.attr == 'set' and isinstance(c.func.value, ast.Attribute) and isinstance(c.func.value.value, ast.Name) and c.func.value.value.id == 'self' and cls is not None:
                key = ('local', cls.name, c.func.value.attr)
            if key is not None and on_every_normal_path(fn, c) is None:
                out.add(key)
        elif isinstance(c.func, ast.Name) and depth < 1:
            d = next((f for f in m.tree.body if isinstance(f, (ast.FunctionDef, ast.AsyncFunctionDef)) and f.name == c.func.id), None)
            if d is not None and on_every_normal_path(fn, c) is None:
                out |= events_set_by(m, d, depth + 1)
    return out


# ======================================================================================
# part 3: three-valued evaluation of Python tests over enumerated atoms
# ======================================================================================

def py3(test: ast.expr, atom: Callable[[ast.expr], Optional[bool]]) -> Optional[bool]:
    """True / False / None (unknown).  `atom(e)` decides comparisons, isinstance calls, names ..; boolean structure is handled here."""
    if isinstance(test, ast.BoolOp):
        vs = [py3(v, atom) for v in test.values]
        if isinstance(test.op, ast.And):
            if any(v is False for v in vs):
                return False
            return True if all(v is True for v in vs) else None
        if any(v is True for v in vs):
            return True
        return False if all(v is False for v in vs) else None
    if isinstance(test, ast.UnaryOp) and isinstance(test.op, ast.Not):
        v = py3(test.operand, atom)
        return None if v is None else (not v)
    if isinstance(test, ast.Constant):
        return bool(test.value)
    return atom(test)


def state_atom(subject_srcs: Sequence[str], value: str) -> Callable[[ast.expr], Optional[bool]]:
    """Atom evaluator for `<subject> == 'x'`, `!=`, `in (..)`, `not in (..)` where <subject> is one of the given normalised sources."""
    def atom(e: ast.expr) -> Optional[bool]:
        if isinstance(e, ast.Compare) and len(e.ops) == 1 and pf.nsrc(e.left) in subject_srcs:
            op, rhs = e.ops[0], e.comparators[0]
            if isinstance(op, (ast.Eq, ast.NotEq)) and pf.const_str(rhs) is not None:
                r = pf.const_str(rhs) == value
                return r if isinstance(op, ast.Eq) else (not r)
            if isinstance(op, (ast.In, ast.NotIn)) and isinstance(rhs, (ast.Tuple, ast.List, ast.Set)) and all(pf.const_str(x) is not None for x in rhs.elts):
                r = value in [pf.const_str(x) for x in rhs.elts]
                return r if isinstance(op, ast.In) else (not r)
        return None
    return atom


# ======================================================================================
# part 4: SQL
# ======================================================================================

def into_vars(routine: N, pred: Callable[[N, N], bool]) -> Dict[str, N]:
    """variables v of `SELECT .. c .. INTO .. v ..` for which pred(column expression, select statement) holds."""
    out: Dict[str, N] = {}
    for st in sf.all_statements(routine.body):
        if st.kind == 'select' and st.into:
            for (c, _), v in zip(st.cols, st.into):
                if sr.is_var(v) and pred(c, st):
                    out[v.parts[0].lower()] = st
    return out


def job_row_vars(routine: N, col: str) -> Dict[str, N]:
    """variables bound to jobs.<col> of the job (in_batch_id, in_job_id)."""
    def pred(c: N, st: N) -> bool:
        return c.kind == 'col' and c.parts[-1].lower() == col and st.frm is not None and [t.lower() for t in sf.table_names(st.frm)] == ['jobs'] \
            and sr.has_eq(st.where, 'batch_id', 'in_batch_id') and sr.has_eq(st.where, 'job_id', 'in_job_id')
    return into_vars(routine, pred)


def cancel_flag_vars(routine: N) -> Dict[str, N]:
    def pred(c: N, st: N) -> bool:
        return c.kind == 'func' and c.name == 'IS_JOB_CANCELLED' and [text(x).lower() for x in c.args] == ['in_batch_id', 'in_job_id']
    return into_vars(routine, pred)


def instance_state_vars(routine: N) -> Dict[str, N]:
    def pred(c: N, st: N) -> bool:
        return c.kind == 'col' and c.parts[-1].lower() == 'state' and st.frm is not None and [t.lower() for t in sf.table_names(st.frm)] == ['instances'] \
            and sr.has_eq(st.where, 'name', 'in_instance_name')
    return into_vars(routine, pred)


def jobs_set(st: N, col: str) -> Optional[N]:
    """Expression assigned to jobs.<col> by an UPDATE, or None."""
    if st.kind != 'update':
        return None
    tabs = [t for t in sf.from_tables(st.frm) if t.kind == 'table']
    if not tabs:
        return None
    alias = {(t.alias or t.name).lower(): t.name.lower() for t in tabs}
    for c, v in st.sets:
        if c.kind != 'col' or c.parts[-1].lower() != col:
            continue
        if len(c.parts) > 1:
            if alias.get(c.parts[-2].lower()) == 'jobs':
                return v
        elif tabs[0].name.lower() == 'jobs':
            return v
    return None


def guard_values(guard: Sequence[Tuple[N, bool]], known: Callable[[N], Any]) -> Set[bool]:
    """Can the path condition hold / fail under the partial valuation?  {True} = must hold, {False} = cannot, {True, False} = depends on unknown atoms."""
    out = {True}
    res: Set[bool] = set()
    can_all = True
    must_all = True
    for c, pol in guard:
        mv = may(c, known)
        if pol not in mv:
            can_all = False
        if mv != {pol}:
            must_all = False
    if can_all:
        res.add(True)
    if not must_all:
        res.add(False)
    return res or out


def unknown_atoms(guard: Sequence[Tuple[N, bool]], names: Set[str]) -> List[str]:
    out = []
    for c, _ in guard:
        for n in sf.cols_in(c):
            t = text(n).lower()
            if t not in names and t not in out:
                out.append(t)
    return out
