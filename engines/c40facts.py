"""Facts about the *waiter entry* of a semaphore (serves C40): what is put into the waiter container, which component carries
which role, and -- decisive for `container.remove(entry)` on the cancellation path -- whether `==` between the entries of two
different acquire calls can hold.

An entry is either a tuple of locals or an instance of a module-local record class (dataclass / NamedTuple / plain class).
Equality is derived from the class definition (dataclass `eq=` / `field(compare=False)`, NamedTuple = tuple equality, plain class
without `__eq__` = identity); it is a property of the source, nothing is executed.
"""
from __future__ import annotations

import ast
from typing import Dict, List, Optional, Tuple

from . import pyfacts as pf
from .common import AnalysisError

# classes whose instances compare by identity (no __eq__): a fresh instance per acquire call makes the entry unique
IDENTITY_CLASSES = {'asyncio.Event', 'asyncio.locks.Event', 'asyncio.Future', 'asyncio.futures.Future', 'asyncio.Condition',
                    'asyncio.Lock', 'threading.Event', 'object'}


def origin(m: pf.Module, e: ast.AST) -> Optional[str]:
    """Dotted origin of a name expression through the module's imports (`Event` -> asyncio.Event)."""
    d = pf.dotted(e)
    if d is None:
        return None
    head, _, rest = d.partition('.')
    imp = m.imports()
    if head in imp:
        return imp[head] + ('.' + rest if rest else '')
    return d


def local_class(m: pf.Module, e: ast.AST) -> Optional[ast.ClassDef]:
    if isinstance(e, ast.Name):
        for st in m.tree.body:
            if isinstance(st, ast.ClassDef) and st.name == e.id:
                return st
    return None


class Field:
    def __init__(self, name: str, init: bool = True, compare: bool = True, value: Optional[ast.expr] = None, param: Optional[str] = None):
        self.name = name
        self.init = init          # settable through the constructor
        self.compare = compare    # takes part in the generated ==
        self.value = value        # default / fixed value expression (class context); a default_factory F is stored as the call F()
        self.param = param        # constructor parameter feeding the field (plain classes)


class Rec:
    def __init__(self, cls: ast.ClassDef, kind: str):
        self.cls = cls
        self.kind = kind                    # dataclass | namedtuple | plain
        self.fields: List[Field] = []
        self.eq = 'fields'                  # fields | identity | custom
        self.eq_src = ''
        self.params: List[Tuple[str, Optional[ast.expr]]] = []   # constructor parameters (name, default) after self

    def field(self, name: str) -> Optional[Field]:
        for f in self.fields:
            if f.name == name:
                return f
        return None


def _kw(call: ast.Call, name: str) -> Optional[ast.expr]:
    for k in call.keywords:
        if k.arg == name:
            return k.value
    return None


def _const_bool(e: Optional[ast.expr], default: bool, what: str) -> bool:
    if e is None:
        return default
    if isinstance(e, ast.Constant) and isinstance(e.value, bool):
        return e.value
    raise AnalysisError(f'{what}: `{pf.nsrc(e)}` is not a literal True/False')


def record_class(m: pf.Module, cls: ast.ClassDef) -> Rec:
    """Parse a module-local class used as waiter entry.  Declines on anything that could change construction or equality in a way not modelled
    (other bases, metaclass, __post_init__, __new__, class decorators other than dataclass / total_ordering)."""
    where = f'{m.rel}::{cls.name}'
    if cls.keywords:
        raise AnalysisError(f'{where}: class keywords (metaclass) not analysed')
    dc: Optional[ast.AST] = None
    for d in cls.decorator_list:
        o = origin(m, d.func if isinstance(d, ast.Call) else d)
        if o in ('dataclasses.dataclass',):
            dc = d
        elif o in ('functools.total_ordering',):
            pass
        else:
            raise AnalysisError(f'{where}: class decorator `{pf.nsrc(d)}` not analysed')
    bases = [origin(m, b) for b in cls.bases]
    methods = {st.name: st for st in cls.body if isinstance(st, (ast.FunctionDef, ast.AsyncFunctionDef))}
    for bad in ('__post_init__', '__new__', '__setattr__', '__getattr__', '__getattribute__', '__hash__'):
        if bad in methods:
            raise AnalysisError(f'{where}: defines {bad} (not analysed)')
    ann = [st for st in cls.body if isinstance(st, ast.AnnAssign) and isinstance(st.target, ast.Name)
           and 'ClassVar' not in pf.nsrc(st.annotation)]
    if dc is not None:
        if [b for b in bases if b != 'object']:
            raise AnalysisError(f'{where}: dataclass with base classes {bases} not analysed')
        r = Rec(cls, 'dataclass')
        eq = _const_bool(_kw(dc, 'eq') if isinstance(dc, ast.Call) else None, True, f'{where}: dataclass eq=')
        if isinstance(dc, ast.Call) and dc.args:
            raise AnalysisError(f'{where}: positional dataclass arguments')
        for st in ann:
            f = Field(st.target.id)  # type: ignore[union-attr]
            v = st.value
            if isinstance(v, ast.Call) and origin(m, v.func) == 'dataclasses.field':
                if v.args:
                    raise AnalysisError(f'{where}.{f.name}: positional field() arguments')
                f.compare = _const_bool(_kw(v, 'compare'), True, f'{where}.{f.name}: compare=')
                f.init = _const_bool(_kw(v, 'init'), True, f'{where}.{f.name}: init=')
                fac = _kw(v, 'default_factory')
                f.value = _kw(v, 'default')
                if fac is not None:
                    if isinstance(fac, ast.Lambda) and not fac.args.args:
                        f.value = fac.body
                    else:
                        f.value = ast.Call(func=fac, args=[], keywords=[])
            else:
                f.value = v
            r.fields.append(f)
        r.params = [(f.name, f.value) for f in r.fields if f.init]
        if '__init__' in methods:
            raise AnalysisError(f'{where}: dataclass with its own __init__ not analysed')
        if '__eq__' in methods:
            r.eq, r.eq_src = 'custom', 'user-defined __eq__ (kept by @dataclass)'
        elif not eq:
            r.eq, r.eq_src = 'identity', '@dataclass(eq=False): object identity'
        else:
            cmpf = [f.name for f in r.fields if f.compare]
            r.eq, r.eq_src = 'fields', f'@dataclass-generated __eq__ compares ({", ".join(cmpf)}{"," if len(cmpf) == 1 else ""})'
        return r
    if any(b in ('typing.NamedTuple', 'NamedTuple') for b in bases):
        if len(bases) != 1:
            raise AnalysisError(f'{where}: NamedTuple with further bases')
        r = Rec(cls, 'namedtuple')
        for st in ann:
            r.fields.append(Field(st.target.id, value=st.value))  # type: ignore[union-attr]
        r.params = [(f.name, f.value) for f in r.fields]
        if '__eq__' in methods:
            r.eq, r.eq_src = 'custom', 'user-defined __eq__'
        else:
            r.eq, r.eq_src = 'fields', f'tuple equality over ({", ".join(f.name for f in r.fields)})'
        return r
    if [b for b in bases if b != 'object']:
        raise AnalysisError(f'{where}: base classes {bases} not analysed')
    r = Rec(cls, 'plain')
    init = methods.get('__init__')
    if not isinstance(init, ast.FunctionDef):
        raise AnalysisError(f'{where}: no __init__')
    a = init.args
    if a.vararg or a.kwarg or a.kwonlyargs or a.posonlyargs:
        raise AnalysisError(f'{where}.__init__: parameter kinds not analysed')
    names = [x.arg for x in a.args][1:]
    defaults: List[Optional[ast.expr]] = [None] * (len(names) - len(a.defaults)) + list(a.defaults) if len(a.defaults) <= len(names) else []
    r.params = list(zip(names, defaults))
    selfname = a.args[0].arg
    for st in pf.walk_shallow(init):
        tgt = None
        if isinstance(st, ast.Assign) and len(st.targets) == 1:
            tgt, val = st.targets[0], st.value
        elif isinstance(st, ast.AnnAssign) and st.value is not None:
            tgt, val = st.target, st.value
        if isinstance(tgt, ast.Attribute) and isinstance(tgt.value, ast.Name) and tgt.value.id == selfname:
            if r.field(tgt.attr) is not None:
                raise AnalysisError(f'{where}.__init__: {tgt.attr} assigned twice')
            if isinstance(val, ast.Name) and val.id in names:
                r.fields.append(Field(tgt.attr, param=val.id))
            else:
                r.fields.append(Field(tgt.attr, init=False, value=val))
    for n in ast.walk(cls):  # fields re-assigned outside __init__ are not modelled
        if isinstance(n, ast.Attribute) and isinstance(n.ctx, (ast.Store, ast.Del)) and m.enclosing_func(n) is not init:
            raise AnalysisError(f'{where}: attribute {n.attr} written outside __init__')
    if '__eq__' in methods:
        used = {n.attr for n in ast.walk(methods['__eq__']) if isinstance(n, ast.Attribute)}
        for f in r.fields:
            f.compare = f.name in used
        r.eq, r.eq_src = 'custom', f'user-defined __eq__ reading ({", ".join(sorted(f.name for f in r.fields if f.compare))})'
    else:
        r.eq, r.eq_src = 'identity', 'no __eq__: object identity'
    return r


def bind_call(rec: Rec, call: ast.Call, where: str) -> Dict[str, Tuple[str, Optional[ast.expr]]]:
    """field name -> ('arg', expression at the call site) | ('class', default/fixed expression in class context) | ('missing', None)."""
    if any(isinstance(x, ast.Starred) for x in call.args) or any(k.arg is None for k in call.keywords):
        raise AnalysisError(f'{where}: star-arguments in `{pf.nsrc(call)}`')
    pnames = [p for p, _ in rec.params]
    if len(call.args) > len(pnames):
        raise AnalysisError(f'{where}: too many arguments in `{pf.nsrc(call)}`')
    got: Dict[str, ast.expr] = dict(zip(pnames, call.args))
    for k in call.keywords:
        if k.arg not in pnames or k.arg in got:
            raise AnalysisError(f'{where}: keyword `{k.arg}` in `{pf.nsrc(call)}` not bound')
        got[k.arg] = k.value  # type: ignore[index]
    pdef = dict(rec.params)
    out: Dict[str, Tuple[str, Optional[ast.expr]]] = {}
    for f in rec.fields:
        p = f.param or (f.name if f.init and rec.kind != 'plain' else None)
        if p is not None and p in got:
            out[f.name] = ('arg', got[p])
        elif p is not None and pdef.get(p) is not None:
            out[f.name] = ('class', pdef[p])
        elif p is None and f.value is not None:
            out[f.name] = ('class', f.value)
        else:
            out[f.name] = ('missing', None)
    return out


class Entry:
    """The waiter entry as built by acquire."""

    def __init__(self):
        self.form = 'tuple'                       # tuple | record
        self.rec: Optional[Rec] = None
        self.var: Optional[str] = None            # local naming the entry in acquire (None: built in the call)
        self.by_attr: Dict[str, str] = {}         # field -> weight | event | other
        self.kinds: Dict[str, str] = {}           # field / index -> identity | value | unknown  (see eq_kind)
        self.by_index: Optional[List[str]] = None  # positional roles (tuple, NamedTuple)
        self.event_src = ''                        # how acquire spells the event it waits on
        self.expr: Optional[ast.AST] = None        # the expression registered (resolved)
        self.unique: Optional[bool] = None         # == between entries of two different acquire calls is impossible
        self.eq_why = ''

    def layout(self) -> str:
        if self.by_index is not None and self.form == 'tuple':
            return '(' + ', '.join(self.by_index) + ')'
        return '{' + ', '.join(f'{k}: {v}' for k, v in self.by_attr.items()) + '}'


def eq_kind(m: pf.Module, e: Optional[ast.AST], value_names: List[str]) -> str:
    """How a component value (already resolved to its defining expression) behaves under ==:
    'identity'  a fresh object of a class that compares by identity (unique per acquire call),
    'value'     a number: one of `value_names`, a constant, arithmetic over those,
    'unknown'   anything else."""
    if isinstance(e, ast.Call) and not any(isinstance(x, ast.Starred) for x in e.args):
        o = origin(m, e.func)
        if o in IDENTITY_CLASSES:
            return 'identity'
        lc = local_class(m, e.func)
        if lc is not None:
            try:
                return 'identity' if record_class(m, lc).eq == 'identity' else 'unknown'
            except AnalysisError:
                return 'unknown'
        if o in ('int', 'float', 'abs', 'min', 'max', 'round') and all(eq_kind(m, a, value_names) == 'value' for a in e.args) and not e.keywords:
            return 'value'
        return 'unknown'
    if isinstance(e, ast.Name):
        return 'value' if e.id in value_names else 'unknown'
    if isinstance(e, ast.Constant) and isinstance(e.value, (int, float, str, bytes, type(None))):
        return 'value'
    if isinstance(e, ast.UnaryOp):
        return eq_kind(m, e.operand, value_names)
    if isinstance(e, ast.BinOp):
        ks = {eq_kind(m, e.left, value_names), eq_kind(m, e.right, value_names)}
        return 'value' if ks == {'value'} else 'unknown'
    return 'unknown'
