"""Which values can a tuple slot of a `<list>.append((...))` row take, under which conditions?  (C41 R6: initial state of a submitted job.)

Part 1 - `SymFlow`: a forward, flow-sensitive pass over a statement list (the body of the per-job loop) that keeps, for every simple local, the
EXPRESSION it currently holds (names in it are versioned, `x#3` = the third opaque value x was given; branches are merged into `a if test else b`;
module-level helpers whose body is a chain of `if .. return ..` / `return <expr>` are substituted at expression level), and the path condition
(tests of the enclosing branches, negated tests of the branches that raise / continue / return).  Nothing is evaluated: the result is a syntax tree.

Part 2 - `decide_slot`: decides by EXHAUSTIVE ENUMERATION OF A FINITE ABSTRACT DOMAIN whether the slot can hold anything but the wanted literal while
the update id is not 1:
    * the update id ranges over the order classes cut out by the integer literals it is compared with ({1}, {2}, (2, k), {k}, (k, oo) ...);
    * every other condition is an atom: `len(X) == 0`, `not X`, `X == []` ... are normalised to one atom "X is non-empty"; atoms that contain a call the
      analysis knows nothing about are UNKNOWN (a violation is only reported when it does not depend on them), the rest are free booleans (a violation is
      only reported when no two of them talk about the same variable - they could be correlated).
"""
from __future__ import annotations

import ast
import copy
import itertools
from typing import Dict, FrozenSet, List, Optional, Sequence, Set, Tuple

from . import pyfacts as pf
from .common import AnalysisError

PURE_FUNCS = {'len', 'bool', 'int', 'str', 'list', 'tuple', 'sorted', 'set', 'frozenset', 'min', 'max', 'abs', 'sum', 'isinstance', 'any', 'all', 'float', 'reversed'}
PURE_METHODS = {'get', 'keys', 'values', 'items', 'startswith', 'endswith', 'lower', 'upper', 'strip', 'count', 'index', 'copy', 'issubset', 'issuperset'}
SIZE_LIMIT = 120


def _size(e: ast.AST) -> int:
    return sum(1 for _ in ast.walk(e))


def _dump(e: ast.AST) -> str:
    return ast.dump(e)


def show(e: ast.AST) -> str:
    """source text with the version tags removed."""
    import re
    return re.sub(r'#\d+', '', pf.nsrc(e))


def is_pure(e: ast.AST, helpers: Optional[Dict[str, pf.FuncDef]] = None) -> bool:
    for n in ast.walk(e):
        if isinstance(n, (ast.Await, ast.Yield, ast.YieldFrom, ast.NamedExpr)):
            return False
        if isinstance(n, ast.Call):
            f = n.func
            if isinstance(f, ast.Name) and f.id in PURE_FUNCS:
                continue
            if isinstance(f, ast.Attribute) and f.attr in PURE_METHODS:
                continue
            return False
    return True


def slice_module(m: pf.Module, target: str) -> pf.Module:
    """A module that holds only the module-level function `target` and the module-level functions it (transitively) names: what engines/inline.py needs,
    without copying the whole file."""
    funcs = {f.name: f for f in m.tree.body if isinstance(f, (ast.FunctionDef, ast.AsyncFunctionDef))}
    if target not in funcs:
        raise AnalysisError(f'anchor vanished: {m.rel}::{target}')
    keep = [target]
    i = 0
    while i < len(keep):
        for n in ast.walk(funcs[keep[i]]):
            if isinstance(n, ast.Name) and n.id in funcs and n.id not in keep:
                keep.append(n.id)
        i += 1
    tree = ast.Module(body=[f for f in m.tree.body if isinstance(f, (ast.FunctionDef, ast.AsyncFunctionDef)) and f.name in keep], type_ignores=[])
    return pf.Module(m.rel, m.path, m.src, tree)


# ---- helpers that are expressions ------------------------------------------------------------------------------------------------

def helper_expr(h: pf.FuncDef) -> Optional[ast.expr]:
    """The value a synchronous helper returns as ONE expression over its parameters (if/return chains become conditional expressions, single-definition
    locals are substituted); None when the body has any other shape."""
    if isinstance(h, ast.AsyncFunctionDef) or h.decorator_list:
        return None
    a = h.args
    if a.vararg or a.kwarg or a.posonlyargs:
        return None
    body = [s for s in h.body if not (isinstance(s, ast.Expr) and isinstance(s.value, ast.Constant))]

    def conv(stmts: Sequence[ast.stmt], env: Dict[str, ast.expr]) -> Optional[ast.expr]:
        if not stmts:
            return None
        st, rest = stmts[0], stmts[1:]
        if isinstance(st, ast.Return):
            return _subst_names(st.value, env) if st.value is not None else ast.Constant(value=None)
        if isinstance(st, ast.Assign) and len(st.targets) == 1 and isinstance(st.targets[0], ast.Name) and is_pure(st.value):
            env2 = dict(env)
            env2[st.targets[0].id] = _subst_names(st.value, env)
            return conv(rest, env2)
        if isinstance(st, ast.If):
            t = _subst_names(st.test, env)
            if not is_pure(t):
                return None
            a_ = conv(list(st.body) + ([] if _returns(st.body) else list(rest)), env)
            b_ = conv((list(st.orelse) + ([] if _returns(st.orelse) else list(rest))) if st.orelse else list(rest), env)
            if a_ is None or b_ is None:
                return None
            return ast.IfExp(test=t, body=a_, orelse=b_)
        return None

    return conv(body, {})


def _returns(stmts: Sequence[ast.stmt]) -> bool:
    if not stmts:
        return False
    last = stmts[-1]
    if isinstance(last, (ast.Return, ast.Raise)):
        return True
    if isinstance(last, ast.If) and last.orelse:
        return _returns(last.body) and _returns(last.orelse)
    return False


class _Names(ast.NodeTransformer):
    def __init__(self, env: Dict[str, ast.expr]):
        self.env = env

    def visit_Name(self, n: ast.Name):
        if isinstance(n.ctx, ast.Load) and n.id in self.env:
            return copy.deepcopy(self.env[n.id])
        return n


def _subst_names(e: ast.expr, env: Dict[str, ast.expr]) -> ast.expr:
    return _Names(env).visit(copy.deepcopy(e))


# ---- Part 1: symbolic flow -----------------------------------------------------------------------------------------------------------

class Sink:
    __slots__ = ('lst', 'elts', 'pc', 'line')

    def __init__(self, lst: str, elts: List[ast.expr], pc: List[ast.expr], line: int):
        self.lst, self.elts, self.pc, self.line = lst, elts, pc, line


class _State:
    __slots__ = ('env', 'ver', 'pc', 'alive')

    def __init__(self, env, ver, pc, alive=True):
        self.env, self.ver, self.pc, self.alive = env, ver, pc, alive

    def fork(self) -> '_State':
        return _State(dict(self.env), dict(self.ver), list(self.pc), self.alive)


def _not(e: ast.expr) -> ast.expr:
    if isinstance(e, ast.UnaryOp) and isinstance(e.op, ast.Not):
        return e.operand
    return ast.UnaryOp(op=ast.Not(), operand=e)


def _and(es: List[ast.expr]) -> ast.expr:
    if not es:
        return ast.Constant(value=True)
    return es[0] if len(es) == 1 else ast.BoolOp(op=ast.And(), values=list(es))


class SymFlow:
    def __init__(self, helpers: Dict[str, pf.FuncDef], sink_lists: Set[str]):
        self.helpers = helpers
        self.sink_lists = sink_lists
        self.st = _State({}, {}, [])
        self.sinks: List[Sink] = []
        self.unanalysed: List[str] = []
        self.expanded: List[str] = []
        self._hx: Dict[str, Optional[ast.expr]] = {}

    # -- expressions ---------------------------------------------------------------------------------------------------------------------
    def subst(self, e: ast.expr) -> ast.expr:
        flow = self

        class T(ast.NodeTransformer):
            def __init__(self):
                self.bound: List[Set[str]] = []

            def _is_bound(self, name: str) -> bool:
                return any(name in b for b in self.bound)

            def visit_Name(self, n: ast.Name):
                if not isinstance(n.ctx, ast.Load) or self._is_bound(n.id):
                    return n
                if n.id in flow.st.env:
                    return copy.deepcopy(flow.st.env[n.id])
                return ast.copy_location(ast.Name(id=f'{n.id}#{flow.st.ver.get(n.id, 0)}', ctx=ast.Load()), n)

            def _comp(self, node):
                names = {x.id for g in node.generators for x in ast.walk(g.target) if isinstance(x, ast.Name)}
                self.bound.append(names)
                self.generic_visit(node)
                self.bound.pop()
                return node

            visit_ListComp = visit_SetComp = visit_GeneratorExp = visit_DictComp = _comp

            def visit_Lambda(self, node: ast.Lambda):
                a = node.args
                self.bound.append({x.arg for x in a.args + a.kwonlyargs + a.posonlyargs} | ({a.vararg.arg} if a.vararg else set()) | ({a.kwarg.arg} if a.kwarg else set()))
                node.body = self.visit(node.body)
                self.bound.pop()
                return node

            def visit_Call(self, node: ast.Call):
                f = node.func
                if isinstance(f, ast.Name) and not self._is_bound(f.id) and f.id not in flow.st.env and f.id not in flow.st.ver:
                    node.args = [self.visit(x) for x in node.args]
                    for k in node.keywords:
                        k.value = self.visit(k.value)
                    ex = flow._expand(node)
                    return ex if ex is not None else node
                self.generic_visit(node)
                return node

        return T().visit(copy.deepcopy(e))

    def _expand(self, call: ast.Call) -> Optional[ast.expr]:
        """call of a module-level helper (arguments already substituted) -> its value expression."""
        name = call.func.id  # type: ignore[union-attr]
        h = self.helpers.get(name)
        if h is None:
            return None
        if name not in self._hx:
            self._hx[name] = helper_expr(h)
        hx = self._hx[name]
        if hx is None or any(isinstance(x, ast.Starred) for x in call.args) or any(k.arg is None for k in call.keywords):
            return None
        a = h.args
        pos = [x.arg for x in a.args]
        params = pos + [x.arg for x in a.kwonlyargs]
        if len(call.args) > len(pos):
            return None
        bound: Dict[str, ast.expr] = dict(zip(pos, call.args))
        for k in call.keywords:
            if k.arg in bound or k.arg not in params:
                return None
            bound[k.arg] = k.value  # type: ignore[index]
        defaults = dict(zip(pos[len(pos) - len(a.defaults):], a.defaults))
        defaults.update({x.arg: d for x, d in zip(a.kwonlyargs, a.kw_defaults) if d is not None})
        for p in params:
            if p not in bound:
                if p not in defaults:
                    return None
                bound[p] = defaults[p]
        if not all(is_pure(v) for v in bound.values()):
            return None
        out = _subst_names(hx, bound)
        # nested helper calls inside the helper's own expression (arguments are already in the caller's terms)
        flow = self

        class N2(ast.NodeTransformer):
            depth = 0

            def visit_Call(self, node: ast.Call):
                self.generic_visit(node)
                if isinstance(node.func, ast.Name) and node.func.id in flow.helpers and node.func.id != name and N2.depth < 3:
                    N2.depth += 1
                    ex = flow._expand(node)
                    N2.depth -= 1
                    return ex if ex is not None else node
                return node

        out = N2().visit(out)
        if _size(out) > SIZE_LIMIT:
            return None
        self.expanded.append(name)
        return out

    # -- state ---------------------------------------------------------------------------------------------------------------------------
    def _opaque(self, name: str) -> None:
        self.st.env.pop(name, None)
        self.st.ver[name] = self.st.ver.get(name, 0) + 1

    def _mutations(self, node: ast.AST) -> None:
        """calls that may change the object a name is bound to: the name gets a new version."""
        for c in ast.walk(node):
            if not isinstance(c, ast.Call):
                continue
            f = c.func
            if isinstance(f, ast.Name) and f.id in PURE_FUNCS:
                continue
            if isinstance(f, ast.Attribute) and f.attr in PURE_METHODS:
                continue
            if isinstance(f, ast.Name) and f.id in self.helpers and f.id not in self.st.env and f.id not in self.st.ver:
                if f.id not in self._hx:
                    self._hx[f.id] = helper_expr(self.helpers[f.id])
                if self._hx[f.id] is not None and is_pure(self._hx[f.id]):
                    continue                   # a helper that is one side-effect-free expression over its parameters
            if isinstance(f, ast.Attribute):
                b = f.value
                while isinstance(b, (ast.Attribute, ast.Subscript)):
                    b = b.value
                if isinstance(b, ast.Name):
                    self._opaque(b.id)
            for a in list(c.args) + [k.value for k in c.keywords]:
                if isinstance(a, ast.Name):
                    self._opaque(a.id)

    def _store(self, tgt: ast.AST, value: Optional[ast.expr]) -> None:
        if isinstance(tgt, ast.Name):
            if value is not None:
                v = self.subst(value)
                # only values that can decide something are carried along (conditions, literals, aliases, small arithmetic); a list built by a
                # comprehension stays the opaque `name#version` it is known by
                cond_like = isinstance(v, (ast.Constant, ast.Compare, ast.BoolOp, ast.IfExp, ast.Name)) or (isinstance(v, ast.UnaryOp) and isinstance(v.op, ast.Not))
                if is_pure(v) and _size(v) <= SIZE_LIMIT and (cond_like or _size(v) <= 10):
                    self._mutations(value)
                    self.st.env[tgt.id] = v
                    return
                self._mutations(value)
            self._opaque(tgt.id)
            return
        if value is not None:
            self._mutations(value)
        for n in ast.walk(tgt):
            if isinstance(n, ast.Name):
                # a tuple element, or the base of `x[k] = ..` / `x.a = ..` (the object changes)
                self._opaque(n.id)

    def _havoc(self, st: ast.AST) -> None:
        for n in ast.walk(st):
            if isinstance(n, ast.Name) and isinstance(n.ctx, (ast.Store, ast.Del)):
                self._opaque(n.id)
            elif isinstance(n, (ast.Subscript, ast.Attribute)) and isinstance(n.ctx, (ast.Store, ast.Del)):
                b = n.value
                while isinstance(b, (ast.Attribute, ast.Subscript)):
                    b = b.value
                if isinstance(b, ast.Name):
                    self._opaque(b.id)
        self._mutations(st)

    # -- statements ------------------------------------------------------------------------------------------------------------------------
    def run(self, stmts: Sequence[ast.stmt]) -> None:
        for s in stmts:
            if not self.st.alive:
                return
            self.stmt(s)

    def _is_sink(self, s: ast.stmt) -> Optional[Tuple[str, ast.Call]]:
        if isinstance(s, ast.Expr) and isinstance(s.value, ast.Call) and isinstance(s.value.func, ast.Attribute) and s.value.func.attr in ('append', 'extend', 'insert') \
                and isinstance(s.value.func.value, ast.Name) and s.value.func.value.id in self.sink_lists:
            return s.value.func.value.id, s.value
        return None

    def stmt(self, s: ast.stmt) -> None:
        sk = self._is_sink(s)
        if sk is not None:
            lst, call = sk
            if call.func.attr != 'append' or len(call.args) != 1 or not isinstance(call.args[0], ast.Tuple):  # type: ignore[union-attr]
                self.unanalysed.append(f'line {s.lineno}: rows are added to {lst} other than by append(<tuple literal>)')
                return
            self.sinks.append(Sink(lst, [self.subst(x) for x in call.args[0].elts], list(self.st.pc), s.lineno))
            self._mutations(call.args[0])
            return
        if isinstance(s, ast.Assign):
            for t in s.targets:
                self._store(t, s.value if len(s.targets) == 1 else None)
            if len(s.targets) != 1:
                self._mutations(s.value)
            return
        if isinstance(s, ast.AnnAssign):
            if s.value is not None:
                self._store(s.target, s.value)
            return
        if isinstance(s, ast.AugAssign):
            self._mutations(s.value)
            for n in ast.walk(s.target):
                if isinstance(n, ast.Name):
                    self._opaque(n.id)
            return
        if isinstance(s, (ast.Raise, ast.Continue, ast.Break, ast.Return)):
            self.st.alive = False
            return
        if isinstance(s, ast.If):
            t = self.subst(s.test)
            self._mutations(s.test)
            base = self.st
            a = base.fork()
            a.pc.append(t)
            self.st = a
            self.run(s.body)
            a = self.st
            b = base.fork()
            b.pc.append(_not(t))
            self.st = b
            self.run(s.orelse)
            b = self.st
            self.st = self._merge(t, base, a, b)
            return
        if isinstance(s, (ast.With, ast.AsyncWith)):
            for it in s.items:
                self._mutations(it.context_expr)
                if it.optional_vars is not None:
                    self._havoc(it.optional_vars)
            self.run(s.body)
            return
        if isinstance(s, (ast.Expr, ast.Assert, ast.Delete)):
            if isinstance(s, ast.Delete):
                self._havoc(s)
            else:
                self._mutations(s)
            return
        if isinstance(s, (ast.Pass, ast.Import, ast.ImportFrom, ast.Global, ast.Nonlocal)):
            return
        if isinstance(s, (ast.FunctionDef, ast.AsyncFunctionDef, ast.ClassDef)):
            self._opaque(s.name)
            return
        # loops, try, match ...: not followed; whatever they assign is unknown afterwards
        for n in ast.walk(s):
            if isinstance(n, ast.stmt) and self._is_sink(n) is not None:
                self.unanalysed.append(f'line {n.lineno}: rows are added to {self._is_sink(n)[0]} inside a {type(s).__name__} statement')  # type: ignore[index]
        self._havoc(s)

    def _merge(self, t: ast.expr, base: _State, a: _State, b: _State) -> _State:
        if not a.alive and not b.alive:
            base.alive = False
            return base
        if not a.alive:
            return b
        if not b.alive:
            return a
        out = _State({}, {}, list(base.pc))
        n0 = len(base.pc)
        xa, xb = a.pc[n0 + 1:], b.pc[n0 + 1:]
        if xa or xb:
            out.pc.append(ast.BoolOp(op=ast.Or(), values=[_and([t] + xa), _and([_not(t)] + xb)]))
        for n in set(a.env) | set(b.env) | set(a.ver) | set(b.ver):
            va, vb = a.ver.get(n, 0), b.ver.get(n, 0)
            ea = a.env.get(n) or ast.Name(id=f'{n}#{va}', ctx=ast.Load())
            eb = b.env.get(n) or ast.Name(id=f'{n}#{vb}', ctx=ast.Load())
            out.ver[n] = max(va, vb)
            if _dump(ea) == _dump(eb):
                if n in a.env:
                    out.env[n] = a.env[n]
                continue
            m = ast.IfExp(test=copy.deepcopy(t), body=ea, orelse=eb)
            if _size(m) <= SIZE_LIMIT:
                out.env[n] = m
            else:
                out.ver[n] = max(va, vb) + 1
        return out


# ---- Part 2: finite abstract domain --------------------------------------------------------------------------------------------------

class Atom:
    __slots__ = ('key', 'kind', 'text', 'names', 'op', 'k', 'neg')

    def __init__(self, key: str, kind: str, text: str, names: FrozenSet[str], op=None, k=None, neg: Optional[str] = None):
        self.key, self.kind, self.text, self.names, self.op, self.k = key, kind, text, names, op, k
        self.neg = neg or f'not ({text})'

    def say(self, v: bool) -> str:
        return self.text if v else self.neg


_EMPTY_LITS = (ast.List, ast.Tuple, ast.Dict, ast.Set)


def _names(e: ast.AST) -> FrozenSet[str]:
    return frozenset(n.id for n in ast.walk(e) if isinstance(n, ast.Name) and '#' in n.id)


def _kind(e: ast.AST) -> str:
    return 'free' if is_pure(e) else 'unknown'


def _truthy(x: ast.expr) -> Tuple[Atom, bool]:
    while isinstance(x, ast.Call) and isinstance(x.func, ast.Name) and x.func.id in ('len', 'bool', 'list', 'tuple', 'sorted') and len(x.args) == 1 and not x.keywords:
        x = x.args[0]
    s = pf.nsrc(x)
    return Atom('truthy:' + s, _kind(x), f'`{show(x)}` is non-empty (true)', _names(x), neg=f'`{show(x)}` is empty (false)'), True


_FLIP = {ast.Lt: ast.Gt, ast.LtE: ast.GtE, ast.Gt: ast.Lt, ast.GtE: ast.LtE, ast.Eq: ast.Eq, ast.NotEq: ast.NotEq}


def _int_const(e: ast.AST) -> Optional[int]:
    if isinstance(e, ast.Constant) and isinstance(e.value, int) and not isinstance(e.value, bool):
        return e.value
    if isinstance(e, ast.UnaryOp) and isinstance(e.op, ast.USub) and isinstance(e.operand, ast.Constant) and isinstance(e.operand.value, int):
        return -e.operand.value
    return None


def atom_of(e: ast.expr, upd: str) -> Tuple[Atom, bool]:
    """(atom, polarity): the condition e holds iff the atom has the given polarity."""
    if isinstance(e, ast.Compare) and len(e.ops) == 1:
        l, op, r = e.left, type(e.ops[0]), e.comparators[0]
        # the update id against an integer literal
        for a, b, o in ((l, r, op), (r, l, _FLIP.get(op))):
            while isinstance(a, ast.Call) and isinstance(a.func, ast.Name) and a.func.id == 'int' and len(a.args) == 1:
                a = a.args[0]
            if isinstance(a, ast.Name) and a.id == upd and _int_const(b) is not None and o is not None:
                return Atom(f'upd:{o.__name__}:{_int_const(b)}', 'upd', show(e), frozenset(), o, _int_const(b)), True
        # emptiness tests
        for a, b, o in ((l, r, op), (r, l, _FLIP.get(op))):
            if o is None:
                continue
            if isinstance(a, ast.Call) and isinstance(a.func, ast.Name) and a.func.id == 'len' and len(a.args) == 1 and _int_const(b) is not None:
                k = _int_const(b)
                at, _ = _truthy(a.args[0])
                if (o, k) in ((ast.Eq, 0), (ast.Lt, 1), (ast.LtE, 0)):
                    return at, False
                if (o, k) in ((ast.NotEq, 0), (ast.Gt, 0), (ast.GtE, 1)):
                    return at, True
            if isinstance(b, _EMPTY_LITS) and not (getattr(b, 'elts', None) or getattr(b, 'keys', None)) and o in (ast.Eq, ast.NotEq):
                at, _ = _truthy(a)
                return at, o is ast.NotEq
        if op in (ast.Is, ast.IsNot) and isinstance(r, ast.Constant) and r.value is None:
            return Atom('none:' + pf.nsrc(l), _kind(l), f'{show(l)} is None', _names(l)), op is ast.Is
        if op in (ast.Eq, ast.NotEq):
            a, b = sorted([pf.nsrc(l), pf.nsrc(r)])
            return Atom(f'eq:{a}=={b}', _kind(e), f'{show(l)} == {show(r)}', _names(e)), op is ast.Eq
        if op in (ast.In, ast.NotIn):
            return Atom(f'in:{pf.nsrc(l)}@{pf.nsrc(r)}', _kind(e), f'{show(l)} in {show(r)}', _names(e)), op is ast.In
        return Atom('cmp:' + pf.nsrc(e), _kind(e), show(e), _names(e)), True
    if isinstance(e, ast.Compare):
        return Atom('cmp:' + pf.nsrc(e), _kind(e), show(e), _names(e)), True
    return _truthy(e)


class _Unknown(Exception):
    pass


def _bool(e: ast.expr, val) -> bool:
    if isinstance(e, ast.Constant):
        return bool(e.value)
    if isinstance(e, ast.BoolOp):
        vs = [_bool(v, val) for v in e.values]
        return all(vs) if isinstance(e.op, ast.And) else any(vs)
    if isinstance(e, ast.UnaryOp) and isinstance(e.op, ast.Not):
        return not _bool(e.operand, val)
    if isinstance(e, ast.IfExp):
        return _bool(e.body, val) if _bool(e.test, val) else _bool(e.orelse, val)
    if isinstance(e, ast.Compare) and len(e.ops) > 1:
        left = e.left
        for op, r in zip(e.ops, e.comparators):
            if not _bool(ast.Compare(left=left, ops=[op], comparators=[r]), val):
                return False
            left = r
        return True
    return val(e)


def _value(e: ast.expr, val):
    """('lit', v) | ('other', text)"""
    if isinstance(e, ast.Constant):
        return ('lit', e.value)
    if isinstance(e, ast.IfExp):
        return _value(e.body, val) if _bool(e.test, val) else _value(e.orelse, val)
    return ('other', show(e))


def _cond_leaves(e: ast.expr, out: List[ast.expr], value_ctx: bool = False) -> None:
    if isinstance(e, ast.Constant):
        return
    if isinstance(e, ast.IfExp):
        _cond_leaves(e.test, out)
        _cond_leaves(e.body, out, value_ctx)
        _cond_leaves(e.orelse, out, value_ctx)
        return
    if value_ctx:
        return
    if isinstance(e, ast.BoolOp):
        for v in e.values:
            _cond_leaves(v, out)
        return
    if isinstance(e, ast.UnaryOp) and isinstance(e.op, ast.Not):
        _cond_leaves(e.operand, out)
        return
    if isinstance(e, ast.Compare) and len(e.ops) > 1:
        left = e.left
        for op, r in zip(e.ops, e.comparators):
            out.append(ast.Compare(left=left, ops=[op], comparators=[r]))
            left = r
        return
    out.append(e)


def _regions(consts: Set[int]) -> List[Tuple[int, Optional[int]]]:
    """order classes of an integer >= 1 with respect to the given literals (1 is always a cut point): inclusive intervals, hi None = unbounded."""
    cuts = sorted({c for c in consts if c >= 1} | {1})
    out: List[Tuple[int, Optional[int]]] = []
    prev = 0
    for c in cuts:
        if c - 1 >= prev + 1:
            out.append((prev + 1, c - 1))
        out.append((c, c))
        prev = c
    out.append((prev + 1, None))
    return out


def _region_cmp(reg: Tuple[int, Optional[int]], op, k: int) -> bool:
    lo, hi = reg
    # k is a cut point or lies below 1: the whole class is on one side of it
    if hi is not None and hi < k:
        rel = -1
    elif lo > k:
        rel = 1
    elif lo == k and hi == k:
        rel = 0
    else:
        raise AnalysisError(f'order class {reg} is not on one side of {k}')
    return {ast.Lt: rel < 0, ast.LtE: rel <= 0, ast.Gt: rel > 0, ast.GtE: rel >= 0, ast.Eq: rel == 0, ast.NotEq: rel != 0}[op]


def _region_text(name: str, reg: Tuple[int, Optional[int]]) -> str:
    lo, hi = reg
    if hi is None:
        return f'{name} >= {lo}'
    return f'{name} = {lo}' if lo == hi else f'{lo} <= {name} <= {hi}'


def decide_slot(value: ast.expr, pc: Sequence[ast.expr], upd: str, wanted: str, max_atoms: int = 14):
    """Can the slot hold anything but the literal `wanted` for an update id other than 1?
    -> ('ok', detail) | ('bad', witness text, stored value) | ('unknown', why)."""
    leaves: List[ast.expr] = []
    _cond_leaves(value, leaves, value_ctx=True)
    table: Dict[str, Atom] = {}

    def reg(e: ast.expr) -> Tuple[Atom, bool]:
        at, pol = atom_of(e, upd)
        table.setdefault(at.key, at)
        return table[at.key], pol

    val_keys = {reg(e)[0].key for e in leaves}
    # path-condition conjuncts that talk about the same atoms (transitively); the others are independent request checks
    pcs: List[Tuple[ast.expr, Set[str]]] = []
    for c in pc:
        ls: List[ast.expr] = []
        _cond_leaves(c, ls)
        pcs.append((c, {atom_of(e, upd)[0].key for e in ls}))
    used: List[ast.expr] = []
    keys = set(val_keys)
    changed = True
    taken: Set[int] = set()
    while changed:
        changed = False
        for i, (c, ks) in enumerate(pcs):
            if i in taken:
                continue
            if ks & keys or any(k.startswith('upd:') for k in ks):
                taken.add(i)
                used.append(c)
                ls = []
                _cond_leaves(c, ls)
                for e in ls:
                    reg(e)
                keys |= ks
                changed = True
    atoms = [a for a in table.values() if a.key in keys]
    upds = [a for a in atoms if a.kind == 'upd']
    free = sorted([a for a in atoms if a.kind == 'free'], key=lambda a: a.key)
    unk = sorted([a for a in atoms if a.kind == 'unknown'], key=lambda a: a.key)
    if len(free) + len(unk) > max_atoms:
        return 'unknown', f'{len(free) + len(unk)} conditions decide the value: too many to enumerate'
    regions = [r for r in _regions({a.k for a in upds}) if r[0] >= 2]
    name = upd.split('#')[0]
    n_cases = 0
    offenders = []            # (region, free valuation, stored values over the unknown atoms, reachable for some / all unknown valuations)
    for r in regions:
        for fv in itertools.product((False, True), repeat=len(free)):
            reach = 0
            bad_vals: Set[str] = set()
            good = 0
            for uv in itertools.product((False, True), repeat=len(unk)):
                sigma = dict(zip([a.key for a in free], fv))
                sigma.update(zip([a.key for a in unk], uv))

                def val(e: ast.expr) -> bool:
                    at, pol = atom_of(e, upd)
                    if at.kind == 'upd':
                        return _region_cmp(r, at.op, at.k) == pol
                    return sigma[at.key] == pol
                n_cases += 1
                if not all(_bool(c, val) for c in used):
                    continue
                reach += 1
                v = _value(value, val)
                if v == ('lit', wanted):
                    good += 1
                else:
                    bad_vals.add(repr(v[1]) if v[0] == 'lit' else f'<{v[1]}>')
            if bad_vals:
                offenders.append((r, fv, bad_vals, reach, good))
    detail = {'update id classes': [_region_text(name, r) for r in regions], 'conditions': [a.text for a in free + unk], 'cases': n_cases}
    if not offenders:
        return 'ok', detail
    # a definite violation: a class of update ids and a valuation of the understood conditions under which the row is reached and is never `wanted`,
    # with a literal stored; the understood conditions must be independent of each other
    for r, fv, bad_vals, reach, good in offenders:
        if good or any(b.startswith('<') for b in bad_vals):
            continue
        inv = [a for a in free]
        corr = [(a.text, b.text) for i, a in enumerate(inv) for b in inv[i + 1:] if a.names & b.names]
        if corr:
            return 'unknown', f'conditions {corr[0][0]!r} and {corr[0][1]!r} talk about the same variable; their combinations are not all possible'
        wit = [_region_text(name, r)] + [a.say(v) for a, v in zip(free, fv)]
        return 'bad', '; '.join(wit), sorted(bad_vals)
    r, fv, bad_vals, reach, good = offenders[0]
    wit = [_region_text(name, r)] + [a.say(v) for a, v in zip(free, fv)]
    return 'unknown', f'for {"; ".join(wit)} the stored value may be {sorted(bad_vals)} depending on {[a.text for a in unk] or "a value that is not a literal"}'
