"""Call-site enumeration and literal-value resolution for Python (by name, through imports)."""
from __future__ import annotations

import ast
from typing import Dict, List, Optional, Sequence, Set, Tuple

from . import pyfacts as pf
from .common import AnalysisError


def call_sites(dirs: Sequence[str], func_name: str) -> List[Tuple[pf.Module, Optional[pf.FuncDef], ast.Call]]:
    """All calls `func_name(...)` / `x.func_name(...)` in the given directories."""
    out = []
    for rel in pf.walk_py(dirs):
        m = pf.load(rel)
        if func_name not in m.src:
            continue
        for n in ast.walk(m.tree):
            if isinstance(n, ast.Call):
                f = n.func
                name = f.id if isinstance(f, ast.Name) else (f.attr if isinstance(f, ast.Attribute) else None)
                if name == func_name:
                    out.append((m, m.enclosing_func(n), n))
    return out


def arg_of(call: ast.Call, fn_def: pf.FuncDef, param: str) -> Optional[ast.expr]:
    """The expression a call passes for parameter `param` of fn_def (positional or keyword); None if defaulted."""
    names = [a.arg for a in fn_def.args.posonlyargs + fn_def.args.args]
    if param in names:
        i = names.index(param)
        if i < len(call.args) and not any(isinstance(a, ast.Starred) for a in call.args[: i + 1]):
            return call.args[i]
    for k in call.keywords:
        if k.arg == param:
            return k.value
    return None


def literal_strings(fn: Optional[pf.FuncDef], e: ast.expr) -> Optional[Set[str]]:
    """All string values `e` can take, when every reaching definition is a string literal."""
    s = pf.const_str(e)
    if s is not None:
        return {s}
    if isinstance(e, ast.IfExp):
        a, b = literal_strings(fn, e.body), literal_strings(fn, e.orelse)
        return None if a is None or b is None else a | b
    if isinstance(e, ast.Name) and fn is not None:
        defs = pf.assignments(fn).get(e.id, [])
        if not defs:
            return None
        out: Set[str] = set()
        for d in defs:
            if isinstance(d, ast.arg):
                return None
            if not isinstance(d, ast.expr):
                return None
            v = literal_strings(None, d)
            if v is None:
                return None
            out |= v
        return out
    return None


def param_values(dirs: Sequence[str], module: pf.Module, fn: pf.FuncDef, param: str, depth: int = 2) -> Tuple[Set[str], List[str]]:
    """String values reaching parameter `param` of fn over all call sites (following one more level when a
    caller forwards its own parameter).  Returns (values, descriptions of sites).  AnalysisError if a site is not resolvable."""
    vals: Set[str] = set()
    sites: List[str] = []
    for m, cfn, call in call_sites(dirs, fn.name):
        a = arg_of(call, fn, param)
        if a is None:
            raise AnalysisError(f'{m.rel}:{call.lineno}: cannot find argument for {fn.name}({param})')
        v = literal_strings(cfn, a)
        if v is None and isinstance(a, ast.Name) and cfn is not None and depth > 0 and a.id in [x.arg for x in cfn.args.args + cfn.args.kwonlyargs]:
            v2, s2 = param_values(dirs, m, cfn, a.id, depth - 1)
            vals |= v2
            sites += s2
            continue
        if v is None:
            raise AnalysisError(f'{m.rel}:{call.lineno}: value passed for {fn.name}({param}) is not a resolvable string literal: {pf.nsrc(a)}')
        vals |= v
        sites.append(f'{m.rel}::{m.qualname(cfn) if cfn else "<module>"} -> {sorted(v)}')
    if not sites:
        raise AnalysisError(f'no call sites of {fn.name} found')
    return vals, sites
