"""Shared reporting framework for the static checks.

Exit codes (DESIGN.md ground rule 1):
  0  every rule instance holds (KNOWN-FINDING lines allowed)
  1  VIOLATION property=<id> replay=<path>   (an instance is broken and not a listed finding)
  2  ANALYSIS-ERROR                           (anchor vanished / idiom not recognised / vacuity)

Nothing here imports or runs repository code.
"""
from __future__ import annotations

import hashlib
import json
import os
import re
import sys
import time
import traceback
from typing import Any, Callable, Dict, List, Optional

VERIF = os.path.dirname(os.path.dirname(os.path.abspath(__file__)))
REPO = os.environ.get('VERIF_REPO', '/repo')
# Self-test overlay: files present under OVERLAY shadow the same relative path under REPO
# (used only by selftest/run.py to analyse a mutated copy of single files; never set by MANIFEST commands).
OVERLAY = os.environ.get('VERIF_OVERLAY', '')
OUT = OVERLAY if OVERLAY else VERIF


class AnalysisError(Exception):
    """The analysis cannot decide (unknown shape, missing anchor).  Never a violation."""


class AnchorRemoved(AnalysisError):
    """An anchored construct is gone for a reason the analysis *does* recognise and that breaks every property anchored in it
    (e.g. a later migration DROPs a trigger without re-creating it).  Reported as a violation of rule R0."""

    def __init__(self, construct: str, message: str, file: str = '', line: int = 0):
        super().__init__(message)
        self.construct = construct
        self.message = message
        self.file = file
        self.line = line


def norm(text: str) -> str:
    """Normalise a statement/expression text for use in a finding key."""
    return re.sub(r'\s+', ' ', text).strip()


def short(text: str, n: int = 160) -> str:
    t = norm(text)
    return t if len(t) <= n else t[: n - 3] + '...'


class Finding:
    def __init__(self, rule: str, construct: str, message: str, file: str = '', line: int = 0, extra: Any = None):
        self.rule = rule
        self.construct = construct
        self.message = message
        self.file = file
        self.line = line
        self.extra = extra

    @property
    def key(self) -> str:
        return f'{self.rule}|{self.construct}'

    def to_json(self) -> dict:
        return {
            'rule': self.rule,
            'construct': self.construct,
            'message': self.message,
            'file': self.file,
            'line': self.line,
            'extra': self.extra,
        }


class Ctx:
    """Collects rule instances, violations and writes evidence for one property run."""

    def __init__(self, pid: str, tier: str):
        self.pid = pid
        self.tier = tier
        self.repo = REPO
        self.t0 = time.time()
        self.instances: List[dict] = []
        self.findings: List[Finding] = []
        self.infos: List[str] = []
        self.assumptions: List[str] = []
        self.rules: Dict[str, str] = {}
        self.min_counts: Dict[str, int] = {}
        self.units: Dict[str, int] = {}
        self.level = 'other'
        self.explanation = ''
        self.exhaustive = False
        self.trusted_base: List[str] = []
        self.extra_cov: Dict[str, Any] = {}
        try:
            self.seed = int(os.environ.get('VERIF_SEED', '0'))
        except ValueError:
            self.seed = 0

    # ---- declarations -------------------------------------------------
    def rule(self, rid: str, text: str, min_instances: int = 1) -> None:
        self.rules[rid] = text
        self.min_counts[rid] = min_instances

    def assume(self, text: str) -> None:
        if text not in self.assumptions:
            self.assumptions.append(text)

    def unit(self, kind: str, n: int = 1) -> None:
        self.units[kind] = self.units.get(kind, 0) + n

    # ---- recording ----------------------------------------------------
    def ok(self, rule: str, construct: str, detail: Any = None, nontrivial: bool = True) -> None:
        self.instances.append({'rule': rule, 'construct': construct, 'holds': True, 'detail': detail, 'nontrivial': nontrivial})

    def bad(self, rule: str, construct: str, message: str, file: str = '', line: int = 0, extra: Any = None) -> None:
        self.instances.append({'rule': rule, 'construct': construct, 'holds': False, 'detail': message, 'nontrivial': True})
        self.findings.append(Finding(rule, construct, message, _rel(file), line, extra))

    def check(self, cond: bool, rule: str, construct: str, message: str, file: str = '', line: int = 0, detail: Any = None, extra: Any = None) -> bool:
        if cond:
            self.ok(rule, construct, detail)
        else:
            self.bad(rule, construct, message, file, line, extra)
        return bool(cond)

    def info(self, msg: str) -> None:
        self.infos.append(msg)

    def need(self, cond: Any, msg: str) -> None:
        """Anchor/idiom requirement: failing is an analysis error, never a violation."""
        if not cond:
            raise AnalysisError(msg)

    # ---- finishing ----------------------------------------------------
    def finish(self, aborted: Optional[str] = None) -> int:
        """aborted: message of an AnalysisError raised after some instances were recorded.  Violations already
        established by recognised shapes are still reported (exit 1); otherwise the run is an analysis error (exit 2)."""
        per_rule: Dict[str, int] = {}
        for inst in self.instances:
            per_rule[inst['rule']] = per_rule.get(inst['rule'], 0) + 1
        problems: List[str] = []
        if aborted:
            problems.append(aborted)
        else:
            # vacuity guard
            for rid, m in self.min_counts.items():
                if per_rule.get(rid, 0) < m:
                    problems.append(f'vacuity guard: rule {rid} matched {per_rule.get(rid, 0)} instance(s), frozen minimum is {m}')
        for rid in per_rule:
            if rid not in self.rules:
                raise AnalysisError(f'internal: instance recorded for undeclared rule {rid}')

        known = load_known_findings()
        listed = {(k['property'], k['key']): k for k in known.get('findings', [])}
        new: List[Finding] = []
        seen_known = set()
        for f in self.findings:
            k = listed.get((self.pid, f.key))
            if k is not None:
                if f.key not in seen_known:
                    seen_known.add(f.key)
                    print(f'KNOWN-FINDING: property={self.pid} {k["what"]} [{f.key}]')
            else:
                new.append(f)
        # a listed finding that no longer reproduces is only a note (the defect may have been repaired)
        for (pid, key), k in listed.items():
            if pid == self.pid and key not in seen_known:
                print(f'NOTE: listed finding no longer reproduces: {key}')

        for m in self.infos:
            print(f'INFO: {m}')

        n_inst = len(self.instances)
        distinct = len({(i['rule'], i['construct']) for i in self.instances if i['nontrivial']})
        wall = time.time() - self.t0
        print(f'[{self.pid}] tier={self.tier} rules={len(self.rules)} instances={n_inst} distinct={distinct} '
              f'violations={len(new)} known={len(seen_known)} units={self.units} wall={wall:.2f}s')
        for rid, text in self.rules.items():
            n = per_rule.get(rid, 0)
            nb = sum(1 for i in self.instances if i['rule'] == rid and not i['holds'])
            print(f'  {rid}: {n} instance(s), {nb} failing (min {self.min_counts[rid]}) - {short(text, 110)}')

        replay_path = ''
        if new:
            rdir = os.path.join(OUT, 'replay', self.pid)
            os.makedirs(rdir, exist_ok=True)
            replay_path = os.path.join(rdir, 'violations.json')
            with open(replay_path, 'w') as fh:
                json.dump({'property': self.pid, 'repo': self.repo, 'violations': [f.to_json() for f in new]}, fh, indent=1)
            for f in new:
                loc = f'{f.file}:{f.line}' if f.file else ''
                print(f'  FAIL {f.rule} {loc} {f.construct}: {f.message}')

        if problems and not new:
            for pr in problems:
                print(f'ANALYSIS-ERROR property={self.pid}: {pr}')
            return 2
        for pr in problems:
            print(f'NOTE: analysis incomplete after the violation(s) above: {pr}')
        self._write_evidence(n_inst, distinct, per_rule, len(new), len(seen_known), wall)

        if new:
            print(f'VIOLATION property={self.pid} replay={replay_path}')
            return 1
        return 0

    def _write_evidence(self, n_inst: int, distinct: int, per_rule: Dict[str, int], n_viol: int, n_known: int, wall: float) -> None:
        samples = []
        seen_rules = set()
        for inst in self.instances:
            if inst['rule'] not in seen_rules or len(samples) < 6:
                if sum(1 for s in samples if s['rule'] == inst['rule']) >= 3:
                    continue
                seen_rules.add(inst['rule'])
                samples.append({'rule': inst['rule'], 'construct': short(inst['construct'], 200), 'holds': inst['holds'],
                                'detail': _jsonable(inst['detail'])})
        n_holds = sum(1 for i in self.instances if i['holds'])
        cov: Dict[str, Any] = {
            'evaluations': n_inst,
            'distinct_nontrivial': distinct,
            'rule': 'one evaluation = one rule instance (a rule applied to one construct found in /repo source on this run); '
                    'distinct = distinct (rule, construct-key) pairs; trivial instances (positive controls, presence checks) are excluded from distinct',
            'samples': samples,
            'obligations': n_inst,
            'discharged': n_holds,
            'checker_cmd': f'/venv/bin/python check.py {self.pid} --tier {self.tier}',
            'trusted_base': ['CPython ast/re parsers', 'engines/*.py of this framework'] + self.trusted_base,
            'explanation': self.explanation or 'static rules over parsed source; see rules_applied',
            'exhaustive': self.exhaustive,
            'rules_applied': {rid: {'text': text, 'instances': per_rule.get(rid, 0), 'min': self.min_counts[rid]} for rid, text in self.rules.items()},
            'analysed_units': self.units,
            'known_findings_reproduced': n_known,
        }
        cov.update(self.extra_cov)
        ev = {
            'property_id': self.pid,
            'tier': self.tier,
            'seed': self.seed,
            'level': self.level,
            'coverage': cov,
            'assumptions': self.assumptions,
            'wall_s': round(wall, 3),
            'violations': n_viol,
        }
        os.makedirs(os.path.join(OUT, 'evidence'), exist_ok=True)
        with open(os.path.join(OUT, 'evidence', f'{self.pid}.json'), 'w') as fh:
            json.dump(ev, fh, indent=1, sort_keys=False)
            fh.write('\n')


def _jsonable(x: Any) -> Any:
    try:
        json.dumps(x)
        return x
    except (TypeError, ValueError):
        return repr(x)


def _rel(path: str) -> str:
    for base in ((os.path.join(OVERLAY, 'tree') if OVERLAY else ''), REPO):
        if base and path and path.startswith(base.rstrip('/') + '/'):
            return path[len(base.rstrip('/')) + 1:]
    return path


_known_cache: Optional[dict] = None


def load_known_findings() -> dict:
    global _known_cache
    if _known_cache is None:
        p = os.path.join(VERIF, 'known_findings.json')
        if os.path.exists(p):
            with open(p) as fh:
                _known_cache = json.load(fh)
        else:
            _known_cache = {'findings': [], 'fixed': []}
    return _known_cache


def repo_path(rel: str) -> str:
    if OVERLAY:
        p = os.path.join(OVERLAY, 'tree', rel)
        if os.path.exists(p):
            return p
    return os.path.join(REPO, rel)


def read_repo(rel: str) -> str:
    p = repo_path(rel)
    if not os.path.exists(p):
        raise AnalysisError(f'anchor file missing: {rel}')
    with open(p, encoding='utf-8') as fh:
        return fh.read()


def _mutation_battery(ctx: Ctx) -> None:
    """Thorough tier: re-run this property's rules on every recorded mutant of the current tree (overlay copies outside /repo and
    /verif, removed afterwards) and record how many are detected.  This measures the checker, not the repository: results are
    evidence / INFO only and never turn into a violation."""
    import concurrent.futures
    import importlib.util
    mpath = os.path.join(VERIF, 'selftest', 'mutants', f'{ctx.pid}.json')
    if not os.path.exists(mpath):
        return
    spec = importlib.util.spec_from_file_location('verif_selftest_run', os.path.join(VERIF, 'selftest', 'run.py'))
    st = importlib.util.module_from_spec(spec)
    spec.loader.exec_module(st)  # type: ignore[union-attr]
    muts = json.load(open(mpath))
    res: Dict[str, int] = {}
    details = []
    with concurrent.futures.ThreadPoolExecutor(16) as ex:
        futs = [(m, ex.submit(st.one_mutant, ctx.pid, m)) for m in muts]
        for m, f in futs:
            status, msg = f.result()
            if status == 'CAUGHT' and m.get('expect') in ('silent', 'pass'):
                status = 'SILENT-OK'
            res[status] = res.get(status, 0) + 1
            if status not in ('CAUGHT', 'SILENT-OK'):
                details.append(f'{m["name"]}: {status}')
    ctx.extra_cov['mutation_battery'] = {'mutants': len(muts), 'by_status': res, 'not_detected': details}
    ctx.unit('mutants_replayed', len(muts))
    for d in details:
        ctx.info(f'mutation battery: {d} (checker self-test, not a property violation)')


def run_property(pid: str, tier: str, fn: Callable[[Ctx], None]) -> int:
    ctx = Ctx(pid, tier)
    try:
        fn(ctx)
        if tier == 'thorough' and not OVERLAY:
            _mutation_battery(ctx)
        return ctx.finish()
    except AnchorRemoved as e:
        ctx.rule('R0', 'constructs the property is anchored in exist in the effective program', 0)
        ctx.bad('R0', e.construct, e.message, e.file, e.line)
        try:
            return ctx.finish(aborted=f'stopped after: {e.message}')
        except AnalysisError as e2:
            print(f'ANALYSIS-ERROR property={pid}: {e2}')
            return 2
    except AnalysisError as e:
        try:
            return ctx.finish(aborted=str(e))
        except AnalysisError as e2:
            print(f'ANALYSIS-ERROR property={pid}: {e2}')
            return 2
    except Exception:  # noqa: BLE001 - tracebacks must not look like violations
        traceback.print_exc()
        print(f'ANALYSIS-ERROR property={pid}: internal error in checker (traceback above)')
        return 2
