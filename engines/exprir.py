"""A tiny common expression IR for Python `ast` expressions and the Scala subset of engines/scalalite_enc.py,
with a concrete integer/float evaluator.  Used to compare bit layouts and index formulas across the two languages
(C34, parts of C33).  Only *extracted* expression trees are evaluated; repository code is never imported or run.

IR (same tuples as scalalite_enc): ('int', n) ('float', x) ('bool', b) ('name', dotted) ('bin', op, l, r) ('un', op, e)
('call', fn, [(kw, e)...], None) ('sel', e, attr) ('index', e, i) ('if', c, a, b) ('list', [e...])
"""
from __future__ import annotations

import ast
import math
from typing import Any, Callable, Dict, List, Optional, Tuple

from . import pyfacts as pf
from . import scalalite_enc as S
from .common import AnalysisError

_PY_BIN = {ast.Add: '+', ast.Sub: '-', ast.Mult: '*', ast.FloorDiv: '//', ast.Div: '/', ast.LShift: '<<', ast.RShift: '>>',
           ast.BitOr: '|', ast.BitAnd: '&', ast.BitXor: '^', ast.Pow: '**', ast.Mod: '%'}
_PY_CMP = {ast.Eq: '==', ast.NotEq: '!=', ast.Lt: '<', ast.LtE: '<=', ast.Gt: '>', ast.GtE: '>='}


def from_py(e: ast.AST) -> tuple:
    if isinstance(e, ast.Constant):
        if isinstance(e.value, bool):
            return ('bool', e.value)
        if isinstance(e.value, int):
            return ('int', e.value)
        if isinstance(e.value, float):
            return ('float', e.value)
        if isinstance(e.value, str):
            return ('str', e.value)
        raise AnalysisError(f'exprir: unsupported constant {e.value!r}')
    if isinstance(e, ast.Name):
        return ('name', e.id)
    if isinstance(e, ast.Attribute):
        d = pf.dotted(e)
        if d is not None:
            return ('name', d)
        return ('sel', from_py(e.value), e.attr)
    if isinstance(e, ast.BinOp) and type(e.op) in _PY_BIN:
        return ('bin', _PY_BIN[type(e.op)], from_py(e.left), from_py(e.right))
    if isinstance(e, ast.UnaryOp):
        if isinstance(e.op, ast.USub):
            return ('un', '-', from_py(e.operand))
        if isinstance(e.op, ast.Not):
            return ('un', '!', from_py(e.operand))
        if isinstance(e.op, ast.Invert):
            return ('un', '~', from_py(e.operand))
    if isinstance(e, ast.Compare) and len(e.ops) == 1 and type(e.ops[0]) in _PY_CMP:
        return ('bin', _PY_CMP[type(e.ops[0])], from_py(e.left), from_py(e.comparators[0]))
    if isinstance(e, ast.Compare) and all(type(o) in _PY_CMP for o in e.ops):
        parts = []
        left = e.left
        for o, r in zip(e.ops, e.comparators):
            parts.append(('bin', _PY_CMP[type(o)], from_py(left), from_py(r)))
            left = r
        out = parts[0]
        for p in parts[1:]:
            out = ('bin', '&&', out, p)
        return out
    if isinstance(e, ast.BoolOp):
        op = '&&' if isinstance(e.op, ast.And) else '||'
        out = from_py(e.values[0])
        for v in e.values[1:]:
            out = ('bin', op, out, from_py(v))
        return out
    if isinstance(e, ast.Call):
        return ('call', from_py(e.func), [(None, from_py(a)) for a in e.args] + [(k.arg, from_py(k.value)) for k in e.keywords], None)
    if isinstance(e, ast.Subscript):
        return ('index', from_py(e.value), from_py(e.slice))
    if isinstance(e, ast.IfExp):
        return ('if', from_py(e.test), from_py(e.body), from_py(e.orelse))
    if isinstance(e, (ast.List, ast.Tuple)):
        return ('list', [from_py(x) for x in e.elts])
    raise AnalysisError(f'exprir: unsupported Python expression `{pf.nsrc(e)[:80]}`')


def from_scala(e: tuple) -> tuple:
    """Normalise a scalalite_enc tree: strip parens, turn selector chains on plain names into dotted names."""
    e = S.strip(e)
    return _norm_scala(e)


def _norm_scala(e: Any) -> Any:
    if isinstance(e, list):
        return [_norm_scala(x) for x in e]
    if not isinstance(e, tuple):
        return e
    if e and e[0] == 'sel':
        d = S.dotted(e)
        if d is not None:
            return ('name', d)
        return ('sel', _norm_scala(e[1]), e[2])
    if e and e[0] == 'call':
        return ('call', _norm_scala(e[1]), [(k, _norm_scala(a)) for k, a in e[2]], _norm_scala(e[3]) if e[3] is not None else None)
    return tuple(_norm_scala(x) for x in e)


def names(e: Any) -> List[str]:
    out = []
    for n in S.walk(e):
        if n and n[0] == 'name':
            out.append(n[1])
    return out


def show(e: Any) -> str:
    return S.show(e)


# --------------------------------------------------------------------------------------
# evaluation
# --------------------------------------------------------------------------------------


def _wrap32(v: int) -> int:
    v &= 0xFFFFFFFF
    return v - (1 << 32) if v >= (1 << 31) else v


class Undefined(Exception):
    """Evaluation hit an assertion/`fatal`/out-of-domain operation (the modelled program would raise)."""


def ev(e: tuple, env: Dict[str, Any], lang: str, funcs: Optional[Dict[str, Callable[..., Any]]] = None) -> Any:
    """Concrete value of an IR expression.  lang='py': unbounded ints, // floors, / is true division, >> arithmetic.
    lang='scala': 32-bit wrapped Int arithmetic, / truncates on ints, >>> logical, .toInt truncates, .toDouble widens."""
    funcs = funcs or {}
    k = e[0]
    if k in ('int', 'float', 'bool'):
        return e[1]
    if k == 'name':
        nm = e[1]
        if nm in env:
            return env[nm]
        # scala postfix conversions on a name:  x.toInt / x.toDouble / x.length
        if '.' in nm:
            base, attr = nm.rsplit('.', 1)
            if base in env:
                return _attr(env[base], attr, lang)
        raise AnalysisError(f'exprir: unbound name {nm}')
    if k == 'sel':
        return _attr(ev(e[1], env, lang, funcs), e[2], lang)
    if k == 'un':
        v = ev(e[2], env, lang, funcs)
        if e[1] == '-':
            return -v
        if e[1] == '!':
            return not v
        if e[1] == '~':
            return ~v
        if e[1] == '+':
            return v
    if k == 'if':
        return ev(e[2], env, lang, funcs) if ev(e[1], env, lang, funcs) else ev(e[3], env, lang, funcs)
    if k == 'list':
        return [ev(x, env, lang, funcs) for x in e[1]]
    if k == 'index':
        base = ev(e[1], env, lang, funcs)
        i = ev(e[2], env, lang, funcs)
        try:
            return base[i]
        except (IndexError, TypeError, KeyError):
            raise Undefined(f'index {i} out of range')
    if k == 'bin':
        op = e[1]
        if op == '&&':
            return bool(ev(e[2], env, lang, funcs)) and bool(ev(e[3], env, lang, funcs))
        if op == '||':
            return bool(ev(e[2], env, lang, funcs)) or bool(ev(e[3], env, lang, funcs))
        a = ev(e[2], env, lang, funcs)
        b = ev(e[3], env, lang, funcs)
        return _binop(op, a, b, lang)
    if k == 'call':
        fn = e[1]
        nm = fn[1] if fn[0] == 'name' else None
        args = [ev(a, env, lang, funcs) for _, a in e[2]]
        if nm is not None and nm in funcs:
            return funcs[nm](*args)
        if nm in ('math.sqrt', 'Math.sqrt', 'math.sqrt', 'scala.math.sqrt') and len(args) == 1:
            if args[0] < 0:
                raise Undefined('sqrt of negative')
            return math.sqrt(args[0])
        if lang == 'py':
            if nm == 'int' and len(args) == 1:
                return int(args[0])
            if nm == 'float' and len(args) == 1:
                return float(args[0])
            if nm == 'len' and len(args) == 1:
                return len(args[0])
            if nm in ('min', 'max') and len(args) >= 2:
                return (min if nm == 'min' else max)(args)
        if fn[0] == 'name' and nm in env and isinstance(env[nm], (list, tuple)) and len(args) == 1:
            # scala array application  table(i)
            try:
                if args[0] < 0:
                    raise IndexError
                return env[nm][args[0]]
            except IndexError:
                raise Undefined(f'{nm}({args[0]}) out of range')
        raise AnalysisError(f'exprir: unsupported call {show(fn)}')
    raise AnalysisError(f'exprir: unsupported node {k}')


def _attr(v: Any, attr: str, lang: str) -> Any:
    if attr == 'toInt':
        if isinstance(v, bool):
            return int(v)
        return _wrap32(int(v)) if isinstance(v, int) else int(v)  # float -> truncation toward zero (in range)
    if attr == 'toDouble':
        return float(v)
    if attr == 'toLong':
        return int(v)
    if attr == 'length' and isinstance(v, (list, tuple)):
        return len(v)
    raise AnalysisError(f'exprir: unsupported attribute .{attr}')


def _binop(op: str, a: Any, b: Any, lang: str) -> Any:
    isint = isinstance(a, int) and isinstance(b, int) and not isinstance(a, bool) and not isinstance(b, bool)
    if op in ('==', '!=', '<', '<=', '>', '>='):
        return {'==': a == b, '!=': a != b, '<': a < b, '<=': a <= b, '>': a > b, '>=': a >= b}[op]
    if lang == 'scala' and isinstance(a, bool) and isinstance(b, bool) and op in ('|', '&'):
        return (a or b) if op == '|' else (a and b)
    if op == '+':
        r = a + b
    elif op == '-':
        r = a - b
    elif op == '*':
        r = a * b
    elif op == '**' and lang == 'py':
        if not isint or b < 0 or b > 256:
            raise AnalysisError('exprir: pow out of the analysed range')
        r = a**b
    elif op == '//' and lang == 'py':
        if b == 0:
            raise Undefined('division by zero')
        r = a // b
    elif op == '/':
        if b == 0:
            raise Undefined('division by zero')
        if lang == 'scala' and isint:
            q = abs(a) // abs(b)
            r = q if (a >= 0) == (b >= 0) else -q
        else:
            r = a / b
    elif op == '%':
        if b == 0:
            raise Undefined('division by zero')
        if lang == 'scala' and isint:
            r = int(math.fmod(a, b))
        else:
            r = a % b
    elif op in ('<<', '>>', '>>>', '|', '&', '^'):
        if not isint:
            raise AnalysisError(f'exprir: bit operator {op} on non-integers')
        if lang == 'scala':
            if op in ('<<', '>>', '>>>'):
                b &= 31
            if op == '<<':
                r = a << b
            elif op == '>>':
                r = _wrap32(a) >> b
            elif op == '>>>':
                r = (a & 0xFFFFFFFF) >> b
            elif op == '|':
                r = a | b
            elif op == '&':
                r = a & b
            else:
                r = a ^ b
        else:
            if op == '>>>':
                raise AnalysisError('exprir: >>> in Python')
            if op in ('<<', '>>') and (b < 0 or b > 256):
                raise Undefined('shift count out of range')
            r = {'<<': lambda: a << b, '>>': lambda: a >> b, '|': lambda: a | b, '&': lambda: a & b, '^': lambda: a ^ b}[op]()
    else:
        raise AnalysisError(f'exprir: unsupported operator {op} for {lang}')
    if lang == 'scala' and isinstance(r, int) and not isinstance(r, bool):
        r = _wrap32(r)
    return r


# --------------------------------------------------------------------------------------
# bit-field recognition
# --------------------------------------------------------------------------------------


def shift_mask(e: tuple, var: str) -> Optional[Tuple[int, Optional[int]]]:
    """Recognise a field extraction from `var`:  var | var >> s | var >>> s | (<those>) & m  ->  (shift, mask or None)."""
    if e[0] == 'name' and e[1] == var:
        return (0, None)
    if e[0] == 'bin' and e[1] in ('>>', '>>>') and e[2] == ('name', var) and e[3][0] == 'int':
        return (e[3][1], None)
    if e[0] == 'bin' and e[1] == '&':
        for x, mk in ((e[2], e[3]), (e[3], e[2])):
            if mk[0] == 'int':
                inner = shift_mask(x, var)
                if inner is not None and inner[1] is None:
                    return (inner[0], mk[1])
    return None


def bool_field(e: tuple, var: str) -> Optional[Tuple[int, int]]:
    """`(var [>> s]) & m) == m` / `!= 0`  -> (shift, mask) of a flag test (true iff the masked bits equal the mask)."""
    if e[0] == 'bin' and e[1] in ('==', '!='):
        for x, c in ((e[2], e[3]), (e[3], e[2])):
            if c[0] == 'int':
                sm = shift_mask(x, var)
                if sm is not None and sm[1] is not None:
                    if e[1] == '==' and c[1] == sm[1] and sm[1] & (sm[1] - 1) == 0:
                        return (sm[0], sm[1])
                    if e[1] == '!=' and c[1] == 0 and sm[1] & (sm[1] - 1) == 0:
                        return (sm[0], sm[1])
    return None


def placed(e: tuple) -> Optional[Tuple[tuple, int]]:
    """`X << s` -> (X, s);  anything else -> (e, 0)."""
    if e[0] == 'bin' and e[1] == '<<' and e[3][0] == 'int':
        return (e[2], e[3][1])
    return (e, 0)
