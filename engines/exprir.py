"""A tiny common expression IR for Python `ast` expressions and the Scala subset of engines/scalalite_enc.py,
with a concrete integer/float evaluator.  Used to compare bit layouts and index formulas across the two languages
(C34, parts of C33).  Only *extracted* expression trees are evaluated; repository code is never imported or run.

IR (same tuples as scalalite_enc): ('int', n) ('float', x) ('bool', b) ('name', dotted) ('bin', op, l, r) ('un', op, e)
('call', fn, [(kw, e)...], None) ('sel', e, attr) ('index', e, i) ('if', c, a, b) ('list', [e...])
"""
from __future__ import annotations

import ast
import math
from typing import Any, Callable, Dict, List, Optional, Tuple

from . import pyfacts as pf
from . import scalalite_enc as S
from .common import AnalysisError

_PY_BIN = {ast.Add: '+', ast.Sub: '-', ast.Mult: '*', ast.FloorDiv: '//', ast.Div: '/', ast.LShift: '<<', ast.RShift: '>>',
           ast.BitOr: '|', ast.BitAnd: '&', ast.BitXor: '^', ast.Pow: '**', ast.Mod: '%'}
_PY_CMP = {ast.Eq: '==', ast.NotEq: '!=', ast.Lt: '<', ast.LtE: '<=', ast.Gt: '>', ast.GtE: '>='}


def from_py(e: ast.AST) -> tuple:
    if isinstance(e, ast.Constant):
        if isinstance(e.value, bool):
            return ('bool', e.value)
        if isinstance(e.value, int):
            return ('int', e.value)
        if isinstance(e.value, float):
            return ('float', e.value)
        if isinstance(e.value, str):
            return ('str', e.value)
        raise AnalysisError(f'exprir: unsupported constant {e.value!r}')
    if isinstance(e, ast.Name):
        return ('name', e.id)
    if isinstance(e, ast.Attribute):
        d = pf.dotted(e)
        if d is not None:
            return ('name', d)
        return ('sel', from_py(e.value), e.attr)
    if isinstance(e, ast.BinOp) and type(e.op) in _PY_BIN:
        return ('bin', _PY_BIN[type(e.op)], from_py(e.left), from_py(e.right))
    if isinstance(e, ast.UnaryOp):
        if isinstance(e.op, ast.USub):
            return ('un', '-', from_py(e.operand))
        if isinstance(e.op, ast.Not):
            return ('un', '!', from_py(e.operand))
        if isinstance(e.op, ast.Invert):
            return ('un', '~', from_py(e.operand))
    if isinstance(e, ast.Compare) and len(e.ops) == 1 and type(e.ops[0]) in _PY_CMP:
        return ('bin', _PY_CMP[type(e.ops[0])], from_py(e.left), from_py(e.comparators[0]))
    if isinstance(e, ast.Compare) and all(type(o) in _PY_CMP for o in e.ops):
        parts = []
        left = e.left
        for o, r in zip(e.ops, e.comparators):
            parts.append(('bin', _PY_CMP[type(o)], from_py(left), from_py(r)))
            left = r
        out = parts[0]
        for p in parts[1:]:
            out = ('bin', '&&', out, p)
        return out
    if isinstance(e, ast.BoolOp):
        op = '&&' if isinstance(e.op, ast.And) else '||'
        out = from_py(e.values[0])
        for v in e.values[1:]:
            out = ('bin', op, out, from_py(v))
        return out
    if isinstance(e, ast.Call):
        return ('call', from_py(e.func), [(None, from_py(a)) for a in e.args] + [(k.arg, from_py(k.value)) for k in e.keywords], None)
    if isinstance(e, ast.Subscript):
        return ('index', from_py(e.value), from_py(e.slice))
    if isinstance(e, ast.IfExp):
        return ('if', from_py(e.test), from_py(e.body), from_py(e.orelse))
    if isinstance(e, (ast.List, ast.Tuple)):
        return ('list', [from_py(x) for x in e.elts])
    raise AnalysisError(f'exprir: unsupported Python expression `{pf.nsrc(e)[:80]}`')


def from_scala(e: tuple) -> tuple:
    """Normalise a scalalite_enc tree: strip parens, turn selector chains on plain names into dotted names."""
    e = S.strip(e)
    return _norm_scala(e)


def _norm_scala(e: Any) -> Any:
    if isinstance(e, list):
        return [_norm_scala(x) for x in e]
    if not isinstance(e, tuple):
        return e
    if e and e[0] == 'sel':
        d = S.dotted(e)
        if d is not None:
            return ('name', d)
        return ('sel', _norm_scala(e[1]), e[2])
    if e and e[0] == 'call':
        return ('call', _norm_scala(e[1]), [(k, _norm_scala(a)) for k, a in e[2]], _norm_scala(e[3]) if e[3] is not None else None)
    return tuple(_norm_scala(x) for x in e)


def names(e: Any) -> List[str]:
    out = []
    for n in S.walk(e):
        if n and n[0] == 'name':
            out.append(n[1])
    return out


def show(e: Any) -> str:
    return S.show(e)


# --------------------------------------------------------------------------------------
# evaluation
# --------------------------------------------------------------------------------------


def _wrap32(v: int) -> int:
    v &= 0xFFFFFFFF
    return v - (1 << 32) if v >= (1 << 31) else v


class Undefined(Exception):
    """Evaluation hit an assertion/`fatal`/out-of-domain operation (the modelled program would raise)."""


def ev(e: tuple, env: Dict[str, Any], lang: str, funcs: Optional[Dict[str, Callable[..., Any]]] = None) -> Any:
    """Concrete value of an IR expression.  lang='py': unbounded ints, // floors, / is true division, >> arithmetic.
    lang='scala': 32-bit wrapped Int arithmetic, / truncates on ints, >>> logical, .toInt truncates, .toDouble widens."""
    funcs = funcs or {}
    k = e[0]
    if k in ('int', 'float', 'bool'):
        return e[1]
    if k == 'name':
        nm = e[1]
        if nm in env:
            return env[nm]
        # scala postfix conversions on a name:  x.toInt / x.toDouble / x.length
        if '.' in nm:
            base, attr = nm.rsplit('.', 1)
            if base in env:
                return _attr(env[base], attr, lang)
        raise AnalysisError(f'exprir: unbound name {nm}')
    if k == 'sel':
        return _attr(ev(e[1], env, lang, funcs), e[2], lang)
    if k == 'un':
        v = ev(e[2], env, lang, funcs)
        if e[1] == '-':
            return -v
        if e[1] == '!':
            return not v
        if e[1] == '~':
            return ~v
        if e[1] == '+':
            return v
    if k == 'if':
        return ev(e[2], env, lang, funcs) if ev(e[1], env, lang, funcs) else ev(e[3], env, lang, funcs)
    if k == 'list':
        return [ev(x, env, lang, funcs) for x in e[1]]
    if k == 'index':
        base = ev(e[1], env, lang, funcs)
        i = ev(e[2], env, lang, funcs)
        try:
            return base[i]
        except (IndexError, TypeError, KeyError):
            raise Undefined(f'index {i} out of range')
    if k == 'bin':
        op = e[1]
        if op == '&&':
            return bool(ev(e[2], env, lang, funcs)) and bool(ev(e[3], env, lang, funcs))
        if op == '||':
            return bool(ev(e[2], env, lang, funcs)) or bool(ev(e[3], env, lang, funcs))
        a = ev(e[2], env, lang, funcs)
        b = ev(e[3], env, lang, funcs)
        return _binop(op, a, b, lang)
    if k == 'call':
        fn = e[1]
        nm = fn[1] if fn[0] == 'name' else None
        args = [ev(a, env, lang, funcs) for _, a in e[2]]
        if nm is not None and nm in funcs:
            return funcs[nm](*args)
        if nm in ('math.sqrt', 'Math.sqrt', 'math.sqrt', 'scala.math.sqrt') and len(args) == 1:
            if args[0] < 0:
                raise Undefined('sqrt of negative')
            return math.sqrt(args[0])
        if lang == 'py':
            if nm == 'int' and len(args) == 1:
                return int(args[0])
            if nm == 'float' and len(args) == 1:
                return float(args[0])
            if nm == 'len' and len(args) == 1:
                return len(args[0])
            if nm in ('min', 'max') and len(args) >= 2:
                return (min if nm == 'min' else max)(args)
        if fn[0] == 'name' and nm in env and isinstance(env[nm], (list, tuple)) and len(args) == 1:
            # scala array application  table(i)
            try:
                if args[0] < 0:
                    raise IndexError
                return env[nm][args[0]]
            except IndexError:
                raise Undefined(f'{nm}({args[0]}) out of range')
        raise AnalysisError(f'exprir: unsupported call {show(fn)}')
    raise AnalysisError(f'exprir: unsupported node {k}')


def _attr(v: Any, attr: str, lang: str) -> Any:
    if attr == 'toInt':
        if isinstance(v, bool):
            return int(v)
        return _wrap32(int(v)) if isinstance(v, int) else int(v)  # float -> truncation toward zero (in range)
    if attr == 'toDouble':
        return float(v)
    if attr == 'toLong':
        return int(v)
    if attr == 'length' and isinstance(v, (list, tuple)):
        return len(v)
    raise AnalysisError(f'exprir: unsupported attribute .{attr}')


def _binop(op: str, a: Any, b: Any, lang: str) -> Any:
    isint = isinstance(a, int) and isinstance(b, int) and not isinstance(a, bool) and not isinstance(b, bool)
    if op in ('==', '!=', '<', '<=', '>', '>='):
        return {'==': a == b, '!=': a != b, '<': a < b, '<=': a <= b, '>': a > b, '>=': a >= b}[op]
    if lang == 'scala' and isinstance(a, bool) and isinstance(b, bool) and op in ('|', '&'):
        return (a or b) if op == '|' else (a and b)
    if op == '+':
        r = a + b
    elif op == '-':
        r = a - b
    elif op == '*':
        r = a * b
    elif op == '**' and lang == 'py':
        if not isint or b < 0 or b > 256:
            raise AnalysisError('exprir: pow out of the analysed range')
        r = a**b
    elif op == '//' and lang == 'py':
        if b == 0:
            raise Undefined('division by zero')
        r = a // b
    elif op == '/':
        if b == 0:
            raise Undefined('division by zero')
        if lang == 'scala' and isint:
            q = abs(a) // abs(b)
            r = q if (a >= 0) == (b >= 0) else -q
        else:
            r = a / b
    elif op == '%':
        if b == 0:
            raise Undefined('division by zero')
        if lang == 'scala' and isint:
            r = int(math.fmod(a, b))
        else:
            r = a % b
    elif op in ('<<', '>>', '>>>', '|', '&', '^'):
        if not isint:
            raise AnalysisError(f'exprir: bit operator {op} on non-integers')
        if lang == 'scala':
            if op in ('<<', '>>', '>>>'):
                b &= 31
            if op == '<<':
                r = a << b
            elif op == '>>':
                r = _wrap32(a) >> b
            elif op == '>>>':
                r = (a & 0xFFFFFFFF) >> b
            elif op == '|':
                r = a | b
            elif op == '&':
                r = a & b
            else:
                r = a ^ b
        else:
            if op == '>>>':
                raise AnalysisError('exprir: >>> in Python')
            if op in ('<<', '>>') and (b < 0 or b > 256):
                raise Undefined('shift count out of range')
            r = {'<<': lambda: a << b, '>>': lambda: a >> b, '|': lambda: a | b, '&': lambda: a & b, '^': lambda: a ^ b}[op]()
    else:
        raise AnalysisError(f'exprir: unsupported operator {op} for {lang}')
    if lang == 'scala' and isinstance(r, int) and not isinstance(r, bool):
        r = _wrap32(r)
    return r


# --------------------------------------------------------------------------------------
# bit-field recognition
# --------------------------------------------------------------------------------------


def shift_mask(e: tuple, var: str) -> Optional[Tuple[int, Optional[int]]]:
    """Recognise a field extraction from `var`:  var | var >> s | var >>> s | (<those>) & m  ->  (shift, mask or None)."""
    if e[0] == 'name' and e[1] == var:
        return (0, None)
    if e[0] == 'bin' and e[1] in ('>>', '>>>') and e[2] == ('name', var) and e[3][0] == 'int':
        return (e[3][1], None)
    if e[0] == 'bin' and e[1] == '&':
        for x, mk in ((e[2], e[3]), (e[3], e[2])):
            if mk[0] == 'int':
                inner = shift_mask(x, var)
                if inner is not None and inner[1] is None:
                    return (inner[0], mk[1])
    return None


def bool_field(e: tuple, var: str) -> Optional[Tuple[int, int]]:
    """`(var [>> s]) & m) == m` / `!= 0`  -> (shift, mask) of a flag test (true iff the masked bits equal the mask)."""
    if e[0] == 'bin' and e[1] in ('==', '!='):
        for x, c in ((e[2], e[3]), (e[3], e[2])):
            if c[0] == 'int':
                sm = shift_mask(x, var)
                if sm is not None and sm[1] is not None:
                    if e[1] == '==' and c[1] == sm[1] and sm[1] & (sm[1] - 1) == 0:
                        return (sm[0], sm[1])
                    if e[1] == '!=' and c[1] == 0 and sm[1] & (sm[1] - 1) == 0:
                        return (sm[0], sm[1])
    return None


def placed(e: tuple) -> Optional[Tuple[tuple, int]]:
    """`X << s` -> (X, s);  anything else -> (e, 0)."""
    if e[0] == 'bin' and e[1] == '<<' and e[3][0] == 'int':
        return (e[2], e[3][1])
    return (e, 0)


# --------------------------------------------------------------------------------------
# a concrete interpreter for small extracted Python functions (never Python's own eval/exec)
# --------------------------------------------------------------------------------------
#
# Used to evaluate a whole converter body (statements, early returns, nested helper functions, module-level helpers and tables)
# on chosen inputs, so that rules compare *behaviour on a finite domain* instead of one particular statement shape.


class PyRaise(Exception):
    """The interpreted program raises (assert, raise, IndexError, struct.error, ...)."""


class _PyReturn(Exception):
    def __init__(self, value: Any):
        self.value = value


class _PyBreak(Exception):
    pass


class _PyContinue(Exception):
    pass


class PyObj:
    """Attribute bag standing for an object of the modelled program (e.g. a Call value with .alleles/.ploidy/.phased)."""

    def __init__(self, kind: str, **attrs: Any):
        self.kind = kind
        self.attrs = attrs
        self.methods: Dict[str, Callable[..., Any]] = {}
        self.cls: Optional['PyClass'] = None

    def __repr__(self) -> str:
        return f'{self.kind}({", ".join(f"{k}={v!r}" for k, v in self.attrs.items())})'


class PyClass:
    """A class of the interpreted module: calling it builds a PyObj and runs the class's own __init__ through the interpreter."""

    def __init__(self, interp: 'PyInterp', cdef: ast.ClassDef):
        self.interp, self.cdef = interp, cdef
        self.name = cdef.name

    def lookup(self, name: str, seen: Tuple[str, ...] = ()) -> Optional[ast.AST]:
        found = None
        for st in self.cdef.body:
            if isinstance(st, (ast.FunctionDef, ast.AsyncFunctionDef)) and st.name == name:
                found = st
            elif isinstance(st, ast.Assign) and any(isinstance(t, ast.Name) and t.id == name for t in st.targets):
                found = st
            elif isinstance(st, ast.AnnAssign) and isinstance(st.target, ast.Name) and st.target.id == name and st.value is not None:
                found = st
        if found is not None:
            return found
        for b in self.cdef.bases:
            d = pf.dotted(b)
            if d in self.interp._top_classes and d not in seen and d != self.name:
                r = PyClass(self.interp, self.interp._top_classes[d]).lookup(name, seen + (self.name,))
                if r is not None:
                    return r
        return None

    def member(self, name: str, obj: Optional['PyObj'], node: ast.AST) -> Any:
        """value of attribute `name` looked up on the class (obj = the instance it is accessed through, or None)"""
        d = self.lookup(name)
        if d is None:
            self.interp.fail(node, f'class {self.name} has no member `{name}` in {self.interp.m.rel}')
        if isinstance(d, (ast.Assign, ast.AnnAssign)):
            return self.interp.expr(d.value, _Env(None))
        decos = pf.decorator_names(d)
        clo = PyClosure(self.interp, d, None)
        if 'staticmethod' in decos:
            return clo
        if 'classmethod' in decos:
            return lambda *a, **k: clo(self, *a, **k)
        if obj is None:
            return clo
        if 'property' in decos or 'functools.cached_property' in decos or 'cached_property' in decos:
            return clo(obj)
        return lambda *a, **k: clo(obj, *a, **k)

    def __call__(self, *args: Any, **kwargs: Any) -> 'PyObj':
        obj = PyObj(self.name)
        obj.cls = self
        if self.lookup('__init__') is not None:
            self.member('__init__', obj, self.cdef)(*args, **kwargs)
        return obj


class PyClosure:
    def __init__(self, interp: 'PyInterp', fn: ast.FunctionDef, env: Optional['_Env']):
        self.interp, self.fn, self.env = interp, fn, env

    def __call__(self, *args: Any, **kwargs: Any) -> Any:
        return self.interp.call_function(self.fn, list(args), kwargs, self.env)


class _Env:
    def __init__(self, parent: Optional['_Env']):
        self.vars: Dict[str, Any] = {}
        self.parent = parent

    def lookup(self, name: str) -> Tuple[bool, Any]:
        e: Optional[_Env] = self
        while e is not None:
            if name in e.vars:
                return True, e.vars[name]
            e = e.parent
        return False, None


_MATH = {'sqrt': math.sqrt, 'floor': math.floor, 'ceil': math.ceil, 'isqrt': math.isqrt, 'log2': math.log2}


class PyInterp:
    def __init__(self, m: pf.Module, externals: Optional[Dict[str, Any]] = None, max_steps: int = 400000):
        self.m = m
        self.externals = externals or {}   # dotted name -> value / callable (e.g. 'genetics.Call')
        self.max_steps = max_steps
        self.steps = 0
        self._globals: Dict[str, Any] = {}
        self._top_funcs = {f.name: f for f in m.tree.body if isinstance(f, ast.FunctionDef)}
        self._top_classes = {c.name: c for c in m.tree.body if isinstance(c, ast.ClassDef)}

    def fail(self, node: Optional[ast.AST], msg: str):
        raise AnalysisError(f'{self.m.rel} (line {getattr(node, "lineno", 0)}): interpreter: {msg}')

    # ---- names -------------------------------------------------------------------
    def global_value(self, name: str, node: ast.AST) -> Any:
        if name in self._globals:
            return self._globals[name]
        if name in self._top_funcs:
            v: Any = PyClosure(self, self._top_funcs[name], None)
        elif name in self._top_classes:
            v = PyClass(self, self._top_classes[name])
        elif name in self.m.imports():
            v = PyObj('import:' + name)   # an imported name: opaque (only usable where the interpreter special-cases it, e.g. isinstance)
        else:
            try:
                e = self.m.global_assign(name)
            except AnalysisError:
                self.fail(node, f'unbound name `{name}`')
            v = self.expr(e, _Env(None))
        self._globals[name] = v
        return v

    def call_function(self, fn: ast.FunctionDef, args: List[Any], kwargs: Dict[str, Any], closure_env: Optional[_Env]) -> Any:
        a = fn.args
        if a.vararg or a.kwarg or a.posonlyargs:
            self.fail(fn, f'{fn.name}: star parameters')
        env = _Env(closure_env)
        params = [x.arg for x in a.args]
        if len(args) > len(params):
            raise PyRaise(f'TypeError: {fn.name}() takes {len(params)} positional arguments but {len(args)} were given')
        for p, v in zip(params, args):
            env.vars[p] = v
        defaults = dict(zip(params[len(params) - len(a.defaults):], a.defaults))
        for p, d in zip([x.arg for x in a.kwonlyargs], a.kw_defaults):
            if d is not None:
                defaults[p] = d
        for k, v in kwargs.items():
            if k in env.vars or k not in params + [x.arg for x in a.kwonlyargs]:
                raise PyRaise(f'TypeError: {fn.name}() got an unexpected or duplicate keyword argument {k!r}')
            env.vars[k] = v
        for p in params + [x.arg for x in a.kwonlyargs]:
            if p not in env.vars:
                if p not in defaults:
                    raise PyRaise(f'TypeError: {fn.name}() missing argument {p!r}')
                env.vars[p] = self.expr(defaults[p], _Env(closure_env))
        try:
            self.block(fn.body, env)
        except _PyReturn as r:
            return r.value
        return None

    # ---- statements -----------------------------------------------------------------
    def block(self, stmts: List[ast.stmt], env: _Env) -> None:
        for st in stmts:
            self.stmt(st, env)

    def tick(self, node: ast.AST):
        self.steps += 1
        if self.steps > self.max_steps:
            self.fail(node, 'evaluation does not terminate')

    def assign(self, t: ast.AST, v: Any, env: _Env) -> None:
        if isinstance(t, ast.Name):
            env.vars[t.id] = v
        elif isinstance(t, (ast.Tuple, ast.List)):
            try:
                vals = list(v)
            except TypeError:
                raise PyRaise('TypeError: cannot unpack')
            if len(vals) != len(t.elts):
                raise PyRaise(f'ValueError: unpacking {len(vals)} values into {len(t.elts)} targets')
            for x, y in zip(t.elts, vals):
                self.assign(x, y, env)
        elif isinstance(t, ast.Subscript):
            base = self.expr(t.value, env)
            idx = self.expr(t.slice, env)
            if isinstance(base, (list, dict)):
                try:
                    base[idx] = v
                except (IndexError, TypeError, KeyError) as ex:
                    raise PyRaise(f'{type(ex).__name__}: {ex}')
            else:
                self.fail(t, 'store into an unsupported container')
        elif isinstance(t, ast.Attribute):
            base = self.expr(t.value, env)
            if isinstance(base, PyObj):
                base.attrs[t.attr] = v
            else:
                self.fail(t, f'attribute store on `{pf.nsrc(t.value)[:40]}`')
        else:
            self.fail(t, f'unsupported assignment target `{pf.nsrc(t)[:40]}`')

    def stmt(self, st: ast.stmt, env: _Env) -> None:
        self.tick(st)
        if isinstance(st, ast.FunctionDef):
            env.vars[st.name] = PyClosure(self, st, env)
        elif isinstance(st, (ast.Pass, ast.Import, ast.ImportFrom)):
            return
        elif isinstance(st, ast.Expr):
            if isinstance(st.value, ast.Constant):
                return
            self.expr(st.value, env)
        elif isinstance(st, ast.Assign):
            v = self.expr(st.value, env)
            for t in st.targets:
                self.assign(t, v, env)
        elif isinstance(st, ast.AnnAssign):
            if st.value is not None:
                self.assign(st.target, self.expr(st.value, env), env)
        elif isinstance(st, ast.AugAssign):
            cur = self.expr(st.target, env)
            v = self.binop(st, type(st.op), cur, self.expr(st.value, env))
            self.assign(st.target, v, env)
        elif isinstance(st, ast.If):
            self.block(st.body if self.expr(st.test, env) else st.orelse, env)
        elif isinstance(st, ast.While):
            n = 0
            while self.expr(st.test, env):
                n += 1
                if n > 100000:
                    self.fail(st, 'loop does not terminate')
                try:
                    self.block(st.body, env)
                except _PyBreak:
                    break
                except _PyContinue:
                    continue
        elif isinstance(st, ast.For):
            for item in self.iterate(self.expr(st.iter, env), st.iter):
                self.assign(st.target, item, env)
                try:
                    self.block(st.body, env)
                except _PyBreak:
                    break
                except _PyContinue:
                    continue
        elif isinstance(st, ast.Return):
            raise _PyReturn(self.expr(st.value, env) if st.value is not None else None)
        elif isinstance(st, ast.Raise):
            raise PyRaise('raise ' + (pf.nsrc(st.exc)[:80] if st.exc is not None else ''))
        elif isinstance(st, ast.Assert):
            if not self.expr(st.test, env):
                raise PyRaise('AssertionError: ' + pf.nsrc(st.test)[:80])
        elif isinstance(st, ast.Break):
            raise _PyBreak()
        elif isinstance(st, ast.Continue):
            raise _PyContinue()
        else:
            self.fail(st, f'unsupported statement {type(st).__name__}')

    def iterate(self, v: Any, node: ast.AST) -> List[Any]:
        if isinstance(v, (list, tuple, range, str)):
            return list(v)
        self.fail(node, f'cannot iterate over `{pf.nsrc(node)[:40]}`')
        return []

    # ---- expressions ---------------------------------------------------------------------
    def binop(self, node: ast.AST, op: type, a: Any, b: Any) -> Any:
        num = (int, float)
        try:
            if op in (ast.LShift, ast.RShift, ast.BitOr, ast.BitAnd, ast.BitXor):
                if not (isinstance(a, int) and isinstance(b, int)):
                    raise PyRaise(f'TypeError: bit operator on {type(a).__name__}, {type(b).__name__} in `{pf.nsrc(node)[:60]}`')
                if op in (ast.LShift, ast.RShift) and (b < 0 or b > 4096):
                    raise PyRaise('ValueError: shift count')
                return {ast.LShift: lambda: a << b, ast.RShift: lambda: a >> b, ast.BitOr: lambda: a | b, ast.BitAnd: lambda: a & b, ast.BitXor: lambda: a ^ b}[op]()
            if op is ast.Add and isinstance(a, (list, tuple, str)) and isinstance(b, type(a)):
                return a + b
            if op is ast.Mult and isinstance(a, (list, tuple)) and isinstance(b, int):
                return a * b
            if not (isinstance(a, num) and isinstance(b, num)):
                raise PyRaise(f'TypeError: arithmetic on {type(a).__name__}, {type(b).__name__} in `{pf.nsrc(node)[:60]}`')
            if op is ast.Pow:
                if isinstance(b, int) and abs(b) > 4096:
                    self.fail(node, 'power out of the analysed range')
                return a ** b
            return {ast.Add: lambda: a + b, ast.Sub: lambda: a - b, ast.Mult: lambda: a * b, ast.FloorDiv: lambda: a // b, ast.Div: lambda: a / b, ast.Mod: lambda: a % b}[op]()
        except KeyError:
            self.fail(node, 'unsupported operator')
        except (ZeroDivisionError, OverflowError, ValueError) as ex:
            raise PyRaise(f'{type(ex).__name__}: {ex}')

    def expr(self, e: ast.AST, env: _Env) -> Any:
        self.tick(e)
        if isinstance(e, ast.Constant):
            return e.value
        if isinstance(e, ast.Name):
            ok, v = env.lookup(e.id)
            if ok:
                return v
            if e.id in self.externals:
                return self.externals[e.id]
            if e.id in _BUILTINS:
                return _BUILTINS[e.id]
            return self.global_value(e.id, e)
        if isinstance(e, (ast.List, ast.Tuple)):
            vals = [self.expr(x, env) for x in e.elts]
            return vals if isinstance(e, ast.List) else tuple(vals)
        if isinstance(e, ast.Attribute):
            d = pf.dotted(e)
            if d is not None and d in self.externals:
                return self.externals[d]
            if d is not None and d.startswith('math.') and d[5:] in _MATH:
                return _MATH[d[5:]]
            base = self.expr(e.value, env)
            if isinstance(base, PyObj):
                if e.attr in base.attrs:
                    return base.attrs[e.attr]
                if e.attr in base.methods:
                    return base.methods[e.attr]
                if base.kind == 'super':
                    return lambda *a, **k: None
                if base.cls is not None:
                    return base.cls.member(e.attr, base, e)
                self.fail(e, f'object {base.kind} has no modelled attribute `{e.attr}`')
            if isinstance(base, PyClass):
                return base.member(e.attr, None, e)
            self.fail(e, f'unsupported attribute `{pf.nsrc(e)[:60]}`')
        if isinstance(e, ast.Subscript):
            base = self.expr(e.value, env)
            if isinstance(e.slice, ast.Slice):
                lo = self.expr(e.slice.lower, env) if e.slice.lower is not None else None
                hi = self.expr(e.slice.upper, env) if e.slice.upper is not None else None
                stp = self.expr(e.slice.step, env) if e.slice.step is not None else None
                if isinstance(base, (list, tuple, str)):
                    return base[lo:hi:stp]
                self.fail(e, 'slice of an unsupported value')
            idx = self.expr(e.slice, env)
            if isinstance(base, PyObj) and base.cls is not None and base.cls.lookup('__getitem__') is not None:
                return base.cls.member('__getitem__', base, e)(idx)
            if isinstance(base, (list, tuple, str, dict)):
                try:
                    return base[idx]
                except (IndexError, KeyError, TypeError) as ex:
                    raise PyRaise(f'{type(ex).__name__}: `{pf.nsrc(e)[:50]}` with index {idx!r}')
            self.fail(e, f'unsupported subscript `{pf.nsrc(e)[:60]}`')
        if isinstance(e, ast.UnaryOp):
            v = self.expr(e.operand, env)
            if isinstance(e.op, ast.Not):
                return not v
            if isinstance(v, (int, float)):
                if isinstance(e.op, ast.USub):
                    return -v
                if isinstance(e.op, ast.UAdd):
                    return +v
                if isinstance(e.op, ast.Invert) and isinstance(v, int):
                    return ~v
            raise PyRaise('TypeError: unary operator')
        if isinstance(e, ast.BinOp):
            return self.binop(e, type(e.op), self.expr(e.left, env), self.expr(e.right, env))
        if isinstance(e, ast.BoolOp):
            res: Any = None
            for v in e.values:
                res = self.expr(v, env)
                if isinstance(e.op, ast.And) and not res:
                    return res
                if isinstance(e.op, ast.Or) and res:
                    return res
            return res
        if isinstance(e, ast.Compare):
            left = self.expr(e.left, env)
            for op, c in zip(e.ops, e.comparators):
                right = self.expr(c, env)
                try:
                    ok = {ast.Eq: lambda: left == right, ast.NotEq: lambda: left != right, ast.Lt: lambda: left < right, ast.LtE: lambda: left <= right,
                          ast.Gt: lambda: left > right, ast.GtE: lambda: left >= right, ast.Is: lambda: left is right, ast.IsNot: lambda: left is not right,
                          ast.In: lambda: left in right, ast.NotIn: lambda: left not in right}[type(op)]()
                except TypeError as ex:
                    raise PyRaise(f'TypeError: {ex}')
                if not ok:
                    return False
                left = right
            return True
        if isinstance(e, ast.IfExp):
            return self.expr(e.body, env) if self.expr(e.test, env) else self.expr(e.orelse, env)
        if isinstance(e, (ast.ListComp, ast.GeneratorExp)):
            out: List[Any] = []
            inner = _Env(env)

            def gen(i: int):
                if i == len(e.generators):
                    out.append(self.expr(e.elt, inner))
                    return
                g = e.generators[i]
                for item in self.iterate(self.expr(g.iter, inner), g.iter):
                    self.assign(g.target, item, inner)
                    if all(self.expr(c, inner) for c in g.ifs):
                        gen(i + 1)
            gen(0)
            return out
        if isinstance(e, ast.Call) and isinstance(e.func, ast.Name) and e.func.id == 'isinstance' and len(e.args) == 2 and not env.lookup('isinstance')[0]:
            v = self.expr(e.args[0], env)
            names = [pf.dotted(x) for x in (e.args[1].elts if isinstance(e.args[1], ast.Tuple) else [e.args[1]])]
            table = {'int': lambda x: isinstance(x, int) and not isinstance(x, bool), 'bool': lambda x: isinstance(x, bool), 'float': lambda x: isinstance(x, float),
                     'str': lambda x: isinstance(x, str), 'list': lambda x: isinstance(x, list), 'tuple': lambda x: isinstance(x, tuple),
                     'Sequence': lambda x: isinstance(x, (list, tuple, str)), 'abc.Sequence': lambda x: isinstance(x, (list, tuple, str)),
                     'collections.abc.Sequence': lambda x: isinstance(x, (list, tuple, str))}
            res = False
            for n in names:
                if n in table:
                    res = res or table[n](v)
                elif n is not None and isinstance(v, PyObj) and v.cls is not None:
                    res = res or v.cls.name == n.split('.')[-1]
                else:
                    res = True  # a type outside the table: values are assumed well-typed
            return res
        if isinstance(e, ast.Call):
            f = self.expr(e.func, env)
            args = []
            for a in e.args:
                if isinstance(a, ast.Starred):
                    args += self.iterate(self.expr(a.value, env), a)
                else:
                    args.append(self.expr(a, env))
            kwargs = {}
            for k in e.keywords:
                if k.arg is None:
                    self.fail(e, '** arguments')
                kwargs[k.arg] = self.expr(k.value, env)
            if not callable(f):
                raise PyRaise(f'TypeError: `{pf.nsrc(e.func)[:40]}` is not callable')
            try:
                return f(*args, **kwargs)
            except (PyRaise, AnalysisError, _PyReturn, _PyBreak, _PyContinue):
                raise
            except (TypeError, ValueError, OverflowError, ZeroDivisionError, IndexError) as ex:
                raise PyRaise(f'{type(ex).__name__}: {ex} in `{pf.nsrc(e)[:60]}`')
        if isinstance(e, ast.JoinedStr):
            return '<f-string>'
        self.fail(e, f'unsupported expression `{pf.nsrc(e)[:60]}`')


def _b_int(x: Any = 0) -> int:
    if isinstance(x, (int, float, bool)):
        return int(x)
    if isinstance(x, str):
        return int(x)
    raise TypeError('int() of an unsupported value')


def _b_float(x: Any = 0.0) -> float:
    if isinstance(x, (int, float, bool, str)):
        return float(x)
    raise TypeError('float() of an unsupported value')


def _b_len(x: Any) -> int:
    if isinstance(x, PyObj):
        if x.cls is not None and x.cls.lookup('__len__') is not None:
            return x.cls.member('__len__', x, x.cls.cdef)()
        raise TypeError(f'object of type {x.kind} has no len()')
    return len(x)


_BUILTINS: Dict[str, Any] = {
    'int': _b_int, 'float': _b_float, 'bool': lambda x=False: bool(x), 'len': _b_len, 'super': lambda *a: PyObj('super'), 'hash': lambda x: 0, 'range': lambda *a: range(*a), 'min': lambda *a: min(*a), 'max': lambda *a: max(*a),
    'abs': lambda x: abs(x), 'list': lambda x=(): list(x), 'tuple': lambda x=(): tuple(x), 'sorted': lambda x: sorted(x), 'divmod': lambda a, b: divmod(a, b),
    'enumerate': lambda x, start=0: list(enumerate(x, start)), 'zip': lambda *a: list(zip(*a)), 'reversed': lambda x: list(reversed(x)), 'sum': lambda x: sum(x),
    'True': True, 'False': False, 'None': None, 'isinstance': lambda *a: True, 'str': lambda x='': str(x) if isinstance(x, (int, str, bool)) else '<str>',
}


# --------------------------------------------------------------------------------------
# symbolic path execution of a small function into IR trees, and a sign / agreeing-low-bits domain over them
# --------------------------------------------------------------------------------------


class SymPath:
    def __init__(self):
        self.conds: List[Tuple[tuple, bool, int]] = []   # (condition tree, branch taken, line)
        self.asserts: List[tuple] = []
        self.writes: List[Tuple[str, tuple, int]] = []   # (stream method, argument tree, line)
        self.end: tuple = ('fall',)                      # ('return', tree | None, line) | ('raise', text, line) | ('fall',)
        self.env: Dict[str, Any] = {}

    def clone(self) -> 'SymPath':
        p = SymPath()
        p.conds, p.asserts, p.writes, p.end, p.env = list(self.conds), list(self.asserts), list(self.writes), self.end, dict(self.env)
        return p


def conj(conds: List[Tuple[tuple, bool, int]]) -> tuple:
    out: Optional[tuple] = None
    for t, pol, _ in conds:
        x = t if pol else ('un', '!', t)
        out = x if out is None else ('bin', '&&', out, x)
    return out if out is not None else ('bool', True)


class SymExec:
    """Executes the statements of a function over IR trees: locals are substituted, `if` forks, nested helper functions are inlined at
    their calls (their own branches become ('if', c, a, b) trees), reads from the byte stream become the symbol named by `word`."""

    def __init__(self, where: str, stream: Optional[str], word: str = '$w', max_paths: int = 256, max_depth: int = 8,
                 resolver: Optional[Callable[[str], Optional[Tuple[ast.FunctionDef, int]]]] = None):
        """resolver(dotted callee name) -> (function definition, number of leading parameters already bound by the call form, e.g. 1 for
        `self.h(...)` on a plain method) for helpers defined outside the function (methods, module-level functions); None = opaque."""
        self.where, self.stream, self.word = where, stream, word
        self.max_paths, self.max_depth = max_paths, max_depth
        self.resolver = resolver
        self.reads: List[Tuple[str, int]] = []

    def fail(self, node: Optional[ast.AST], msg: str):
        raise AnalysisError(f'{self.where} (line {getattr(node, "lineno", 0)}): {msg}')

    # ---- expressions -------------------------------------------------------------
    def tree(self, e: ast.AST, env: Dict[str, Any], depth: int = 0) -> tuple:
        if isinstance(e, ast.Call) and isinstance(e.func, ast.Attribute) and isinstance(e.func.value, ast.Name) and self.stream and e.func.value.id == self.stream:
            if e.func.attr.startswith('read_') and not e.args:
                self.reads.append((e.func.attr, e.lineno))
                return ('name', self.word)
            self.fail(e, f'stream operation `{pf.nsrc(e)[:50]}` in a value position')
        return self.subst(from_py(e), env, e, depth)

    def subst(self, t: Any, env: Dict[str, Any], node: ast.AST, depth: int) -> Any:
        if isinstance(t, list):
            return [self.subst(x, env, node, depth) for x in t]
        if not isinstance(t, tuple) or not t:
            return t
        k = t[0]
        if k == 'name':
            n = t[1]
            if n in env and not isinstance(env[n], _SymClosure):
                return env[n]
            if '.' in n:
                base, rest = n.split('.', 1)
                if base in env and not isinstance(env[base], _SymClosure):
                    out = env[base]
                    for a in rest.split('.'):
                        out = ('sel', out, a)
                    return out
            return t
        if k == 'call':
            fn = t[1]
            args = [(kw, self.subst(a, env, node, depth)) for kw, a in t[2]]
            if fn[0] == 'name' and isinstance(env.get(fn[1]), _SymClosure):
                return self.inline(env[fn[1]], args, env, node, depth)
            fn2 = self.subst(fn, env, node, depth)   # a local alias of a helper (`f = self._helper`) resolves to the helper
            if fn2[0] == 'name' and self.resolver is not None and (fn2 != fn or fn[1].split('.')[0] not in env):
                r = self.resolver(fn2[1])
                if r is not None and depth < self.max_depth:
                    return self.inline(_SymClosure(r[0], skip=r[1], own_scope=True), args, env, node, depth)
            return ('call', fn2, args, None)
        if k in ('int', 'float', 'bool', 'str'):
            return t
        return tuple(self.subst(x, env, node, depth) if isinstance(x, (tuple, list)) else x for x in t)

    def inline(self, clo: '_SymClosure', args: List[Tuple[Optional[str], tuple]], env: Dict[str, Any], node: ast.AST, depth: int) -> tuple:
        if depth >= self.max_depth:
            self.fail(node, f'helper calls nested deeper than {self.max_depth}')
        fn = clo.fn
        a = fn.args
        if a.vararg or a.kwarg or a.posonlyargs or a.kwonlyargs:
            self.fail(fn, f'helper {fn.name} has star / keyword-only parameters')
        params = [x.arg for x in a.args][clo.skip:]
        bound: Dict[str, Any] = {}
        pos = [v for kw, v in args if kw is None]
        if len(pos) > len(params):
            self.fail(node, f'too many arguments for helper {fn.name}')
        for p, v in zip(params, pos):
            bound[p] = v
        for kw, v in args:
            if kw is not None:
                if kw not in params or kw in bound:
                    self.fail(node, f'bad keyword {kw} for helper {fn.name}')
                bound[kw] = v
        defaults = dict(zip(params[len(params) - len(a.defaults):], a.defaults))
        for p in params:
            if p not in bound:
                if p not in defaults:
                    self.fail(node, f'argument {p} of helper {fn.name} unbound')
                bound[p] = from_py(defaults[p])
        # Python closures see the *current* bindings of the enclosing function; functions defined elsewhere only their own parameters
        inner_env = {} if clo.own_scope else dict(env)
        inner_env.update(bound)
        start = SymPath()
        start.env = inner_env
        paths = self.block(fn.body, [start], depth + 1)
        out: Optional[tuple] = None
        for p in reversed(paths):
            if p.writes:
                self.fail(fn, f'helper {fn.name} performs stream output (inlined in a value position)')
            if p.end[0] == 'return' and p.end[1] is not None:
                leaf = p.end[1]
            elif p.end[0] == 'raise':
                leaf = ('raise', p.end[1])
            else:
                leaf = ('name', 'None')
            out = leaf if out is None else ('if', conj(p.conds), leaf, out)
        if out is None:
            self.fail(fn, f'helper {fn.name} has no path')
        return out

    # ---- statements -------------------------------------------------------------------
    def run(self, fn: pf.FuncDef, env: Dict[str, Any]) -> List[SymPath]:
        start = SymPath()
        start.env = dict(env)
        body = [s for s in fn.body if not (isinstance(s, ast.Expr) and isinstance(s.value, ast.Constant))]
        return self.block(body, [start], 0)

    def block(self, stmts: List[ast.stmt], live: List[SymPath], depth: int) -> List[SymPath]:
        done: List[SymPath] = []
        for st in stmts:
            if not live:
                break
            nxt: List[SymPath] = []
            for p in live:
                for q in self.stmt(st, p, depth):
                    (nxt if q.end[0] == 'fall' else done).append(q)
            live = nxt
            if len(live) + len(done) > self.max_paths:
                self.fail(st, 'too many paths')
        return done + live

    def stmt(self, st: ast.stmt, p: SymPath, depth: int) -> List[SymPath]:
        env = p.env
        if isinstance(st, ast.FunctionDef):
            env[st.name] = _SymClosure(st)
            return [p]
        if isinstance(st, (ast.Pass, ast.Import, ast.ImportFrom)):
            return [p]
        if isinstance(st, ast.Expr):
            v = st.value
            if isinstance(v, ast.Constant):
                return [p]
            if isinstance(v, ast.Call) and isinstance(v.func, ast.Attribute) and isinstance(v.func.value, ast.Name) and self.stream and v.func.value.id == self.stream:
                if len(v.args) != 1 or v.keywords:
                    self.fail(st, f'stream operation `{pf.nsrc(v)[:50]}` with unexpected arguments')
                p.writes.append((v.func.attr, self.tree(v.args[0], env, depth), st.lineno))
                return [p]
            self.fail(st, f'expression statement `{pf.nsrc(st)[:60]}` (unrecognised effect)')
        if isinstance(st, (ast.Assign, ast.AnnAssign)):
            if isinstance(st, ast.AnnAssign):
                if st.value is None:
                    return [p]
                targets, value = [st.target], st.value
            else:
                targets, value = st.targets, st.value
            t = self.tree(value, env, depth)
            for tg in targets:
                self.bind(tg, t, env, st)
            return [p]
        if isinstance(st, ast.AugAssign):
            if not isinstance(st.target, ast.Name) or type(st.op) not in _PY_BIN:
                self.fail(st, f'augmented assignment `{pf.nsrc(st)[:60]}`')
            cur = env.get(st.target.id, ('name', st.target.id))
            env[st.target.id] = ('bin', _PY_BIN[type(st.op)], cur, self.tree(st.value, env, depth))
            return [p]
        if isinstance(st, ast.Assert):
            p.asserts.append(self.tree(st.test, env, depth))
            return [p]
        if isinstance(st, ast.Return):
            p.end = ('return', self.tree(st.value, env, depth) if st.value is not None else None, st.lineno)
            return [p]
        if isinstance(st, ast.Raise):
            p.end = ('raise', pf.nsrc(st.exc)[:60] if st.exc is not None else 'raise', st.lineno)
            return [p]
        if isinstance(st, ast.If):
            c = self.tree(st.test, env, depth)
            out: List[SymPath] = []
            for pol, body in ((True, st.body), (False, st.orelse)):
                q = p.clone()
                q.conds.append((c, pol, st.lineno))
                out += self.block(body, [q], depth)
            return out
        self.fail(st, f'unsupported statement {type(st).__name__} in a packing / unpacking function')
        return []

    def bind(self, tg: ast.AST, t: tuple, env: Dict[str, Any], st: ast.stmt) -> None:
        if isinstance(tg, ast.Name):
            env[tg.id] = t
        elif isinstance(tg, (ast.Tuple, ast.List)) and all(isinstance(x, ast.Name) for x in tg.elts):
            for i, x in enumerate(tg.elts):
                env[x.id] = t[1][i] if t[0] == 'list' and len(t[1]) == len(tg.elts) else ('index', t, ('int', i))
        else:
            self.fail(st, f'assignment target `{pf.nsrc(tg)[:40]}`')


class _SymClosure:
    def __init__(self, fn: ast.FunctionDef, skip: int = 0, own_scope: bool = False):
        self.fn, self.skip, self.own_scope = fn, skip, own_scope


def const_value(t: tuple) -> Optional[int]:
    """Integer value of a tree without names, else None."""
    if any(n and n[0] in ('name', 'call', 'sel', 'index', 'raise') for n in S.walk(t)):
        return None
    try:
        v = ev(t, {}, 'py')
    except (AnalysisError, Undefined, TypeError, ValueError):
        return None
    return v if isinstance(v, int) and not isinstance(v, bool) else None


class SignDomain:
    """How many low bits of an integer expression over the raw signed word `word` (a 32-bit two's complement read, so word == U mod 2^32
    where U is the unsigned word the engine operates on) are guaranteed to equal those of the same expression over U.  `None` = the value
    is exactly the unsigned-world value.  Uses of an inexact value where all bits matter (a decoded field, a comparison, an index, an
    argument of another function) are recorded as findings."""

    def __init__(self, word: str = '$w', width: int = 32):
        self.word, self.width = word, width
        self.findings: List[Tuple[tuple, int, str]] = []   # (subtree, agreeing bits, use)
        self.opaque: List[Tuple[tuple, int, str]] = []     # inexact values handed to functions the analysis cannot see into (undecided)
        self.bridges = 0

    @staticmethod
    def _sign_test(c: tuple) -> Optional[Tuple[tuple, bool]]:
        """(x, True) if c says x >= 0; (x, False) if c says x < 0."""
        if c[0] == 'un' and c[1] == '!':
            r = SignDomain._sign_test(c[2])
            return None if r is None else (r[0], not r[1])
        if c[0] != 'bin' or c[1] not in ('>=', '>', '<', '<='):
            return None
        op, l, r = c[1], c[2], c[3]
        lv, rv = const_value(l), const_value(r)
        if rv is not None and lv is None:
            if (op, rv) in (('>=', 0), ('>', -1)):
                return (l, True)
            if (op, rv) in (('<', 0), ('<=', -1)):
                return (l, False)
        if lv is not None and rv is None:
            if (op, lv) in (('<=', 0), ('<', -1)):
                return (r, True)
            if (op, lv) in (('>', 0), ('>=', -1)):
                return (r, False)
        return None

    def bits(self, t: tuple, facts: Dict[Any, bool]) -> Optional[int]:
        """agreeing low bits of t (None = exact); facts: tree -> known non-negative (True) / negative (False)"""
        k = t[0]
        if k in ('int', 'float', 'bool', 'str'):
            return None
        if k == 'name':
            if t[1] == self.word:
                return None if facts.get(repr(t)) is True else self.width
            return None
        if k == 'raise':
            return None
        if k == 'un':
            b = self.bits(t[2], facts)
            return b if t[1] in ('-', '~', '+') else self.use(t[2], b, 'a boolean test', facts)
        if k == 'if':
            c, a, b = t[1], t[2], t[3]
            st = self._sign_test(c)
            if st is not None and self.bits(st[0], facts) is not None:
                x, nonneg_then = st
                fa, fb = dict(facts), dict(facts)
                fa[repr(x)], fb[repr(x)] = nonneg_then, not nonneg_then
                self.bridges += 1
                ba, bb = self.bits(a, fa), self.bits(b, fb)
            else:
                self.cond(c, facts)
                ba, bb = self.bits(a, facts), self.bits(b, facts)
            if ba is None and bb is None:
                return None
            return min(x for x in (ba, bb) if x is not None)
        if k == 'bin':
            op, l, r = t[1], t[2], t[3]
            if op in ('&&', '||'):
                self.cond(l, facts)
                self.cond(r, facts)
                return None
            if op in ('==', '!=', '<', '<=', '>', '>='):
                bl, br = self.bits(l, facts), self.bits(r, facts)
                self.use(l, bl, f'the comparison `{show(t)}`', facts)
                self.use(r, br, f'the comparison `{show(t)}`', facts)
                return None
            bl, br = self.bits(l, facts), self.bits(r, facts)
            if op in ('>>', '>>>'):
                s = const_value(r)
                if bl is None:
                    self.use(r, br, 'a shift count', facts)
                    return None
                if s is None or s < 0:
                    return 0
                return max(bl - s, 0)
            if op == '<<':
                s = const_value(r)
                if bl is None:
                    return None
                return bl + s if s is not None and s >= 0 else bl
            if op == '&':
                for x, bx, y, by in ((l, bl, r, br), (r, br, l, bl)):
                    m = const_value(y)
                    if bx is not None and m is not None and 0 <= m < (1 << bx):
                        return None  # only bits that agree survive the mask
                if bl is None and br is None:
                    return None
                return min(x for x in (bl, br) if x is not None)
            if op == '%':
                m = const_value(r)
                if bl is not None and m is not None and m > 0 and m & (m - 1) == 0 and m.bit_length() - 1 <= bl:
                    return None  # Python % is non-negative: x mod 2^k with k agreeing bits is exact
                if bl is None and br is None:
                    return None
                self.use(l, bl, f'`{show(t)}`', facts)
                return None
            if op == '+' and bl is not None and facts.get(repr(l)) is False and const_value(r) == (1 << self.width) and bl >= self.width:
                return None  # x < 0: x + 2^32 is the unsigned word
            if op == '-' and bl is not None and facts.get(repr(l)) is False and const_value(r) == -(1 << self.width) and bl >= self.width:
                return None
            if op in ('|', '^', '+', '-', '*'):
                if bl is None and br is None:
                    return None
                return min(x for x in (bl, br) if x is not None)
            # division, power, ...: every bit matters
            self.use(l, bl, f'`{show(t)}`', facts)
            self.use(r, br, f'`{show(t)}`', facts)
            return None
        if k == 'list':
            for x in t[1]:
                self.use(x, self.bits(x, facts), 'an element of the decoded value', facts)
            return None
        if k == 'index':
            self.use(t[1], self.bits(t[1], facts), 'an indexed table', facts)
            self.use(t[2], self.bits(t[2], facts), f'the index of `{show(t)[:60]}`', facts)
            return None
        if k == 'sel':
            self.use(t[1], self.bits(t[1], facts), 'an attribute access', facts)
            return None
        if k == 'call':
            nm = t[1][1] if t[1][0] == 'name' else None
            pure = nm in ('int', 'float', 'len', 'abs', 'bool', 'str', 'min', 'max', 'round') or (nm or '').startswith('math.')
            for _, a in t[2]:
                b = self.bits(a, facts)
                if b is not None:
                    if pure or nm is None:
                        self.use(a, b, f'an argument of {show(t[1])}(...)', facts)
                    else:
                        self.opaque.append((a, b, f'an argument of {show(t[1])}(...), whose body is not available to the analysis'))
            return None
        return None

    def cond(self, c: tuple, facts: Dict[Any, bool]) -> None:
        if self._sign_test(c) is not None:
            return
        self.use(c, self.bits(c, facts), 'a branch condition', facts)

    def use(self, t: tuple, b: Optional[int], what: str, facts: Dict[Any, bool]) -> None:
        if b is not None:
            self.findings.append((t, b, what))

    def path_facts(self, conds: List[Tuple[tuple, bool, int]]) -> Dict[Any, bool]:
        facts: Dict[Any, bool] = {}
        for c, pol, _ in conds:
            stt = self._sign_test(c if pol else ('un', '!', c))
            if stt is not None:
                facts[repr(stt[0])] = stt[1]
        return facts
