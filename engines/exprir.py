"""A tiny common expression IR for Python `ast` expressions and the Scala subset of engines/scalalite_enc.py,
with a concrete integer/float evaluator.  Used to compare bit layouts and index formulas across the two languages
(C34, parts of C33).  Only *extracted* expression trees are evaluated; repository code is never imported or run.

Also here: PathTerms (the statements of a function rewritten into IR terms per path, helpers substituted at their calls), SignDomain
(agreeing-low-bits / sign abstract domain over those terms, for 32-bit words read as signed integers) and the bit-field domain
(BV: integers as vectors of constant / symbolic bits with a two's-complement sign fill; Poly: arithmetic terms over symbols in a
polynomial normal form; TermEval: abstract evaluation of IR terms of both languages over these, uninterpreted function symbols included).

IR (same tuples as scalalite_enc): ('int', n) ('float', x) ('bool', b) ('name', dotted) ('bin', op, l, r) ('un', op, e)
('call', fn, [(kw, e)...], None) ('sel', e, attr) ('index', e, i) ('if', c, a, b) ('list', [e...])
"""
from __future__ import annotations

import ast
import math
from typing import Any, Callable, Dict, List, Optional, Tuple

from . import pyfacts as pf
from . import scalalite_enc as S
from .common import AnalysisError

_PY_BIN = {ast.Add: '+', ast.Sub: '-', ast.Mult: '*', ast.FloorDiv: '//', ast.Div: '/', ast.LShift: '<<', ast.RShift: '>>',
           ast.BitOr: '|', ast.BitAnd: '&', ast.BitXor: '^', ast.Pow: '**', ast.Mod: '%'}
_PY_CMP = {ast.Eq: '==', ast.NotEq: '!=', ast.Lt: '<', ast.LtE: '<=', ast.Gt: '>', ast.GtE: '>='}


def from_py(e: ast.AST) -> tuple:
    if isinstance(e, ast.Constant):
        if isinstance(e.value, bool):
            return ('bool', e.value)
        if isinstance(e.value, int):
            return ('int', e.value)
        if isinstance(e.value, float):
            return ('float', e.value)
        if isinstance(e.value, str):
            return ('str', e.value)
        raise AnalysisError(f'exprir: unsupported constant {e.value!r}')
    if isinstance(e, ast.Name):
        return ('name', e.id)
    if isinstance(e, ast.Attribute):
        d = pf.dotted(e)
        if d is not None:
            return ('name', d)
        return ('sel', from_py(e.value), e.attr)
    if isinstance(e, ast.BinOp) and type(e.op) in _PY_BIN:
        return ('bin', _PY_BIN[type(e.op)], from_py(e.left), from_py(e.right))
    if isinstance(e, ast.UnaryOp):
        if isinstance(e.op, ast.USub):
            return ('un', '-', from_py(e.operand))
        if isinstance(e.op, ast.Not):
            return ('un', '!', from_py(e.operand))
        if isinstance(e.op, ast.Invert):
            return ('un', '~', from_py(e.operand))
    if isinstance(e, ast.Compare) and len(e.ops) == 1 and type(e.ops[0]) in _PY_CMP:
        return ('bin', _PY_CMP[type(e.ops[0])], from_py(e.left), from_py(e.comparators[0]))
    if isinstance(e, ast.Compare) and all(type(o) in _PY_CMP for o in e.ops):
        parts = []
        left = e.left
        for o, r in zip(e.ops, e.comparators):
            parts.append(('bin', _PY_CMP[type(o)], from_py(left), from_py(r)))
            left = r
        out = parts[0]
        for p in parts[1:]:
            out = ('bin', '&&', out, p)
        return out
    if isinstance(e, ast.BoolOp):
        op = '&&' if isinstance(e.op, ast.And) else '||'
        out = from_py(e.values[0])
        for v in e.values[1:]:
            out = ('bin', op, out, from_py(v))
        return out
    if isinstance(e, ast.Call):
        return ('call', from_py(e.func), [(None, from_py(a)) for a in e.args] + [(k.arg, from_py(k.value)) for k in e.keywords], None)
    if isinstance(e, ast.Subscript):
        return ('index', from_py(e.value), from_py(e.slice))
    if isinstance(e, ast.IfExp):
        return ('if', from_py(e.test), from_py(e.body), from_py(e.orelse))
    if isinstance(e, (ast.List, ast.Tuple)):
        return ('list', [from_py(x) for x in e.elts])
    raise AnalysisError(f'exprir: unsupported Python expression `{pf.nsrc(e)[:80]}`')


def from_scala(e: tuple) -> tuple:
    """Normalise a scalalite_enc tree: strip parens, turn selector chains on plain names into dotted names."""
    e = S.strip(e)
    return _norm_scala(e)


def _norm_scala(e: Any) -> Any:
    if isinstance(e, list):
        return [_norm_scala(x) for x in e]
    if not isinstance(e, tuple):
        return e
    if e and e[0] == 'sel':
        d = S.dotted(e)
        if d is not None:
            return ('name', d)
        return ('sel', _norm_scala(e[1]), e[2])
    if e and e[0] == 'call':
        return ('call', _norm_scala(e[1]), [(k, _norm_scala(a)) for k, a in e[2]], _norm_scala(e[3]) if e[3] is not None else None)
    return tuple(_norm_scala(x) for x in e)


def names(e: Any) -> List[str]:
    out = []
    for n in S.walk(e):
        if n and n[0] == 'name':
            out.append(n[1])
    return out


def show(e: Any) -> str:
    return S.show(e)


# --------------------------------------------------------------------------------------
# evaluation
# --------------------------------------------------------------------------------------


def _wrap32(v: int) -> int:
    v &= 0xFFFFFFFF
    return v - (1 << 32) if v >= (1 << 31) else v


class Undefined(Exception):
    """Evaluation hit an assertion/`fatal`/out-of-domain operation (the modelled program would raise)."""


def ev(e: tuple, env: Dict[str, Any], lang: str, funcs: Optional[Dict[str, Callable[..., Any]]] = None) -> Any:
    """Concrete value of an IR expression.  lang='py': unbounded ints, // floors, / is true division, >> arithmetic.
    lang='scala': 32-bit wrapped Int arithmetic, / truncates on ints, >>> logical, .toInt truncates, .toDouble widens."""
    funcs = funcs or {}
    k = e[0]
    if k in ('int', 'float', 'bool'):
        return e[1]
    if k == 'name':
        nm = e[1]
        if nm in env:
            return env[nm]
        # scala postfix conversions on a name:  x.toInt / x.toDouble / x.length
        if '.' in nm:
            base, attr = nm.rsplit('.', 1)
            if base in env:
                return _attr(env[base], attr, lang)
        raise AnalysisError(f'exprir: unbound name {nm}')
    if k == 'sel':
        return _attr(ev(e[1], env, lang, funcs), e[2], lang)
    if k == 'un':
        v = ev(e[2], env, lang, funcs)
        if e[1] == '-':
            return -v
        if e[1] == '!':
            return not v
        if e[1] == '~':
            return ~v
        if e[1] == '+':
            return v
    if k == 'if':
        return ev(e[2], env, lang, funcs) if ev(e[1], env, lang, funcs) else ev(e[3], env, lang, funcs)
    if k == 'list':
        return [ev(x, env, lang, funcs) for x in e[1]]
    if k == 'index':
        base = ev(e[1], env, lang, funcs)
        i = ev(e[2], env, lang, funcs)
        try:
            return base[i]
        except (IndexError, TypeError, KeyError):
            raise Undefined(f'index {i} out of range')
    if k == 'bin':
        op = e[1]
        if op == '&&':
            return bool(ev(e[2], env, lang, funcs)) and bool(ev(e[3], env, lang, funcs))
        if op == '||':
            return bool(ev(e[2], env, lang, funcs)) or bool(ev(e[3], env, lang, funcs))
        a = ev(e[2], env, lang, funcs)
        b = ev(e[3], env, lang, funcs)
        return _binop(op, a, b, lang)
    if k == 'call':
        fn = e[1]
        nm = fn[1] if fn[0] == 'name' else None
        args = [ev(a, env, lang, funcs) for _, a in e[2]]
        if nm is not None and nm in funcs:
            return funcs[nm](*args)
        if nm in ('math.sqrt', 'Math.sqrt', 'math.sqrt', 'scala.math.sqrt') and len(args) == 1:
            if args[0] < 0:
                raise Undefined('sqrt of negative')
            return math.sqrt(args[0])
        if lang == 'py':
            if nm == 'int' and len(args) == 1:
                return int(args[0])
            if nm == 'float' and len(args) == 1:
                return float(args[0])
            if nm == 'len' and len(args) == 1:
                return len(args[0])
            if nm in ('min', 'max') and len(args) >= 2:
                return (min if nm == 'min' else max)(args)
        if fn[0] == 'name' and nm in env and isinstance(env[nm], (list, tuple)) and len(args) == 1:
            # scala array application  table(i)
            try:
                if args[0] < 0:
                    raise IndexError
                return env[nm][args[0]]
            except IndexError:
                raise Undefined(f'{nm}({args[0]}) out of range')
        raise AnalysisError(f'exprir: unsupported call {show(fn)}')
    raise AnalysisError(f'exprir: unsupported node {k}')


def _attr(v: Any, attr: str, lang: str) -> Any:
    if attr == 'toInt':
        if isinstance(v, bool):
            return int(v)
        return _wrap32(int(v)) if isinstance(v, int) else int(v)  # float -> truncation toward zero (in range)
    if attr == 'toDouble':
        return float(v)
    if attr == 'toLong':
        return int(v)
    if attr == 'length' and isinstance(v, (list, tuple)):
        return len(v)
    raise AnalysisError(f'exprir: unsupported attribute .{attr}')


def _binop(op: str, a: Any, b: Any, lang: str) -> Any:
    isint = isinstance(a, int) and isinstance(b, int) and not isinstance(a, bool) and not isinstance(b, bool)
    if op in ('==', '!=', '<', '<=', '>', '>='):
        return {'==': a == b, '!=': a != b, '<': a < b, '<=': a <= b, '>': a > b, '>=': a >= b}[op]
    if lang == 'scala' and isinstance(a, bool) and isinstance(b, bool) and op in ('|', '&'):
        return (a or b) if op == '|' else (a and b)
    if op == '+':
        r = a + b
    elif op == '-':
        r = a - b
    elif op == '*':
        r = a * b
    elif op == '**' and lang == 'py':
        if not isint or b < 0 or b > 256:
            raise AnalysisError('exprir: pow out of the analysed range')
        r = a**b
    elif op == '//' and lang == 'py':
        if b == 0:
            raise Undefined('division by zero')
        r = a // b
    elif op == '/':
        if b == 0:
            raise Undefined('division by zero')
        if lang == 'scala' and isint:
            q = abs(a) // abs(b)
            r = q if (a >= 0) == (b >= 0) else -q
        else:
            r = a / b
    elif op == '%':
        if b == 0:
            raise Undefined('division by zero')
        if lang == 'scala' and isint:
            r = int(math.fmod(a, b))
        else:
            r = a % b
    elif op in ('<<', '>>', '>>>', '|', '&', '^'):
        if not isint:
            raise AnalysisError(f'exprir: bit operator {op} on non-integers')
        if lang == 'scala':
            if op in ('<<', '>>', '>>>'):
                b &= 31
            if op == '<<':
                r = a << b
            elif op == '>>':
                r = _wrap32(a) >> b
            elif op == '>>>':
                r = (a & 0xFFFFFFFF) >> b
            elif op == '|':
                r = a | b
            elif op == '&':
                r = a & b
            else:
                r = a ^ b
        else:
            if op == '>>>':
                raise AnalysisError('exprir: >>> in Python')
            if op in ('<<', '>>') and (b < 0 or b > 256):
                raise Undefined('shift count out of range')
            r = {'<<': lambda: a << b, '>>': lambda: a >> b, '|': lambda: a | b, '&': lambda: a & b, '^': lambda: a ^ b}[op]()
    else:
        raise AnalysisError(f'exprir: unsupported operator {op} for {lang}')
    if lang == 'scala' and isinstance(r, int) and not isinstance(r, bool):
        r = _wrap32(r)
    return r


# --------------------------------------------------------------------------------------
# bit-field recognition
# --------------------------------------------------------------------------------------


def shift_mask(e: tuple, var: str) -> Optional[Tuple[int, Optional[int]]]:
    """Recognise a field extraction from `var`:  var | var >> s | var >>> s | (<those>) & m  ->  (shift, mask or None)."""
    if e[0] == 'name' and e[1] == var:
        return (0, None)
    if e[0] == 'bin' and e[1] in ('>>', '>>>') and e[2] == ('name', var) and e[3][0] == 'int':
        return (e[3][1], None)
    if e[0] == 'bin' and e[1] == '&':
        for x, mk in ((e[2], e[3]), (e[3], e[2])):
            if mk[0] == 'int':
                inner = shift_mask(x, var)
                if inner is not None and inner[1] is None:
                    return (inner[0], mk[1])
    return None


def bool_field(e: tuple, var: str) -> Optional[Tuple[int, int]]:
    """`(var [>> s]) & m) == m` / `!= 0`  -> (shift, mask) of a flag test (true iff the masked bits equal the mask)."""
    if e[0] == 'bin' and e[1] in ('==', '!='):
        for x, c in ((e[2], e[3]), (e[3], e[2])):
            if c[0] == 'int':
                sm = shift_mask(x, var)
                if sm is not None and sm[1] is not None:
                    if e[1] == '==' and c[1] == sm[1] and sm[1] & (sm[1] - 1) == 0:
                        return (sm[0], sm[1])
                    if e[1] == '!=' and c[1] == 0 and sm[1] & (sm[1] - 1) == 0:
                        return (sm[0], sm[1])
    return None


def placed(e: tuple) -> Optional[Tuple[tuple, int]]:
    """`X << s` -> (X, s);  anything else -> (e, 0)."""
    if e[0] == 'bin' and e[1] == '<<' and e[3][0] == 'int':
        return (e[2], e[3][1])
    return (e, 0)


# --------------------------------------------------------------------------------------
# path terms: the statements of a small function turned into IR trees per path, and a sign / agreeing-low-bits domain over them
# --------------------------------------------------------------------------------------


class TermPath:
    def __init__(self):
        self.conds: List[Tuple[tuple, bool, int]] = []   # (condition tree, branch taken, line)
        self.asserts: List[tuple] = []
        self.writes: List[Tuple[str, tuple, int]] = []   # (stream method, argument tree, line)
        self.end: tuple = ('fall',)                      # ('return', tree | None, line) | ('raise', text, line) | ('fall',)
        self.env: Dict[str, Any] = {}

    def clone(self) -> 'TermPath':
        p = TermPath()
        p.conds, p.asserts, p.writes, p.end, p.env = list(self.conds), list(self.asserts), list(self.writes), self.end, dict(self.env)
        return p


def conj(conds: List[Tuple[tuple, bool, int]]) -> tuple:
    out: Optional[tuple] = None
    for t, pol, _ in conds:
        x = t if pol else ('un', '!', t)
        out = x if out is None else ('bin', '&&', out, x)
    return out if out is not None else ('bool', True)


class PathTerms:
    """Rewrites the statements of a function into IR terms, path by path (nothing is run): locals are substituted by their defining terms,
    each `if` yields one path per branch with the branch condition recorded as a term, nested helper functions are substituted at their
    calls (their own branches become ('if', c, a, b) terms), reads from the byte stream become the symbol named by `word`."""

    def __init__(self, where: str, stream: Optional[str], word: str = '$w', max_paths: int = 256, max_depth: int = 8,
                 resolver: Optional[Callable[[str], Optional[Tuple[ast.FunctionDef, int]]]] = None, helper_asserts: bool = False):
        """resolver(dotted callee name) -> (function definition, number of leading parameters already bound by the call form, e.g. 1 for
        `self.h(...)` on a plain method) for helpers defined outside the function (methods, module-level functions); None = opaque."""
        self.where, self.stream, self.word = where, stream, word
        self.max_paths, self.max_depth = max_paths, max_depth
        self.resolver = resolver
        self.reads: List[Tuple[str, int]] = []
        # helper_asserts: the `assert`s of a substituted helper are added to the asserts of the path whose statement calls it, as
        # (not <conditions of the helper path>) || <assertion> over the caller's terms (default off: they are dropped, as before)
        self.helper_asserts = helper_asserts
        self._cur: Optional[TermPath] = None

    def fail(self, node: Optional[ast.AST], msg: str):
        raise AnalysisError(f'{self.where} (line {getattr(node, "lineno", 0)}): {msg}')

    # ---- expressions -------------------------------------------------------------
    def tree(self, e: ast.AST, env: Dict[str, Any], depth: int = 0) -> tuple:
        if isinstance(e, ast.Call) and isinstance(e.func, ast.Attribute) and isinstance(e.func.value, ast.Name) and self.stream and e.func.value.id == self.stream:
            if e.func.attr.startswith('read_') and not e.args:
                self.reads.append((e.func.attr, e.lineno))
                return ('name', self.word)
            self.fail(e, f'stream operation `{pf.nsrc(e)[:50]}` in a value position')
        return self.subst(from_py(e), env, e, depth)

    def subst(self, t: Any, env: Dict[str, Any], node: ast.AST, depth: int) -> Any:
        if isinstance(t, list):
            return [self.subst(x, env, node, depth) for x in t]
        if not isinstance(t, tuple) or not t:
            return t
        k = t[0]
        if k == 'name':
            n = t[1]
            if n in env and not isinstance(env[n], _Closure):
                return env[n]
            if '.' in n:
                base, rest = n.split('.', 1)
                if base in env and not isinstance(env[base], _Closure):
                    out = env[base]
                    for a in rest.split('.'):
                        out = ('sel', out, a)
                    return out
            return t
        if k == 'call':
            fn = t[1]
            args = [(kw, self.subst(a, env, node, depth)) for kw, a in t[2]]
            if fn[0] == 'name' and isinstance(env.get(fn[1]), _Closure):
                return self.inline(env[fn[1]], args, env, node, depth)
            fn2 = self.subst(fn, env, node, depth)   # a local alias of a helper (`f = self._helper`) resolves to the helper
            if fn2[0] == 'name' and self.resolver is not None and (fn2 != fn or fn[1].split('.')[0] not in env):
                r = self.resolver(fn2[1])
                if r is not None and depth < self.max_depth:
                    return self.inline(_Closure(r[0], skip=r[1], own_scope=True), args, env, node, depth)
            return ('call', fn2, args, None)
        if k in ('int', 'float', 'bool', 'str'):
            return t
        return tuple(self.subst(x, env, node, depth) if isinstance(x, (tuple, list)) else x for x in t)

    def inline(self, clo: '_Closure', args: List[Tuple[Optional[str], tuple]], env: Dict[str, Any], node: ast.AST, depth: int) -> tuple:
        if depth >= self.max_depth:
            self.fail(node, f'helper calls nested deeper than {self.max_depth}')
        fn = clo.fn
        a = fn.args
        if a.vararg or a.kwarg or a.posonlyargs or a.kwonlyargs:
            self.fail(fn, f'helper {fn.name} has star / keyword-only parameters')
        params = [x.arg for x in a.args][clo.skip:]
        bound: Dict[str, Any] = {}
        pos = [v for kw, v in args if kw is None]
        if len(pos) > len(params):
            self.fail(node, f'too many arguments for helper {fn.name}')
        for p, v in zip(params, pos):
            bound[p] = v
        for kw, v in args:
            if kw is not None:
                if kw not in params or kw in bound:
                    self.fail(node, f'bad keyword {kw} for helper {fn.name}')
                bound[kw] = v
        defaults = dict(zip(params[len(params) - len(a.defaults):], a.defaults))
        for p in params:
            if p not in bound:
                if p not in defaults:
                    self.fail(node, f'argument {p} of helper {fn.name} unbound')
                bound[p] = from_py(defaults[p])
        # Python closures see the *current* bindings of the enclosing function; functions defined elsewhere only their own parameters
        inner_env = {} if clo.own_scope else dict(env)
        inner_env.update(bound)
        start = TermPath()
        start.env = inner_env
        caller = self._cur
        paths = self.block(fn.body, [start], depth + 1)
        self._cur = caller
        if self.helper_asserts and caller is not None:
            for p in paths:
                for a in p.asserts:
                    caller.asserts.append(('bin', '||', ('un', '!', conj(p.conds)), a) if p.conds else a)
        out: Optional[tuple] = None
        for p in reversed(paths):
            if p.writes:
                self.fail(fn, f'helper {fn.name} performs stream output (inlined in a value position)')
            if p.end[0] == 'return' and p.end[1] is not None:
                leaf = p.end[1]
            elif p.end[0] == 'raise':
                leaf = ('raise', p.end[1])
            else:
                leaf = ('name', 'None')
            out = leaf if out is None else ('if', conj(p.conds), leaf, out)
        if out is None:
            self.fail(fn, f'helper {fn.name} has no path')
        return out

    # ---- statements -------------------------------------------------------------------
    def run(self, fn: pf.FuncDef, env: Dict[str, Any]) -> List[TermPath]:
        start = TermPath()
        start.env = dict(env)
        body = [s for s in fn.body if not (isinstance(s, ast.Expr) and isinstance(s.value, ast.Constant))]
        return self.block(body, [start], 0)

    def block(self, stmts: List[ast.stmt], live: List[TermPath], depth: int) -> List[TermPath]:
        done: List[TermPath] = []
        for st in stmts:
            if not live:
                break
            nxt: List[TermPath] = []
            for p in live:
                for q in self.stmt(st, p, depth):
                    (nxt if q.end[0] == 'fall' else done).append(q)
            live = nxt
            if len(live) + len(done) > self.max_paths:
                self.fail(st, 'too many paths')
        return done + live

    def stmt(self, st: ast.stmt, p: TermPath, depth: int) -> List[TermPath]:
        env = p.env
        self._cur = p
        if isinstance(st, ast.FunctionDef):
            env[st.name] = _Closure(st)
            return [p]
        if isinstance(st, (ast.Pass, ast.Import, ast.ImportFrom)):
            return [p]
        if isinstance(st, ast.Expr):
            v = st.value
            if isinstance(v, ast.Constant):
                return [p]
            if isinstance(v, ast.Call) and isinstance(v.func, ast.Attribute) and isinstance(v.func.value, ast.Name) and self.stream and v.func.value.id == self.stream:
                if len(v.args) != 1 or v.keywords:
                    self.fail(st, f'stream operation `{pf.nsrc(v)[:50]}` with unexpected arguments')
                p.writes.append((v.func.attr, self.tree(v.args[0], env, depth), st.lineno))
                return [p]
            self.fail(st, f'expression statement `{pf.nsrc(st)[:60]}` (unrecognised effect)')
        if isinstance(st, (ast.Assign, ast.AnnAssign)):
            if isinstance(st, ast.AnnAssign):
                if st.value is None:
                    return [p]
                targets, value = [st.target], st.value
            else:
                targets, value = st.targets, st.value
            t = self.tree(value, env, depth)
            for tg in targets:
                self.bind(tg, t, env, st)
            return [p]
        if isinstance(st, ast.AugAssign):
            if not isinstance(st.target, ast.Name) or type(st.op) not in _PY_BIN:
                self.fail(st, f'augmented assignment `{pf.nsrc(st)[:60]}`')
            cur = env.get(st.target.id, ('name', st.target.id))
            env[st.target.id] = ('bin', _PY_BIN[type(st.op)], cur, self.tree(st.value, env, depth))
            return [p]
        if isinstance(st, ast.Assert):
            p.asserts.append(self.tree(st.test, env, depth))
            return [p]
        if isinstance(st, ast.Return):
            p.end = ('return', self.tree(st.value, env, depth) if st.value is not None else None, st.lineno)
            return [p]
        if isinstance(st, ast.Raise):
            p.end = ('raise', pf.nsrc(st.exc)[:60] if st.exc is not None else 'raise', st.lineno)
            return [p]
        if isinstance(st, ast.If):
            c = self.tree(st.test, env, depth)
            out: List[TermPath] = []
            for pol, body in ((True, st.body), (False, st.orelse)):
                q = p.clone()
                q.conds.append((c, pol, st.lineno))
                out += self.block(body, [q], depth)
            return out
        self.fail(st, f'unsupported statement {type(st).__name__} in a packing / unpacking function')
        return []

    def bind(self, tg: ast.AST, t: tuple, env: Dict[str, Any], st: ast.stmt) -> None:
        if isinstance(tg, ast.Name):
            env[tg.id] = t
        elif isinstance(tg, (ast.Tuple, ast.List)) and all(isinstance(x, ast.Name) for x in tg.elts):
            for i, x in enumerate(tg.elts):
                env[x.id] = t[1][i] if t[0] == 'list' and len(t[1]) == len(tg.elts) else ('index', t, ('int', i))
        else:
            self.fail(st, f'assignment target `{pf.nsrc(tg)[:40]}`')


class _Closure:
    def __init__(self, fn: ast.FunctionDef, skip: int = 0, own_scope: bool = False):
        self.fn, self.skip, self.own_scope = fn, skip, own_scope


def const_value(t: tuple) -> Optional[int]:
    """Integer value of a tree without names, else None."""
    if any(n and n[0] in ('name', 'call', 'sel', 'index', 'raise') for n in S.walk(t)):
        return None
    try:
        v = ev(t, {}, 'py')
    except (AnalysisError, Undefined, TypeError, ValueError):
        return None
    return v if isinstance(v, int) and not isinstance(v, bool) else None


class SignDomain:
    """How many low bits of an integer expression over the raw signed word `word` (a 32-bit two's complement read, so word == U mod 2^32
    where U is the unsigned word the engine operates on) are guaranteed to equal those of the same expression over U.  `None` = the value
    is exactly the unsigned-world value.  Uses of an inexact value where all bits matter (a decoded field, a comparison, an index, an
    argument of another function) are recorded as findings."""

    def __init__(self, word: str = '$w', width: int = 32):
        self.word, self.width = word, width
        self.findings: List[Tuple[tuple, int, str]] = []   # (subtree, agreeing bits, use)
        self.opaque: List[Tuple[tuple, int, str]] = []     # inexact values handed to functions the analysis cannot see into (undecided)
        self.bridges = 0

    @staticmethod
    def _sign_test(c: tuple) -> Optional[Tuple[tuple, bool]]:
        """(x, True) if c says x >= 0; (x, False) if c says x < 0."""
        if c[0] == 'un' and c[1] == '!':
            r = SignDomain._sign_test(c[2])
            return None if r is None else (r[0], not r[1])
        if c[0] != 'bin' or c[1] not in ('>=', '>', '<', '<='):
            return None
        op, l, r = c[1], c[2], c[3]
        lv, rv = const_value(l), const_value(r)
        if rv is not None and lv is None:
            if (op, rv) in (('>=', 0), ('>', -1)):
                return (l, True)
            if (op, rv) in (('<', 0), ('<=', -1)):
                return (l, False)
        if lv is not None and rv is None:
            if (op, lv) in (('<=', 0), ('<', -1)):
                return (r, True)
            if (op, lv) in (('>', 0), ('>=', -1)):
                return (r, False)
        return None

    def bits(self, t: tuple, facts: Dict[Any, bool]) -> Optional[int]:
        """agreeing low bits of t (None = exact); facts: tree -> known non-negative (True) / negative (False)"""
        k = t[0]
        if k in ('int', 'float', 'bool', 'str'):
            return None
        if k == 'name':
            if t[1] == self.word:
                return None if facts.get(repr(t)) is True else self.width
            return None
        if k == 'raise':
            return None
        if k == 'un':
            b = self.bits(t[2], facts)
            return b if t[1] in ('-', '~', '+') else self.use(t[2], b, 'a boolean test', facts)
        if k == 'if':
            c, a, b = t[1], t[2], t[3]
            st = self._sign_test(c)
            if st is not None and self.bits(st[0], facts) is not None:
                x, nonneg_then = st
                fa, fb = dict(facts), dict(facts)
                fa[repr(x)], fb[repr(x)] = nonneg_then, not nonneg_then
                self.bridges += 1
                ba, bb = self.bits(a, fa), self.bits(b, fb)
            else:
                self.cond(c, facts)
                ba, bb = self.bits(a, facts), self.bits(b, facts)
            if ba is None and bb is None:
                return None
            return min(x for x in (ba, bb) if x is not None)
        if k == 'bin':
            op, l, r = t[1], t[2], t[3]
            if op in ('&&', '||'):
                self.cond(l, facts)
                self.cond(r, facts)
                return None
            if op in ('==', '!=', '<', '<=', '>', '>='):
                bl, br = self.bits(l, facts), self.bits(r, facts)
                self.use(l, bl, f'the comparison `{show(t)}`', facts)
                self.use(r, br, f'the comparison `{show(t)}`', facts)
                return None
            bl, br = self.bits(l, facts), self.bits(r, facts)
            if op in ('>>', '>>>'):
                s = const_value(r)
                if bl is None:
                    self.use(r, br, 'a shift count', facts)
                    return None
                if s is None or s < 0:
                    return 0
                return max(bl - s, 0)
            if op == '<<':
                s = const_value(r)
                if bl is None:
                    return None
                return bl + s if s is not None and s >= 0 else bl
            if op == '&':
                for x, bx, y, by in ((l, bl, r, br), (r, br, l, bl)):
                    m = const_value(y)
                    if bx is not None and m is not None and 0 <= m < (1 << bx):
                        return None  # only bits that agree survive the mask
                if bl is None and br is None:
                    return None
                return min(x for x in (bl, br) if x is not None)
            if op == '%':
                m = const_value(r)
                if bl is not None and m is not None and m > 0 and m & (m - 1) == 0 and m.bit_length() - 1 <= bl:
                    return None  # Python % is non-negative: x mod 2^k with k agreeing bits is exact
                if bl is None and br is None:
                    return None
                self.use(l, bl, f'`{show(t)}`', facts)
                return None
            if op == '+' and bl is not None and facts.get(repr(l)) is False and const_value(r) == (1 << self.width) and bl >= self.width:
                return None  # x < 0: x + 2^32 is the unsigned word
            if op == '-' and bl is not None and facts.get(repr(l)) is False and const_value(r) == -(1 << self.width) and bl >= self.width:
                return None
            if op in ('|', '^', '+', '-', '*'):
                if bl is None and br is None:
                    return None
                return min(x for x in (bl, br) if x is not None)
            # division, power, ...: every bit matters
            self.use(l, bl, f'`{show(t)}`', facts)
            self.use(r, br, f'`{show(t)}`', facts)
            return None
        if k == 'list':
            for x in t[1]:
                self.use(x, self.bits(x, facts), 'an element of the decoded value', facts)
            return None
        if k == 'index':
            self.use(t[1], self.bits(t[1], facts), 'an indexed table', facts)
            self.use(t[2], self.bits(t[2], facts), f'the index of `{show(t)[:60]}`', facts)
            return None
        if k == 'sel':
            self.use(t[1], self.bits(t[1], facts), 'an attribute access', facts)
            return None
        if k == 'call':
            nm = t[1][1] if t[1][0] == 'name' else None
            pure = nm in ('int', 'float', 'len', 'abs', 'bool', 'str', 'min', 'max', 'round') or (nm or '').startswith('math.')
            for _, a in t[2]:
                b = self.bits(a, facts)
                if b is not None:
                    if pure or nm is None:
                        self.use(a, b, f'an argument of {show(t[1])}(...)', facts)
                    else:
                        self.opaque.append((a, b, f'an argument of {show(t[1])}(...), whose body is not available to the analysis'))
            return None
        return None

    def cond(self, c: tuple, facts: Dict[Any, bool]) -> None:
        if self._sign_test(c) is not None:
            return
        self.use(c, self.bits(c, facts), 'a branch condition', facts)

    def use(self, t: tuple, b: Optional[int], what: str, facts: Dict[Any, bool]) -> None:
        if b is not None:
            self.findings.append((t, b, what))

    def path_facts(self, conds: List[Tuple[tuple, bool, int]]) -> Dict[Any, bool]:
        facts: Dict[Any, bool] = {}
        for c, pol, _ in conds:
            stt = self._sign_test(c if pol else ('un', '!', c))
            if stt is not None:
                facts[repr(stt[0])] = stt[1]
        return facts


# --------------------------------------------------------------------------------------
# bit-field domain: integers as vectors of constant / symbolic bits, arithmetic terms in normal form
# --------------------------------------------------------------------------------------
#
# BV     an integer in two's complement with infinitely many bits: explicit low bits + a `fill` bit repeated above them.  A bit is
#        0, 1 or a literal ('s', source, index, negated) - bit `index` of the quantity `source` (a named field of the word, or an
#        uninterpreted term).  Every operation is exact or raises Unrepresentable (never approximates), so equality of two BVs is
#        equality of the integers for EVERY value of the symbolic bits.
# Poly   arithmetic over symbols / uninterpreted applications / floor-divisions in polynomial normal form; two formulas are the same
#        function iff their normal forms coincide (sound, not complete).
# A comparison that the constant bits and the interval of the symbolic ones do not decide raises Undecided(literal): the caller splits
# the case on that one bit (finitely many splits), it never guesses.


class Unrepresentable(AnalysisError):
    """The operation leaves the domain (e.g. a carry that depends on two different symbols)."""


class Undecided(Exception):
    def __init__(self, lit: Optional[tuple], what: str):
        super().__init__(what)
        self.lit, self.what = lit, what


class PathRaises(Exception):
    """The modelled expression raises on this path."""


def _lit(src: Any, idx: Any, neg: bool = False) -> tuple:
    return ('s', src, idx, neg)


def _bnot(a: Any) -> Any:
    if a in (0, 1):
        return 1 - a
    return ('s', a[1], a[2], not a[3])


def _band(a: Any, b: Any) -> Any:
    if a == 0 or b == 0:
        return 0
    if a == 1:
        return b
    if b == 1:
        return a
    if a == b:
        return a
    if a == _bnot(b):
        return 0
    raise Unrepresentable(f'conjunction of two different symbolic bits {a[1:3]} & {b[1:3]}')


def _bor(a: Any, b: Any) -> Any:
    return _bnot(_band(_bnot(a), _bnot(b)))


def _bxor(a: Any, b: Any) -> Any:
    if a == 0:
        return b
    if b == 0:
        return a
    if a == 1:
        return _bnot(b)
    if b == 1:
        return _bnot(a)
    if a == b:
        return 0
    if a == _bnot(b):
        return 1
    raise Unrepresentable(f'exclusive-or of two different symbolic bits {a[1:3]} ^ {b[1:3]}')


def _bmaj(a: Any, b: Any, c: Any) -> Any:
    return _bor(_bor(_band(a, b), _band(a, c)), _band(b, c))


class BV:
    __slots__ = ('bits', 'fill')

    def __init__(self, bits: Tuple[Any, ...], fill: Any = 0):
        bits = list(bits)
        while bits and bits[-1] == fill:
            bits.pop()
        self.bits: Tuple[Any, ...] = tuple(bits)
        self.fill = fill

    @staticmethod
    def const(n: int) -> 'BV':
        fill = 1 if n < 0 else 0
        bits = []
        m = n
        for _ in range(max(n.bit_length(), 1) + 1):
            bits.append(m & 1)
            m >>= 1
        return BV(tuple(bits), fill)

    @staticmethod
    def sym(src: Any, width: int, assume: Optional[Dict[tuple, int]] = None, lo: int = 0) -> 'BV':
        """bits lo..lo+width-1 of the non-negative quantity `src`"""
        assume = assume or {}
        return BV(tuple(assume.get((src, i), _lit(src, i)) for i in range(lo, lo + width)), 0)

    def key(self) -> tuple:
        return ('bv', self.bits, self.fill)

    def bit(self, i: int) -> Any:
        return self.bits[i] if i < len(self.bits) else self.fill

    def value(self) -> Optional[int]:
        if self.fill not in (0, 1) or any(b not in (0, 1) for b in self.bits):
            return None
        v = sum(b << i for i, b in enumerate(self.bits))
        return v - (1 << len(self.bits)) if self.fill == 1 else v

    def interval(self) -> Tuple[Optional[int], Optional[int]]:
        if self.fill not in (0, 1):
            return (None, None)
        lo = sum(1 << i for i, b in enumerate(self.bits) if b == 1)
        hi = lo + sum(1 << i for i, b in enumerate(self.bits) if b not in (0, 1))
        if self.fill == 1:
            off = 1 << len(self.bits)
            return (lo - off, hi - off)
        return (lo, hi)

    def top_symbol(self) -> Optional[tuple]:
        if self.fill not in (0, 1):
            return self.fill
        for b in reversed(self.bits):
            if b not in (0, 1):
                return b
        return None

    def symbols(self) -> List[tuple]:
        return [b for b in self.bits + (self.fill,) if b not in (0, 1)]

    def substitute(self, assign: Callable[[Any, Any], int]) -> int:
        """concrete value under an assignment of the symbolic bits (witness printing only)"""
        def v(b):
            if b in (0, 1):
                return b
            x = assign(b[1], b[2])
            return (1 - x) if b[3] else x
        bits = [v(b) for b in self.bits]
        f = v(self.fill)
        val = sum(b << i for i, b in enumerate(bits))
        return val - (1 << len(bits)) if f == 1 else val

    # ---- operations -------------------------------------------------------------
    def _zip(self, o: 'BV') -> int:
        return max(len(self.bits), len(o.bits))

    def band(self, o: 'BV') -> 'BV':
        n = self._zip(o)
        return BV(tuple(_band(self.bit(i), o.bit(i)) for i in range(n)), _band(self.fill, o.fill))

    def bor(self, o: 'BV') -> 'BV':
        n = self._zip(o)
        return BV(tuple(_bor(self.bit(i), o.bit(i)) for i in range(n)), _bor(self.fill, o.fill))

    def bxor(self, o: 'BV') -> 'BV':
        n = self._zip(o)
        return BV(tuple(_bxor(self.bit(i), o.bit(i)) for i in range(n)), _bxor(self.fill, o.fill))

    def inv(self) -> 'BV':
        return BV(tuple(_bnot(b) for b in self.bits), _bnot(self.fill))

    def shl(self, n: int) -> 'BV':
        return BV((0,) * n + self.bits, self.fill)

    def shr(self, n: int) -> 'BV':
        """arithmetic shift (Python >>, Scala >> on the sign-extended view)"""
        return BV(self.bits[n:], self.fill)

    def add(self, o: 'BV') -> 'BV':
        n = self._zip(o) + 1
        out = []
        c: Any = 0
        for i in range(n):
            a, b = self.bit(i), o.bit(i)
            out.append(_bxor(_bxor(a, b), c))
            c = _bmaj(a, b, c)
        # the infinite tail: both operands are constant-per-position (their fills) from here on
        fa, fb = self.fill, o.fill
        for _ in range(3):
            s = _bxor(_bxor(fa, fb), c)
            c2 = _bmaj(fa, fb, c)
            if c2 == c:
                return BV(tuple(out), s)
            out.append(s)
            c = c2
        raise Unrepresentable('carry into the sign extension does not stabilise')

    def neg(self) -> 'BV':
        return self.inv().add(BV.const(1))

    def sub(self, o: 'BV') -> 'BV':
        return self.add(o.neg())

    def wrap(self, width: int = 32) -> 'BV':
        """the value as a `width`-bit two's complement integer (JVM Int): low bits kept, sign-extended from bit width-1"""
        low = tuple(self.bit(i) for i in range(width))
        return BV(low, low[width - 1])

    def lshr(self, n: int, width: int = 32) -> 'BV':
        """JVM >>> on a `width`-bit integer"""
        low = tuple(self.bit(i) for i in range(width))
        return BV(low[n:], 0)


def show_bv(b: BV) -> str:
    """compact rendering: runs of bits of one source as src[hi..lo], constants as 0/1, most significant first"""
    parts: List[str] = []
    bits = list(b.bits)
    i = len(bits) - 1
    while i >= 0:
        x = bits[i]
        if x in (0, 1):
            j = i
            while j >= 0 and bits[j] in (0, 1):
                j -= 1
            parts.append(''.join(str(bits[k]) for k in range(i, j, -1)))
            i = j
        else:
            j = i
            while j - 1 >= 0 and bits[j - 1] not in (0, 1) and bits[j - 1][1] == x[1] and bits[j - 1][3] == x[3] and isinstance(x[2], int) and bits[j - 1][2] == bits[j][2] - 1:
                j -= 1
            nm = _show_src(x[1])
            parts.append(('~' if x[3] else '') + (f'{nm}[{x[2]}..{bits[j][2]}]' if j != i else f'{nm}[{x[2]}]'))
            i = j - 1
    f = b.fill
    ftxt = '' if f == 0 else ('…1' if f == 1 else f'…{_show_src(f[1])}[{f[2]}]')
    return (ftxt + ':' if ftxt else '') + (':'.join(parts) if parts else '0')


def _show_src(src: Any) -> str:
    if isinstance(src, str):
        return src
    if isinstance(src, tuple) and src and src[0] == 'app':
        return f'{src[1]}(' + ', '.join(_show_key(a) for a in src[2]) + ')'
    if isinstance(src, tuple) and src and src[0] == 'poly':
        return '(' + show_poly_key(src) + ')'
    return str(src)


def _show_key(k: Any) -> str:
    if isinstance(k, tuple) and k and k[0] == 'bv':
        return show_bv(BV(k[1], k[2]))
    if isinstance(k, tuple) and k and k[0] == 'poly':
        return show_poly_key(k)
    return str(k)


# ---- polynomial normal form --------------------------------------------------------------


class Poly:
    """sum of integer-coefficient monomials over atoms; atoms are hashable keys: ('sym', name) | ('app', f, argkeys) | ('fdiv', pkey, qkey) | ('bvatom', bvkey)"""
    __slots__ = ('terms',)

    def __init__(self, terms: Optional[Dict[tuple, int]] = None):
        self.terms: Dict[tuple, int] = {m: c for m, c in (terms or {}).items() if c != 0}

    @staticmethod
    def const(n: int) -> 'Poly':
        return Poly({(): n})

    @staticmethod
    def atom(a: Any) -> 'Poly':
        return Poly({((a, 1),): 1})

    def key(self) -> tuple:
        return ('poly', tuple(sorted(self.terms.items(), key=repr)))

    def as_const(self) -> Optional[int]:
        if not self.terms:
            return 0
        if set(self.terms) == {()}:
            return self.terms[()]
        return None

    def single_atom(self) -> Optional[Any]:
        if len(self.terms) == 1:
            (m, c), = self.terms.items()
            if c == 1 and len(m) == 1 and m[0][1] == 1:
                return m[0][0]
        return None

    def __add__(self, o: 'Poly') -> 'Poly':
        t = dict(self.terms)
        for m, c in o.terms.items():
            t[m] = t.get(m, 0) + c
        return Poly(t)

    def __neg__(self) -> 'Poly':
        return Poly({m: -c for m, c in self.terms.items()})

    def __sub__(self, o: 'Poly') -> 'Poly':
        return self + (-o)

    def __mul__(self, o: 'Poly') -> 'Poly':
        t: Dict[tuple, int] = {}
        for m1, c1 in self.terms.items():
            for m2, c2 in o.terms.items():
                d: Dict[Any, int] = {}
                for a, p in m1 + m2:
                    d[a] = d.get(a, 0) + p
                m = tuple(sorted(d.items(), key=repr))
                t[m] = t.get(m, 0) + c1 * c2
        return Poly(t)


def show_poly_key(k: tuple) -> str:
    out = []
    for m, c in k[1]:
        f = '*'.join((_show_src(a[1]) if a[0] == 'sym' else (_show_src(a) if a[0] == 'app' else ('(' + show_poly_key(a[1]) + ' // ' + show_poly_key(a[2]) + ')' if a[0] == 'fdiv' else _show_key(a[1]))))
                     + (f'^{p}' if p != 1 else '') for a, p in m)
        out.append((f'{c}*' if (c != 1 and f) else (str(c) if not f else '')) + f)
    return ' + '.join(out) if out else '0'


# ---- abstract evaluation of IR terms -----------------------------------------------------------


class CallValue:
    def __init__(self, alleles: Any, phased: Any):
        self.alleles, self.phased = alleles, phased


class TermEval:
    """Abstract value of an IR term (Python or Scala subset) over BV / Poly / bool / list.
    env:        name -> value (int, bool, BV, Poly, list)
    funcs:      name -> (parameter names, IR body) - helper definitions evaluated in place (e.g. the Scala accessors)
    uninterp:   name -> (symbol, result width in bits) - calls treated as applications of an uninterpreted function symbol
    tables:     name -> (symbol, width) - `name[i]` treated likewise
    nonneg:     keys of Polys known to be >= 0 (facts such as A0 <= A1, stored as key(A1 - A0))
    assume:     (source, index) -> 0/1, the case splits made so far
    opaque_width: assumed width of an arithmetic term when it is used as a bit pattern (non-negative, below 2^opaque_width)"""

    def __init__(self, lang: str, env: Dict[str, Any], funcs: Optional[Dict[str, Tuple[List[str], tuple]]] = None, uninterp: Optional[Dict[str, Tuple[str, int]]] = None,
                 tables: Optional[Dict[str, Tuple[str, int]]] = None, nonneg: Optional[set] = None, assume: Optional[Dict[tuple, int]] = None, opaque_width: int = 29,
                 ctor: Tuple[str, ...] = ()):
        self.lang, self.env = lang, env
        self.funcs, self.uninterp, self.tables = funcs or {}, uninterp or {}, tables or {}
        self.nonneg = nonneg or set()
        self.assume = assume or {}
        self.opaque_width = opaque_width
        self.ctor = ctor
        self.hooks: Dict[str, Callable[[List[Any]], Any]] = {}   # name -> function of the evaluated arguments (rule-provided models of extracted tables)
        self.depth = 0

    # ---- coercions ----------------------------------------------------------------
    def to_bv(self, v: Any, what: str = '') -> BV:
        if isinstance(v, BV):
            return v
        if isinstance(v, bool):
            return BV.const(int(v))
        if isinstance(v, int):
            return BV.const(v)
        if isinstance(v, Poly):
            c = v.as_const()
            if c is not None:
                return BV.const(c)
            a = v.single_atom()
            if a is not None and a[0] == 'bvatom':
                return BV(a[1][1], a[1][2])
            if a is not None and a[0] == 'app':
                width = next((w for s_, w in list(self.uninterp.values()) + list(self.tables.values()) if s_ == a[1]), self.opaque_width)
                return BV.sym(a, width, self.assume)
            src = a if (a is not None and a[0] == 'sym') else v.key()
            return BV.sym(src if not (isinstance(src, tuple) and src[0] == 'sym') else src[1], self.opaque_width, self.assume)
        raise AnalysisError(f'term domain: {type(v).__name__} used as a bit pattern {what}')

    def to_poly(self, v: Any) -> Poly:
        if isinstance(v, Poly):
            return v
        if isinstance(v, bool):
            return Poly.const(int(v))
        if isinstance(v, int):
            return Poly.const(v)
        if isinstance(v, BV):
            c = v.value()
            if c is not None:
                return Poly.const(c)
            # a whole symbol (all bits of one non-negative source, in order) is that symbol again
            if v.fill == 0 and v.bits and all(b not in (0, 1) and not b[3] and b[1] == v.bits[0][1] and b[2] == i for i, b in enumerate(v.bits)) and len(v.bits) == self.opaque_width \
                    and isinstance(v.bits[0][1], str):
                return Poly.atom(('sym', v.bits[0][1]))
            return Poly.atom(('bvatom', v.key()))
        raise AnalysisError(f'term domain: {type(v).__name__} used as a number')

    def key(self, v: Any) -> Any:
        if isinstance(v, (BV, Poly)):
            c = v.value() if isinstance(v, BV) else v.as_const()
            if c is not None:
                return ('int', c)
            if isinstance(v, Poly):
                return self.to_bv(v).key() if v.single_atom() is not None else v.key()
            return v.key()
        if isinstance(v, bool):
            return ('bool', v)
        if isinstance(v, int):
            return ('int', v)
        if isinstance(v, list):
            return ('list', tuple(self.key(x) for x in v))
        if isinstance(v, CallValue):
            return ('Call', self.key(v.alleles), self.key(v.phased))
        if v is None:
            return ('none',)
        raise AnalysisError(f'term domain: no canonical form for {type(v).__name__}')

    def show(self, v: Any) -> str:
        if isinstance(v, BV):
            c = v.value()
            return str(c) if c is not None else show_bv(v)
        if isinstance(v, Poly):
            c = v.as_const()
            return str(c) if c is not None else show_poly_key(v.key())
        if isinstance(v, list):
            return '[' + ', '.join(self.show(x) for x in v) + ']'
        if isinstance(v, CallValue):
            return f'Call({self.show(v.alleles)}, phased={self.show(v.phased)})'
        return str(v)

    # ---- evaluation -------------------------------------------------------------------
    def ev(self, t: tuple) -> Any:
        k = t[0]
        if k in ('int', 'bool'):
            return t[1]
        if k == 'float':
            raise AnalysisError('term domain: floating-point constant')
        if k == 'str':
            return ('str', t[1])
        if k == 'paren':
            return self.ev(t[1])
        if k == 'raise':
            raise PathRaises(t[1] if len(t) > 1 else 'raise')
        if k == 'name':
            return self.name(t[1])
        if k == 'sel':
            if t[1][0] == 'name' and f'{t[1][1]}.{t[2]}' in self.env:
                return self.env[f'{t[1][1]}.{t[2]}']
            return self.attr(self.ev(t[1]), t[2])
        if k == 'list':
            return [self.ev(x) for x in t[1]]
        if k == 'index':
            if t[1][0] == 'name' and t[1][1] in self.tables and t[1][1] not in self.env:
                return self.apply(self.tables[t[1][1]][0], [self.ev(t[2])])
            base, i = self.ev(t[1]), self.ev(t[2])
            if isinstance(base, list) and isinstance(i, int) and not isinstance(i, bool):
                if not (-len(base) <= i < len(base)):
                    raise PathRaises(f'IndexError: index {i} of a sequence of length {len(base)}')
                return base[i]
            raise AnalysisError(f'term domain: unsupported subscript `{show(t)[:60]}`')
        if k == 'un':
            v = self.ev(t[2])
            if t[1] == '!':
                if not isinstance(v, bool):
                    v = self.truth(v, t[2])
                return not v
            if t[1] == '+':
                return v
            if isinstance(v, int) and not isinstance(v, bool):
                return -v if t[1] == '-' else ~v
            if t[1] == '-':
                return -self.to_poly(v) if isinstance(v, Poly) else self.fit(self.to_bv(v).neg())
            if t[1] == '~':
                return self.fit(self.to_bv(v).inv())
        if k == 'if':
            try:
                c = self.truth(self.ev(t[1]), t[1])
            except Undecided:
                # a condition that cannot be decided does not matter when both outcomes are the same term
                try:
                    a, b = self.ev(t[2]), self.ev(t[3])
                except PathRaises:
                    raise
                if self.key(a) == self.key(b):
                    return a
                raise
            return self.ev(t[2]) if c else self.ev(t[3])
        if k == 'block':
            saved = dict(self.env)
            try:
                res: Any = None
                for st in t[1]:
                    if st[0] == 'val':
                        self.env[st[1]] = self.ev(from_scala(st[2]) if self.lang == 'scala' else st[2])
                    elif st[0] == 'expr':
                        res = self.ev(from_scala(st[1]) if self.lang == 'scala' else st[1])
                    else:
                        raise AnalysisError(f'term domain: unsupported statement {st[0]} in a block')
                return res
            finally:
                self.env = saved
        if k == 'bin':
            op = t[1]
            if op == '&&':
                return self.truth(self.ev(t[2]), t[2]) and self.truth(self.ev(t[3]), t[3])
            if op == '||':
                return self.truth(self.ev(t[2]), t[2]) or self.truth(self.ev(t[3]), t[3])
            return self.binop(op, self.ev(t[2]), self.ev(t[3]), t)
        if k == 'call':
            return self.call(t)
        raise AnalysisError(f'term domain: unsupported node {k}')

    def name(self, n: str) -> Any:
        if n in self.env:
            return self.env[n]
        if n in ('True', 'true'):
            return True
        if n in ('False', 'false'):
            return False
        if n == 'None':
            return None
        if '.' in n:
            base, attr = n.rsplit('.', 1)
            if base in self.env:
                return self.attr(self.env[base], attr)
        raise AnalysisError(f'term domain: unbound name {n}')

    def attr(self, v: Any, attr: str) -> Any:
        if attr in ('toInt', 'toLong'):
            if isinstance(v, bool):
                return int(v)
            return v
        if attr == 'length' and isinstance(v, list):
            return len(v)
        raise AnalysisError(f'term domain: unsupported attribute .{attr}')

    def truth(self, v: Any, t: tuple) -> bool:
        if isinstance(v, bool):
            return v
        if isinstance(v, int):
            return v != 0
        if isinstance(v, list):
            return bool(v)
        if isinstance(v, BV):
            c = v.value()
            if c is not None:
                return c != 0
            if any(b == 1 for b in v.bits) or v.fill == 1:
                return True
            raise Undecided(v.top_symbol(), f'truth of `{show(t)[:60]}`')
        raise AnalysisError(f'term domain: truth value of `{show(t)[:60]}`')

    def fit(self, b: BV) -> Any:
        """results of integer operators: unbounded in Python, 32-bit wrapped on the JVM"""
        if self.lang == 'scala':
            b = b.wrap(32)
        c = b.value()
        return c if c is not None else b

    def apply(self, sym: str, args: List[Any]) -> Poly:
        return Poly.atom(('app', sym, tuple(self.key(a) for a in args)))

    def binop(self, op: str, a: Any, b: Any, t: tuple) -> Any:
        conc = lambda x: isinstance(x, int) and not isinstance(x, bool)
        if isinstance(a, bool) and isinstance(b, bool) and op in ('|', '&', '==', '!='):
            return {'|': a or b, '&': a and b, '==': a == b, '!=': a != b}[op]
        if isinstance(a, bool):
            a = int(a)
        if isinstance(b, bool):
            b = int(b)
        if conc(a) and conc(b):
            try:
                r = _binop(op, a, b, self.lang)
            except Undefined as e:
                raise PathRaises(str(e))
            return r
        if op in ('==', '!=', '<', '<=', '>', '>='):
            return self.compare(op, a, b, t)
        if op in ('<<', '>>', '>>>'):
            s = b if conc(b) else (self.to_bv(b).value() if isinstance(b, BV) else None)
            if s is None or s < 0 or s > 256:
                raise AnalysisError(f'term domain: shift by a non-constant in `{show(t)[:60]}`')
            x = self.to_bv(a)
            if self.lang == 'scala':
                s &= 31
                x = x.wrap(32)
            if op == '<<':
                return self.fit(x.shl(s))
            if op == '>>':
                return self.fit(x.shr(s))
            if self.lang != 'scala':
                raise AnalysisError('term domain: >>> in Python')
            return self.fit(x.lshr(s, 32))
        if op in ('&', '|', '^'):
            x, y = self.to_bv(a), self.to_bv(b)
            return self.fit({'&': x.band, '|': x.bor, '^': x.bxor}[op](y))
        def bitlike(x: Any) -> bool:
            return isinstance(x, BV) or (isinstance(x, Poly) and x.single_atom() is not None and x.single_atom()[0] in ('sym', 'app'))
        if op == '*':
            for x, y in ((a, b), (b, a)):
                if bitlike(x) and conc(y) and y > 0 and y & (y - 1) == 0:
                    return self.fit(self.to_bv(x).shl(y.bit_length() - 1))
        if op in ('+', '-'):
            if (isinstance(a, BV) or isinstance(b, BV)) or (bitlike(a) and conc(b)) or (bitlike(b) and conc(a)):
                try:
                    x, y = self.to_bv(a), self.to_bv(b)
                    return self.fit(x.add(y) if op == '+' else x.sub(y))
                except Unrepresentable:
                    pass  # carries depend on several symbols: keep the sum as an arithmetic term
            pa, pb = self.to_poly(a), self.to_poly(b)
            return pa + pb if op == '+' else pa - pb
        if op == '*':
            for x, y in ((a, b), (b, a)):
                if isinstance(x, BV) and conc(y) and y > 0 and y & (y - 1) == 0:
                    return self.fit(x.shl(y.bit_length() - 1))
            return self.to_poly(a) * self.to_poly(b)
        if op in ('//', '/'):
            if op == '/' and self.lang == 'py':
                raise AnalysisError('term domain: true division')
            if isinstance(a, BV) and conc(b) and b > 0 and b & (b - 1) == 0 and a.fill == 0:
                return self.fit(a.shr(b.bit_length() - 1))
            pa, pb = self.to_poly(a), self.to_poly(b)
            # JVM `/` truncates, Python `//` floors: the same on the non-negative operands in scope (allele indices)
            return Poly.atom(('fdiv', pa.key(), pb.key()))
        if op == '%':
            if conc(b) and b > 0 and b & (b - 1) == 0 and self.lang == 'py':
                return self.fit(self.to_bv(a).band(BV.const(b - 1)))
        if op == '**' and conc(a) and conc(b):
            return a ** b
        raise AnalysisError(f'term domain: unsupported operator {op} in `{show(t)[:60]}`')

    def compare(self, op: str, a: Any, b: Any, t: tuple) -> bool:
        flip = {'<': '>', '>': '<', '<=': '>=', '>=': '<=', '==': '==', '!=': '!='}
        if isinstance(b, BV) and not isinstance(a, BV):
            a, b, op = b, a, flip[op]
        if isinstance(a, BV) and (isinstance(b, int) or isinstance(b, BV)):
            bb = self.to_bv(b)
            cb = bb.value()
            if op in ('==', '!='):
                n = max(len(a.bits), len(bb.bits)) + 1
                undecided = None
                for i in range(n):
                    x, y = a.bit(i), bb.bit(i)
                    if x in (0, 1) and y in (0, 1):
                        if x != y:
                            return op == '!='
                    elif x != y:
                        undecided = x if x not in (0, 1) else y
                if undecided is None:
                    return op == '=='
                raise Undecided(undecided, f'`{show(t)[:60]}`')
            if cb is not None:
                lo, hi = a.interval()
                if lo is not None:
                    if op == '<':
                        res = True if hi < cb else (False if lo >= cb else None)
                    elif op == '<=':
                        res = True if hi <= cb else (False if lo > cb else None)
                    elif op == '>':
                        res = True if lo > cb else (False if hi <= cb else None)
                    else:
                        res = True if lo >= cb else (False if hi < cb else None)
                    if res is not None:
                        return res
                raise Undecided(a.top_symbol(), f'`{show(t)[:60]}`')
        pa, pb = self.to_poly(a), self.to_poly(b)
        d = pa - pb
        c = d.as_const()
        if c is not None:
            return {'==': c == 0, '!=': c != 0, '<': c < 0, '<=': c <= 0, '>': c > 0, '>=': c >= 0}[op]
        if op in ('<=', '>') and (pb - pa).key() in self.nonneg:      # b - a >= 0
            return op == '<='
        if op in ('>=', '<') and d.key() in self.nonneg:               # a - b >= 0
            return op == '>='
        raise Undecided(None, f'`{show(t)[:60]}` (arithmetic comparison not implied by the known facts)')

    def call(self, t: tuple) -> Any:
        fn = t[1]
        nm = fn[1] if fn[0] == 'name' else None
        if nm is None:
            raise AnalysisError(f'term domain: call of `{show(fn)[:40]}`')
        if nm in self.ctor:
            args = {i: self.ev(a) for i, (kw, a) in enumerate(t[2]) if kw is None}
            kws = {kw: self.ev(a) for kw, a in t[2] if kw is not None}
            alleles = args.get(0, kws.get('alleles'))
            phased = args.get(1, kws.get('phased', False))
            if not isinstance(alleles, list):
                raise AnalysisError('term domain: Call(...) built from something that is not a list of alleles')
            return CallValue(alleles, phased)
        if nm in self.hooks:
            return self.hooks[nm]([self.ev(a) for _, a in t[2]])
        if nm in self.uninterp:
            return self.apply(self.uninterp[nm][0], [self.ev(a) for _, a in t[2]])
        if nm in self.funcs:
            if self.depth > 12:
                raise AnalysisError('term domain: helper calls nested too deep')
            params, body = self.funcs[nm]
            vals = [self.ev(a) for _, a in t[2]]
            if len(vals) > len(params):
                raise AnalysisError(f'term domain: too many arguments for {nm}')
            saved = self.env
            self.env = dict(saved)
            self.env.update(dict(zip(params, vals)))
            self.depth += 1
            try:
                return self.ev(body)
            finally:
                self.depth -= 1
                self.env = saved
        if nm in ('int', 'bool') and len(t[2]) == 1:
            v = self.ev(t[2][0][1])
            if isinstance(v, bool):
                return int(v) if nm == 'int' else v
            return v if nm == 'int' else self.truth(v, t)
        if nm == 'len' and len(t[2]) == 1:
            a = t[2][0][1]
            if a[0] == 'name' and a[1] in self.tables and a[1] not in self.env:
                return Poly.atom(('sym', f'len({a[1]})'))
            v = self.ev(a)
            if isinstance(v, list):
                return len(v)
        raise AnalysisError(f'term domain: call of `{nm}` is neither a known helper nor an uninterpreted symbol')
