"""Branch-polarity facts and guarded reachability on the pyfacts CFG (used by C12, C30, C13, C15).

`Facts.true(e)` / `Facts.false(e)` list the atomic boolean facts implied by an expression being true / false
(and / or / not are structure; `self.helper()` calls with a single `return <expr>` body are inlined, bounded).
`unguarded_path` searches a CFG path that never leaves a test node through an edge that guarantees a wanted fact.
Nothing here imports or runs repository code.
"""
from __future__ import annotations

import ast
from typing import Callable, Dict, List, Optional, Sequence, Tuple

from . import pyfacts as pf

Fact = Tuple[ast.expr, bool]


class Facts:
    def __init__(self, cls: Optional[ast.ClassDef] = None):
        self.methods: Dict[str, pf.FuncDef] = {}
        if cls is not None:
            for st in cls.body:
                if isinstance(st, (ast.FunctionDef, ast.AsyncFunctionDef)):
                    self.methods[st.name] = st

    def inline(self, e: ast.AST, depth: int = 1) -> Optional[ast.expr]:
        if depth <= 0 or not (isinstance(e, ast.Call) and not e.args and not e.keywords and isinstance(e.func, ast.Attribute)
                              and isinstance(e.func.value, ast.Name) and e.func.value.id == 'self'):
            return None
        fn = self.methods.get(e.func.attr)
        if fn is None or isinstance(fn, ast.AsyncFunctionDef):
            return None
        body = [s for s in fn.body if not (isinstance(s, ast.Expr) and isinstance(s.value, ast.Constant))]
        if len(body) == 1 and isinstance(body[0], ast.Return) and body[0].value is not None:
            return body[0].value
        return None

    def true(self, e: ast.expr, depth: int = 3) -> List[Fact]:
        if isinstance(e, ast.BoolOp) and isinstance(e.op, ast.And):
            return [f for v in e.values for f in self.true(v, depth)]
        if isinstance(e, ast.UnaryOp) and isinstance(e.op, ast.Not):
            return self.false(e.operand, depth)
        if isinstance(e, ast.Await):
            return [(e, True), (e.value, True)]
        inl = self.inline(e, depth)
        if inl is not None:
            return [(e, True)] + self.true(inl, depth - 1)
        return [(e, True)]

    def false(self, e: ast.expr, depth: int = 3) -> List[Fact]:
        if isinstance(e, ast.BoolOp) and isinstance(e.op, ast.Or):
            return [f for v in e.values for f in self.false(v, depth)]
        if isinstance(e, ast.UnaryOp) and isinstance(e.op, ast.Not):
            return self.true(e.operand, depth)
        inl = self.inline(e, depth)
        if inl is not None:
            return [(e, False)] + self.false(inl, depth - 1)
        return [(e, False)]

    def edge(self, n: pf.Node, label: str) -> List[Fact]:
        if n.kind != 'test' or not isinstance(n.ast, ast.expr):
            return []
        if label == 'T':
            return self.true(n.ast)
        if label == 'F':
            return self.false(n.ast)
        return []


def unguarded_path(cfg: pf.CFG, facts: Facts, starts: Sequence[pf.Node], goal: Callable[[pf.Node], bool],
                   pred: Callable[[ast.expr, bool], bool], avoid: Optional[Callable[[pf.Node], bool]] = None) -> Optional[List[pf.Node]]:
    """A path start -> goal that uses no branch edge guaranteeing `pred` (and passes no `avoid` node); None if there is none."""
    prev: Dict[int, Optional[pf.Node]] = {}
    queue: List[pf.Node] = []
    for s in starts:
        prev[s.id] = None
        queue.append(s)
    while queue:
        n = queue.pop(0)
        for m, lab in n.succ:
            if any(pred(e, pol) for e, pol in facts.edge(n, lab)):
                continue
            if m.id in prev:
                continue
            prev[m.id] = n
            if goal(m):
                path = [m]
                cur: Optional[pf.Node] = n
                while cur is not None:
                    path.append(cur)
                    cur = prev[cur.id]
                return list(reversed(path))
            if avoid is not None and avoid(m):
                continue
            queue.append(m)
    return None


def fmt_path(path: Optional[List[pf.Node]]) -> str:
    if not path:
        return ''
    keep = path if len(path) <= 5 else path[:2] + path[-3:]
    return '[' + ' -> '.join(f'{n.text()[:45]}@{n.lineno}' for n in keep) + ']'


def eq_sides(e: ast.AST) -> Optional[Tuple[str, str, type]]:
    if isinstance(e, ast.Compare) and len(e.ops) == 1 and isinstance(e.ops[0], (ast.Eq, ast.NotEq, ast.Is, ast.IsNot)):
        return pf.nsrc(e.left), pf.nsrc(e.comparators[0]), type(e.ops[0])
    return None


def is_eq_fact(e: ast.AST, pol: bool, a: str, b: str) -> bool:
    """The fact (e, pol) says `a == b` (either operand order; `!=` under negative polarity)."""
    s = eq_sides(e)
    if s is None or {s[0], s[1]} != {a, b}:
        return False
    return (s[2] in (ast.Eq, ast.Is) and pol) or (s[2] in (ast.NotEq, ast.IsNot) and not pol)


def is_neq_fact(e: ast.AST, pol: bool, a: str, b: str) -> bool:
    s = eq_sides(e)
    if s is None or {s[0], s[1]} != {a, b}:
        return False
    return (s[2] in (ast.Eq, ast.Is) and not pol) or (s[2] in (ast.NotEq, ast.IsNot) and pol)


def def_nodes(cfg: pf.CFG, name: str) -> List[pf.Node]:
    """CFG nodes that (re)bind the local variable `name`."""
    out = []
    for n in cfg.nodes:
        if n.ast is None:
            continue
        if n.kind == 'loop' and isinstance(n.ast, (ast.For, ast.AsyncFor)) and name in pf.names_in(n.ast.target):
            out.append(n)
        elif n.kind == 'stmt' and isinstance(n.ast, (ast.Assign, ast.AnnAssign, ast.AugAssign)):
            tg = n.ast.targets if isinstance(n.ast, ast.Assign) else [n.ast.target]
            if any(isinstance(x, ast.Name) and x.id == name and isinstance(x.ctx, ast.Store) for t in tg for x in ast.walk(t)):
                out.append(n)
        elif n.kind == 'with' and any(i.optional_vars is not None and name in pf.names_in(i.optional_vars) for i in n.ast.items):  # type: ignore[attr-defined]
            out.append(n)
    return out
