"""Branch-polarity facts and guarded reachability on the pyfacts CFG (used by C12, C30, C13, C15).

`Facts.true(e)` / `Facts.false(e)` list the atomic boolean facts implied by an expression being true / false
(and / or / not are structure; `self.helper()` calls with a single `return <expr>` body are inlined, bounded).
`unguarded_path` searches a CFG path that never leaves a test node through an edge that guarantees a wanted fact.
Nothing here imports or runs repository code.
"""
from __future__ import annotations

import ast
from typing import Callable, Dict, List, Optional, Sequence, Tuple

from . import pyfacts as pf

Fact = Tuple[ast.expr, bool]


class Facts:
    def __init__(self, cls: Optional[ast.ClassDef] = None):
        self.methods: Dict[str, pf.FuncDef] = {}
        if cls is not None:
            for st in cls.body:
                if isinstance(st, (ast.FunctionDef, ast.AsyncFunctionDef)):
                    self.methods[st.name] = st

    def inline(self, e: ast.AST, depth: int = 1) -> Optional[ast.expr]:
        if depth <= 0 or not (isinstance(e, ast.Call) and not e.args and not e.keywords and isinstance(e.func, ast.Attribute)
                              and isinstance(e.func.value, ast.Name) and e.func.value.id == 'self'):
            return None
        fn = self.methods.get(e.func.attr)
        if fn is None or isinstance(fn, ast.AsyncFunctionDef):
            return None
        body = [s for s in fn.body if not (isinstance(s, ast.Expr) and isinstance(s.value, ast.Constant))]
        if len(body) == 1 and isinstance(body[0], ast.Return) and body[0].value is not None:
            return body[0].value
        return None

    def true(self, e: ast.expr, depth: int = 3) -> List[Fact]:
        if isinstance(e, ast.BoolOp) and isinstance(e.op, ast.And):
            return [f for v in e.values for f in self.true(v, depth)]
        if isinstance(e, ast.UnaryOp) and isinstance(e.op, ast.Not):
            return self.false(e.operand, depth)
        if isinstance(e, ast.Await):
            return [(e, True), (e.value, True)]
        inl = self.inline(e, depth)
        if inl is not None:
            return [(e, True)] + self.true(inl, depth - 1)
        return [(e, True)]

    def false(self, e: ast.expr, depth: int = 3) -> List[Fact]:
        if isinstance(e, ast.BoolOp) and isinstance(e.op, ast.Or):
            return [f for v in e.values for f in self.false(v, depth)]
        if isinstance(e, ast.UnaryOp) and isinstance(e.op, ast.Not):
            return self.true(e.operand, depth)
        inl = self.inline(e, depth)
        if inl is not None:
            return [(e, False)] + self.false(inl, depth - 1)
        return [(e, False)]

    def edge(self, n: pf.Node, label: str) -> List[Fact]:
        if n.kind != 'test' or not isinstance(n.ast, ast.expr):
            return []
        if label == 'T':
            return self.true(n.ast)
        if label == 'F':
            return self.false(n.ast)
        return []


def unguarded_path(cfg: pf.CFG, facts: Facts, starts: Sequence[pf.Node], goal: Callable[[pf.Node], bool],
                   pred: Callable[[ast.expr, bool], bool], avoid: Optional[Callable[[pf.Node], bool]] = None) -> Optional[List[pf.Node]]:
    """A path start -> goal that uses no branch edge guaranteeing `pred` (and passes no `avoid` node); None if there is none."""
    prev: Dict[int, Optional[pf.Node]] = {}
    queue: List[pf.Node] = []
    for s in starts:
        prev[s.id] = None
        queue.append(s)
    while queue:
        n = queue.pop(0)
        for m, lab in n.succ:
            if any(pred(e, pol) for e, pol in facts.edge(n, lab)):
                continue
            if m.id in prev:
                continue
            prev[m.id] = n
            if goal(m):
                path = [m]
                cur: Optional[pf.Node] = n
                while cur is not None:
                    path.append(cur)
                    cur = prev[cur.id]
                return list(reversed(path))
            if avoid is not None and avoid(m):
                continue
            queue.append(m)
    return None


def fmt_path(path: Optional[List[pf.Node]]) -> str:
    if not path:
        return ''
    keep = path if len(path) <= 5 else path[:2] + path[-3:]
    return '[' + ' -> '.join(f'{n.text()[:45]}@{n.lineno}' for n in keep) + ']'


def eq_sides(e: ast.AST) -> Optional[Tuple[str, str, type]]:
    if isinstance(e, ast.Compare) and len(e.ops) == 1 and isinstance(e.ops[0], (ast.Eq, ast.NotEq, ast.Is, ast.IsNot)):
        return pf.nsrc(e.left), pf.nsrc(e.comparators[0]), type(e.ops[0])
    return None


def is_eq_fact(e: ast.AST, pol: bool, a: str, b: str) -> bool:
    """The fact (e, pol) says `a == b` (either operand order; `!=` under negative polarity)."""
    s = eq_sides(e)
    if s is None or {s[0], s[1]} != {a, b}:
        return False
    return (s[2] in (ast.Eq, ast.Is) and pol) or (s[2] in (ast.NotEq, ast.IsNot) and not pol)


def is_neq_fact(e: ast.AST, pol: bool, a: str, b: str) -> bool:
    s = eq_sides(e)
    if s is None or {s[0], s[1]} != {a, b}:
        return False
    return (s[2] in (ast.Eq, ast.Is) and not pol) or (s[2] in (ast.NotEq, ast.IsNot) and pol)


def def_nodes(cfg: pf.CFG, name: str) -> List[pf.Node]:
    """CFG nodes that (re)bind the local variable `name`."""
    out = []
    for n in cfg.nodes:
        if n.ast is None:
            continue
        if n.kind == 'loop' and isinstance(n.ast, (ast.For, ast.AsyncFor)) and name in pf.names_in(n.ast.target):
            out.append(n)
        elif n.kind == 'stmt' and isinstance(n.ast, (ast.Assign, ast.AnnAssign, ast.AugAssign)):
            tg = n.ast.targets if isinstance(n.ast, ast.Assign) else [n.ast.target]
            if any(isinstance(x, ast.Name) and x.id == name and isinstance(x.ctx, ast.Store) for t in tg for x in ast.walk(t)):
                out.append(n)
        elif n.kind == 'with' and any(i.optional_vars is not None and name in pf.names_in(i.optional_vars) for i in n.ast.items):  # type: ignore[attr-defined]
            out.append(n)
    return out


# --------------------------------------------------------------------------------------
# abstract dicts: what does a dict-valued argument contain when a given call is made?
# --------------------------------------------------------------------------------------


class Undecided(Exception):
    """The dict escapes to code the evaluation cannot follow (never a verdict)."""


class AbsDict:
    """Keys known to be present -> value expression (resolved into the scope of the analysed function; None = present, value unknown).
    `open` = further, unknown keys may be present (they cannot remove a known key, but a later unknown update may override its value:
    the evaluation turns overridden values into None)."""

    def __init__(self, items: Optional[Dict[str, Optional[ast.expr]]] = None, open_: bool = False):
        self.items: Dict[str, Optional[ast.expr]] = dict(items or {})
        self.open = open_

    def copy(self) -> 'AbsDict':
        return AbsDict(self.items, self.open)

    def merged(self, other: 'AbsDict') -> 'AbsDict':
        """self updated by other (other's keys win)."""
        out = self.copy()
        if other.open:
            out.open = True
            for k in out.items:
                out.items[k] = None
        out.items.update(other.items)
        return out

    def show(self) -> str:
        inner = ', '.join(f'{k!r}: {pf.nsrc(v) if v is not None else "?"}' for k, v in self.items.items())
        return '{' + inner + (', **?' if self.open else '') + '}'


_UNKNOWN = object()
_LOGGERS = ('log', 'logger', 'logging')


class _Subst(ast.NodeTransformer):
    def __init__(self, env: Dict[str, ast.expr]):
        self.env = env

    def visit_Name(self, node: ast.Name):
        if isinstance(node.ctx, ast.Load) and node.id in self.env:
            import copy
            return copy.deepcopy(self.env[node.id])
        return node

    def visit_Lambda(self, node):
        return node


class DictFlow:
    """Path-sensitive abstract evaluation of how a dict is built inside one function: dict literals, `dict(...)`, `{**a, 'k': v}`,
    `a | b`, `d['k'] = v`, `d.update(...)`, `d.setdefault`, `d.pop` / `del d['k']`, `d.copy()`, conditional expressions, and calls of
    plain same-class helper methods / module-level functions that return such a dict (evaluated the same way, parameters substituted).
    `at_call(call, expr)` lists the abstract dicts `expr` can denote when `call` is evaluated, one per path.  Values are returned with
    single-definition locals expanded.  Raises Undecided when the dict escapes (aliasing, passed to unknown code, computed keys)."""

    MAX_STATES = 128

    def __init__(self, m: pf.Module, fn: pf.FuncDef, methods: Optional[Dict[str, pf.FuncDef]] = None, env: Optional[Dict[str, ast.expr]] = None,
                 depth: int = 3):
        self.m = m
        self.fn = fn
        self.methods = methods or {}
        self.env = env or {}
        self.depth = depth
        self.params = {a.arg for a in fn.args.posonlyargs + fn.args.args + fn.args.kwonlyargs}
        self.recv = fn.args.args[0].arg if (fn.args.args and self.methods) else None
        self.target: Optional[ast.Call] = None
        self.target_expr: Optional[ast.expr] = None
        self.hits: List[AbsDict] = []
        self.returns: List[AbsDict] = []
        self.helpers_followed: List[str] = []

    # -- values ---------------------------------------------------------------------
    def value(self, v: ast.expr) -> Optional[ast.expr]:
        import copy
        v2 = pf.expand_locals(self.fn, v)
        if self.env:
            v2 = _Subst(self.env).visit(copy.deepcopy(v2))
        local = set(pf.assignments(self.fn)) - self.params
        for n in ast.walk(v2):
            if isinstance(n, ast.Name) and isinstance(n.ctx, ast.Load) and n.id in local and n.id not in self.env:
                return None  # a local with several definitions: value not resolved
        return v2

    # -- expressions ----------------------------------------------------------------
    def eval(self, e: ast.expr, state: Dict[str, object]) -> List[AbsDict]:
        if isinstance(e, ast.Dict):
            alts = [AbsDict()]
            for k, v in zip(e.keys, e.values):
                if k is None:
                    subs = self.eval(v, state)
                    alts = [a.merged(s) for a in alts for s in subs]
                else:
                    ks = pf.const_str(k)
                    if ks is None:
                        raise Undecided(f'computed key `{pf.nsrc(k)}`')
                    val = self.value(v)
                    for a in alts:
                        a.items[ks] = val
            return alts
        if isinstance(e, ast.Name):
            if e.id in state:
                if state[e.id] is _UNKNOWN:
                    raise Undecided(f'`{e.id}` is built or changed by code the evaluation cannot follow')
                return [state[e.id].copy()]  # type: ignore[union-attr]
            if e.id in self.env:
                raise Undecided(f'parameter `{e.id}` carries the dict')
            raise Undecided(f'`{e.id}` is not a locally built dict')
        if isinstance(e, ast.IfExp):
            return self.eval(e.body, state) + self.eval(e.orelse, state)
        if isinstance(e, ast.BinOp) and isinstance(e.op, ast.BitOr):
            return [a.merged(b) for a in self.eval(e.left, state) for b in self.eval(e.right, state)]
        if isinstance(e, ast.Call):
            name = pf.dotted(e.func)
            if name == 'dict':
                alts = [AbsDict()]
                if len(e.args) > 1:
                    raise Undecided('dict() with several positional arguments')
                if e.args:
                    alts = self.eval(e.args[0], state)
                for k in e.keywords:
                    if k.arg is None:
                        subs = self.eval(k.value, state)
                        alts = [a.merged(s) for a in alts for s in subs]
                    else:
                        val = self.value(k.value)
                        for a in alts:
                            a.items[k.arg] = val
                return alts
            if name in ('copy.copy', 'copy.deepcopy') and len(e.args) == 1:
                return self.eval(e.args[0], state)
            if isinstance(e.func, ast.Attribute) and e.func.attr == 'copy' and not e.args and not e.keywords:
                return self.eval(e.func.value, state)
            callee = self._callee(e)
            if callee is not None:
                return self._call(callee, e)
        raise Undecided(f'`{pf.nsrc(e)[:60]}` is not a recognised dict construction')

    def _callee(self, e: ast.Call) -> Optional[pf.FuncDef]:
        f = e.func
        if self.recv is not None and isinstance(f, ast.Attribute) and isinstance(f.value, ast.Name) and f.value.id == self.recv:
            return self.methods.get(f.attr)
        if isinstance(f, ast.Name):
            try:
                return self.m.func(f.id)
            except Exception:  # noqa: BLE001
                return None
        return None

    def _call(self, h: pf.FuncDef, e: ast.Call) -> List[AbsDict]:
        if self.depth <= 0:
            raise Undecided(f'helper nesting too deep at `{h.name}`')
        if isinstance(h, ast.AsyncFunctionDef) or h.args.vararg or h.args.kwarg or h.args.posonlyargs:
            raise Undecided(f'helper `{h.name}` is a coroutine / takes star arguments')
        if any(pf.dotted(d) not in ('staticmethod',) for d in h.decorator_list):
            raise Undecided(f'helper `{h.name}` is decorated')
        if any(isinstance(x, (ast.Yield, ast.YieldFrom)) for x in pf.walk_shallow(h)):
            raise Undecided(f'helper `{h.name}` is a generator')
        params = [a.arg for a in h.args.args]
        is_method = isinstance(e.func, ast.Attribute) and not any(pf.dotted(d) == 'staticmethod' for d in h.decorator_list)
        env: Dict[str, ast.expr] = {}
        if is_method:
            if not params:
                raise Undecided(f'helper `{h.name}` has no self parameter')
            if params[0] != self.recv:
                env[params[0]] = ast.Name(id=self.recv, ctx=ast.Load())
            params = params[1:]
        if any(isinstance(a, ast.Starred) for a in e.args) or any(k.arg is None for k in e.keywords) or len(e.args) > len(params):
            raise Undecided(f'call of `{h.name}` with star arguments')
        bound: Dict[str, ast.expr] = dict(zip(params, e.args))
        kwonly = [a.arg for a in h.args.kwonlyargs]
        for k in e.keywords:
            if k.arg in bound or k.arg not in params + kwonly:
                raise Undecided(f'call of `{h.name}`: keyword {k.arg} does not bind')
            bound[k.arg] = k.value  # type: ignore[index]
        defaults = dict(zip(params[len(params) - len(h.args.defaults):], h.args.defaults))
        for p, d in zip(kwonly, h.args.kw_defaults):
            if d is not None:
                defaults[p] = d
        for p in params + kwonly:
            if p in bound:
                v = self.value(bound[p])
                if v is None:
                    raise Undecided(f'argument `{p}` of `{h.name}` is not resolved')
                env[p] = v
            elif p in defaults:
                env[p] = defaults[p]
            else:
                raise Undecided(f'call of `{h.name}`: parameter {p} unbound')
        reassigned = {n.id for n in pf.walk_shallow(h) if isinstance(n, ast.Name) and isinstance(n.ctx, (ast.Store, ast.Del))}
        if reassigned & set(env):
            raise Undecided(f'helper `{h.name}` rebinds a parameter')
        sub = DictFlow(self.m, h, self.methods if is_method else {}, env, self.depth - 1)
        sub.run_body()
        if not sub.returns:
            raise Undecided(f'helper `{h.name}` returns no recognised dict')
        self.helpers_followed.append(h.name)
        self.helpers_followed.extend(sub.helpers_followed)
        return sub.returns

    # -- statements -----------------------------------------------------------------
    def at_call(self, call: ast.Call, expr: ast.expr) -> List[AbsDict]:
        self.target, self.target_expr = call, expr
        self.hits = []
        self.run_body()
        if not self.hits:
            raise Undecided(f'`{pf.nsrc(call.func)}(...)` is not reached by the statement-level evaluation')
        return self.hits

    def run_body(self) -> None:
        self._block(self.fn.body, [{}])

    def _visit_exprs(self, node: ast.AST, state: Dict[str, object]) -> None:
        """An expression (or simple statement) is evaluated in `state`: does it contain the target call?"""
        if self.target is None:
            return
        if any(n is self.target for n in pf.walk_shallow(node)):
            assert self.target_expr is not None
            self.hits.extend(self.eval(self.target_expr, state))

    def _mentions(self, node: ast.AST, state: Dict[str, object]) -> List[str]:
        return sorted({n.id for n in pf.walk_shallow(node) if isinstance(n, ast.Name) and n.id in state})

    def _escape_uses(self, node: ast.AST, state: Dict[str, object]) -> None:
        """Uses of a tracked dict that may change it behind our back turn it into UNKNOWN."""
        par: Dict[int, ast.AST] = {}
        for p in pf.walk_shallow(node):
            for c in ast.iter_child_nodes(p):
                par[id(c)] = p
        for n in pf.walk_shallow(node):
            if not (isinstance(n, ast.Name) and n.id in state and state[n.id] is not _UNKNOWN):
                continue
            p = par.get(id(n))
            if isinstance(p, ast.keyword):
                if p.arg is None:
                    continue  # **d: the callee receives a copy
                p = par.get(id(p))
                if isinstance(p, ast.Call) and p is not self.target:
                    head = (pf.dotted(p.func) or '').split('.')[0]
                    if head not in _LOGGERS and pf.dotted(p.func) != 'dict':
                        state[n.id] = _UNKNOWN
                continue
            if isinstance(n.ctx, (ast.Store, ast.Del)):
                state[n.id] = _UNKNOWN
            elif isinstance(p, ast.Call) and p is not self.target and (n in p.args or any(k.value is n for k in p.keywords)):
                head = (pf.dotted(p.func) or '').split('.')[0]
                if head in _LOGGERS or pf.dotted(p.func) in ('len', 'str', 'repr', 'print', 'dict', 'json.dumps', 'sorted', 'list', 'bool'):
                    continue
                state[n.id] = _UNKNOWN
            elif isinstance(p, ast.Attribute) and p.value is n:
                gp = par.get(id(p))
                if isinstance(gp, ast.Call) and gp.func is p and p.attr in ('get', 'keys', 'values', 'items', 'copy'):
                    continue
                state[n.id] = _UNKNOWN
            elif isinstance(p, (ast.Subscript,)) and p.value is n and isinstance(p.ctx, ast.Load):
                continue
            elif isinstance(p, (ast.FormattedValue, ast.Compare, ast.BoolOp, ast.UnaryOp, ast.If, ast.IfExp, ast.Dict, ast.keyword, ast.Call, ast.Return, ast.Expr,
                                ast.BinOp)):
                # read-only contexts ({**d}, d | x, `if d:`, the target call itself)
                continue
            else:
                state[n.id] = _UNKNOWN

    def _simple(self, st: ast.stmt, state: Dict[str, object]) -> List[Dict[str, object]]:
        """Effect of one simple statement; may fork."""
        # the target call may sit inside this statement: evaluate before the statement's own effect
        self._visit_exprs(st, state)
        if isinstance(st, (ast.Assign, ast.AnnAssign)) and getattr(st, 'value', None) is not None:
            targets = st.targets if isinstance(st, ast.Assign) else [st.target]
            if len(targets) == 1 and isinstance(targets[0], ast.Name):
                name = targets[0].id
                value = st.value.value if isinstance(st.value, ast.Await) else st.value
                if isinstance(value, ast.Name) and value.id in state and state[value.id] is not _UNKNOWN:
                    # alias: later mutation through either name is not followed
                    state[value.id] = _UNKNOWN
                    state[name] = _UNKNOWN
                    return [state]
                try:
                    alts = self.eval(value, state)  # type: ignore[arg-type]
                except Undecided:
                    self._escape_uses(st.value, state)  # type: ignore[arg-type]
                    state[name] = _UNKNOWN
                    return [state]
                out = []
                for a in alts:
                    s2 = dict(state)
                    s2[name] = a
                    out.append(s2)
                return out
            if len(targets) == 1 and isinstance(targets[0], ast.Subscript) and isinstance(targets[0].value, ast.Name) and targets[0].value.id in state:
                d = targets[0].value.id
                if state[d] is not _UNKNOWN:
                    ks = pf.const_str(targets[0].slice)
                    if ks is None:
                        state[d] = _UNKNOWN
                    else:
                        nd = state[d].copy()  # type: ignore[union-attr]
                        nd.items[ks] = self.value(st.value)  # type: ignore[arg-type]
                        state[d] = nd
                self._escape_uses(st.value, state)  # type: ignore[arg-type]
                return [state]
        if isinstance(st, ast.AugAssign) and isinstance(st.target, ast.Name) and st.target.id in state and isinstance(st.op, ast.BitOr):
            d = st.target.id
            if state[d] is not _UNKNOWN:
                try:
                    alts = self.eval(st.value, state)
                    out = []
                    for a in alts:
                        s2 = dict(state)
                        s2[d] = state[d].merged(a)  # type: ignore[union-attr]
                        out.append(s2)
                    return out
                except Undecided:
                    state[d] = _UNKNOWN
            return [state]
        if isinstance(st, ast.Delete):
            for t in st.targets:
                if isinstance(t, ast.Subscript) and isinstance(t.value, ast.Name) and t.value.id in state and state[t.value.id] is not _UNKNOWN:
                    ks = pf.const_str(t.slice)
                    nd = state[t.value.id].copy()  # type: ignore[union-attr]
                    if ks is None or nd.open:
                        state[t.value.id] = _UNKNOWN
                    else:
                        nd.items.pop(ks, None)
                        state[t.value.id] = nd
                else:
                    self._escape_uses(t, state)
            return [state]
        if isinstance(st, ast.Expr):
            v = st.value.value if isinstance(st.value, ast.Await) else st.value
            if isinstance(v, ast.Call) and isinstance(v.func, ast.Attribute) and isinstance(v.func.value, ast.Name) and v.func.value.id in state \
                    and state[v.func.value.id] is not _UNKNOWN:
                d = v.func.value.id
                cur: AbsDict = state[d]  # type: ignore[assignment]
                meth = v.func.attr
                try:
                    if meth == 'update':
                        alts = [cur.copy()]
                        if len(v.args) > 1:
                            raise Undecided('update() with several positional arguments')
                        if v.args:
                            alts = [cur.merged(s) for s in self.eval(v.args[0], state)]
                        for k in v.keywords:
                            if k.arg is None:
                                alts = [a.merged(s) for a in alts for s in self.eval(k.value, state)]
                            else:
                                for a in alts:
                                    a.items[k.arg] = self.value(k.value)
                        out = []
                        for a in alts:
                            s2 = dict(state)
                            s2[d] = a
                            out.append(s2)
                        return out
                    if meth == 'setdefault' and len(v.args) == 2 and pf.const_str(v.args[0]) is not None:
                        ks = pf.const_str(v.args[0])
                        nd = cur.copy()
                        if ks not in nd.items:
                            nd.items[ks] = None if nd.open else self.value(v.args[1])  # type: ignore[index]
                        state[d] = nd
                        return [state]
                    if meth == 'pop' and v.args and pf.const_str(v.args[0]) is not None and not cur.open:
                        nd = cur.copy()
                        nd.items.pop(pf.const_str(v.args[0]), None)  # type: ignore[arg-type]
                        state[d] = nd
                        return [state]
                    if meth == 'clear' and not v.args:
                        state[d] = AbsDict()
                        return [state]
                    if meth in ('get', 'keys', 'values', 'items'):
                        return [state]
                    raise Undecided(f'`{d}.{meth}(...)`')
                except Undecided:
                    state[d] = _UNKNOWN
                    return [state]
        self._escape_uses(st, state)
        return [state]

    def _const_truth(self, test: ast.expr) -> Optional[bool]:
        """Truth of a test that only depends on parameters bound to constants at this call (a helper's `if extra:` with extra=None)."""
        if isinstance(test, ast.UnaryOp) and isinstance(test.op, ast.Not):
            v = self._const_truth(test.operand)
            return None if v is None else not v
        if isinstance(test, ast.Name) and test.id in self.env and isinstance(self.env[test.id], ast.Constant):
            return bool(self.env[test.id].value)  # type: ignore[attr-defined]
        if isinstance(test, ast.Compare) and len(test.ops) == 1 and isinstance(test.ops[0], (ast.Is, ast.IsNot)) and isinstance(test.left, ast.Name) \
                and test.left.id in self.env and isinstance(self.env[test.left.id], ast.Constant) and isinstance(test.comparators[0], ast.Constant) \
                and test.comparators[0].value is None:
            is_none = self.env[test.left.id].value is None  # type: ignore[attr-defined]
            return is_none if isinstance(test.ops[0], ast.Is) else not is_none
        return None

    def _kill_written(self, stmts: Sequence[ast.stmt], state: Dict[str, object]) -> None:
        """Names (re)bound or possibly mutated anywhere in stmts become UNKNOWN (loops, exception handlers)."""
        for st in stmts:
            for n in pf.walk_shallow(st):
                if isinstance(n, ast.Name) and n.id in state:
                    state[n.id] = _UNKNOWN

    def _block(self, stmts: Sequence[ast.stmt], states: List[Dict[str, object]]) -> List[Dict[str, object]]:
        """Returns the states that fall off the end of the block."""
        for st in stmts:
            if not states:
                return []
            if len(states) > self.MAX_STATES:
                raise Undecided('too many paths')
            nxt: List[Dict[str, object]] = []
            for state in states:
                state = dict(state)
                if isinstance(st, ast.If):
                    self._visit_exprs(st.test, state)
                    self._escape_uses(st.test, state)
                    truth = self._const_truth(st.test)
                    if truth is not False:
                        nxt += self._block(st.body, [dict(state)])
                    if truth is not True:
                        nxt += self._block(st.orelse, [dict(state)]) if st.orelse else [state]
                elif isinstance(st, (ast.For, ast.AsyncFor, ast.While)):
                    hdr = st.iter if isinstance(st, (ast.For, ast.AsyncFor)) else st.test
                    self._kill_written(st.body, state)
                    if isinstance(st, (ast.For, ast.AsyncFor)):
                        for n in ast.walk(st.target):
                            if isinstance(n, ast.Name):
                                state[n.id] = _UNKNOWN
                    self._visit_exprs(hdr, state)
                    self._escape_uses(hdr, state)
                    inner = self._block(st.body, [dict(state)])
                    del inner
                    nxt += self._block(st.orelse, [dict(state)]) if st.orelse else [state]
                elif isinstance(st, (ast.With, ast.AsyncWith)):
                    for i in st.items:
                        self._visit_exprs(i.context_expr, state)
                        self._escape_uses(i.context_expr, state)
                        if i.optional_vars is not None:
                            for n in ast.walk(i.optional_vars):
                                if isinstance(n, ast.Name):
                                    state[n.id] = _UNKNOWN
                    nxt += self._block(st.body, [state])
                elif isinstance(st, ast.Try):
                    body_out = self._block(st.body, [dict(state)])
                    if st.orelse:
                        body_out = self._block(st.orelse, body_out)
                    hstate = dict(state)
                    self._kill_written(st.body, hstate)
                    outs = list(body_out)
                    for h in st.handlers:
                        hs = dict(hstate)
                        if h.name:
                            hs[h.name] = _UNKNOWN
                        outs += self._block(h.body, [hs])
                    if st.finalbody:
                        outs = self._block(st.finalbody, outs)
                        # the finally body also runs on the abrupt exits; evaluate it once more for target calls placed there
                        fs = dict(hstate)
                        self._block(st.finalbody, [fs])
                    nxt += outs
                elif isinstance(st, ast.Return):
                    if st.value is not None:
                        self._visit_exprs(st.value, state)
                        if self.target is None:
                            self.returns.extend(self.eval(st.value, state))
                    elif self.target is None:
                        raise Undecided(f'`{self.fn.name}` has a bare return')
                elif isinstance(st, ast.Raise):
                    self._visit_exprs(st, state)
                elif isinstance(st, (ast.Break, ast.Continue)):
                    pass  # only inside loops, whose bodies are evaluated for target calls only
                elif isinstance(st, (ast.FunctionDef, ast.AsyncFunctionDef, ast.ClassDef)):
                    for n in ast.walk(st):
                        if isinstance(n, ast.Name) and n.id in state:
                            state[n.id] = _UNKNOWN  # closure may mutate it
                    nxt.append(state)
                elif hasattr(ast, 'Match') and isinstance(st, ast.Match):
                    raise Undecided('match statement')
                else:
                    nxt += self._simple(st, state)
            states = nxt
        return states
