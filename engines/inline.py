"""Source-level inlining of same-class helper methods (and module-level helper functions) into one target function.

Why: the path rules (dominance, must-pass-through, await-atomicity) are intraprocedural.  The most common behaviour-preserving edit is
"extract a helper"; the most common behaviour-breaking edit hides a suspension point or a second mutation behind a helper.  Both are
handled by analysing the target with its helpers inlined, instead of declining or, worse, not seeing through the call.

What is inlined: statement-level calls

    self.h(a, ...)              v = self.h(a, ...)              return self.h(a, ...)           v += self.h(...)
    await self.h(a, ...)        v = await self.h(a, ...)        return await self.h(a, ...)     v += await self.h(...)

where `h` is a plain (undecorated, non-generator, no *args/**kwargs) method of the same class -- a coroutine exactly when the call is
awaited -- whose `return`s are all in tail position after the early-return normalisation  `if c: ...; return X` + rest  ==>  if/else.
Awaiting a coroutine function call runs its body synchronously up to its first own suspension, so replacing `await self.h()` by the
body preserves the set of suspension points.  Helper locals are renamed apart; parameters bound to a caller name are substituted, other
arguments become an assignment in front of the body.  Calls that do not fit are left alone (the rule that needs to see through them then
declines, as before).  Nothing is executed.
"""
from __future__ import annotations

import ast
import copy
from typing import Dict, List, Optional, Set, Tuple

from . import pyfacts as pf

FuncDef = pf.FuncDef


def _always_returns(stmts: List[ast.stmt]) -> bool:
    for st in stmts:
        if isinstance(st, (ast.Return, ast.Raise)):
            return True
        if isinstance(st, ast.If) and st.orelse and _always_returns(st.body) and _always_returns(st.orelse):
            return True
        if isinstance(st, (ast.With, ast.AsyncWith)) and _always_returns(st.body):
            return True
    return False


def _normalise(stmts: List[ast.stmt]) -> List[ast.stmt]:
    """`if c: ...return` followed by more statements  ==>  `if c: ...return  else: <rest>` (recursively)."""
    out: List[ast.stmt] = []
    for i, st in enumerate(stmts):
        if isinstance(st, ast.If):
            st.body = _normalise(st.body)
            st.orelse = _normalise(st.orelse)
            rest = stmts[i + 1:]
            if rest and not st.orelse and _always_returns(st.body) and any(isinstance(x, ast.Return) for x in pf.walk_shallow(ast.Module(body=st.body, type_ignores=[]))):
                st.orelse = _normalise(rest)
                out.append(st)
                return out
        elif isinstance(st, (ast.With, ast.AsyncWith)):
            st.body = _normalise(st.body)
        elif isinstance(st, ast.Try):
            st.body = _normalise(st.body)
            for h in st.handlers:
                h.body = _normalise(h.body)
            st.orelse = _normalise(st.orelse)
        out.append(st)
    return out


def _non_tail_return(stmts: List[ast.stmt], tail: bool) -> bool:
    """True if some `return` (outside nested defs) is not in tail position."""
    for i, st in enumerate(stmts):
        t = tail and i == len(stmts) - 1
        if isinstance(st, ast.Return):
            if not t:
                return True
        elif isinstance(st, ast.If):
            if _non_tail_return(st.body, t) or _non_tail_return(st.orelse, t):
                return True
        elif isinstance(st, (ast.With, ast.AsyncWith)):
            if _non_tail_return(st.body, t):
                return True
        elif isinstance(st, ast.Try):
            if _non_tail_return(st.body, t and not st.orelse) or _non_tail_return(st.orelse, t) or _non_tail_return(st.finalbody, False):
                return True
            for h in st.handlers:
                if _non_tail_return(h.body, t):
                    return True
        elif isinstance(st, (ast.For, ast.AsyncFor, ast.While)):
            if _non_tail_return(st.body, False) or _non_tail_return(st.orelse, t):
                return True
        elif isinstance(st, (ast.FunctionDef, ast.AsyncFunctionDef, ast.ClassDef)):
            continue
        elif hasattr(ast, 'Match') and isinstance(st, ast.Match):
            for c in st.cases:
                if _non_tail_return(c.body, t):
                    return True
    return False


class _Renamer(ast.NodeTransformer):
    def __init__(self, mapping: Dict[str, ast.expr]):
        self.mapping = mapping

    def visit_Name(self, node: ast.Name):
        if node.id in self.mapping:
            rep = self.mapping[node.id]
            if isinstance(rep, ast.Name):
                return ast.copy_location(ast.Name(id=rep.id, ctx=node.ctx), node)
            if isinstance(node.ctx, ast.Load):
                return ast.copy_location(copy.deepcopy(rep), node)
        return node

    def visit_arg(self, node: ast.arg):
        return node


class _RetRewriter(ast.NodeTransformer):
    """Rewrites tail `return X` of the inlined body according to the call context."""

    def __init__(self, mode: str, target: Optional[ast.expr], aug: Optional[ast.operator]):
        self.mode, self.target, self.aug = mode, target, aug

    def visit_FunctionDef(self, node):
        return node

    visit_AsyncFunctionDef = visit_FunctionDef
    visit_Lambda = visit_FunctionDef
    visit_ClassDef = visit_FunctionDef

    def visit_Return(self, node: ast.Return):
        val = node.value if node.value is not None else ast.Constant(value=None)
        if self.mode == 'return':
            return node
        if self.mode == 'assign':
            return ast.copy_location(ast.Assign(targets=[copy.deepcopy(self.target)], value=val, lineno=node.lineno), node)
        if self.mode == 'aug':
            return ast.copy_location(ast.AugAssign(target=copy.deepcopy(self.target), op=self.aug, value=val), node)
        if isinstance(val, ast.Constant):
            return ast.copy_location(ast.Pass(), node)
        return ast.copy_location(ast.Expr(value=val), node)


def _locals_of(fn: FuncDef) -> Set[str]:
    out: Set[str] = set()
    for n in pf.walk_shallow(fn):
        if isinstance(n, ast.Name) and isinstance(n.ctx, (ast.Store, ast.Del)):
            out.add(n.id)
        elif isinstance(n, (ast.FunctionDef, ast.AsyncFunctionDef)) and n is not fn:
            out.add(n.name)
        elif isinstance(n, ast.ExceptHandler) and n.name:
            out.add(n.name)
    a = fn.args
    for x in a.posonlyargs + a.args + a.kwonlyargs:
        out.add(x.arg)
    return out


class Inliner:
    def __init__(self, helpers: Dict[str, FuncDef], receiver: Optional[str], max_depth: int = 3):
        self.helpers = helpers
        self.receiver = receiver  # 'self' for methods, None for module-level functions
        self.max_depth = max_depth
        self.inlined: List[Tuple[str, int]] = []  # (helper name, call line)
        self.skipped: List[Tuple[str, int, str]] = []
        self._n = 0

    # -- call recognition -------------------------------------------------
    def _callee(self, call: ast.AST) -> Optional[str]:
        if not isinstance(call, ast.Call):
            return None
        f = call.func
        if self.receiver is not None:
            if isinstance(f, ast.Attribute) and isinstance(f.value, ast.Name) and f.value.id == self.receiver and f.attr in self.helpers:
                return f.attr
            return None
        if isinstance(f, ast.Name) and f.id in self.helpers:
            return f.id
        return None

    def _split(self, st: ast.stmt) -> Optional[Tuple[str, Optional[ast.expr], Optional[ast.operator], ast.Call, bool]]:
        """(mode, target, augop, call, awaited) if st is one of the inlinable statement forms."""
        if isinstance(st, ast.Expr):
            mode, tgt, aug, v = 'expr', None, None, st.value
        elif isinstance(st, ast.Assign) and len(st.targets) == 1 and isinstance(st.targets[0], (ast.Name, ast.Attribute, ast.Subscript)):
            mode, tgt, aug, v = 'assign', st.targets[0], None, st.value
        elif isinstance(st, ast.AnnAssign) and st.value is not None and isinstance(st.target, ast.Name):
            mode, tgt, aug, v = 'assign', st.target, None, st.value
        elif isinstance(st, ast.AugAssign):
            mode, tgt, aug, v = 'aug', st.target, st.op, st.value
        elif isinstance(st, ast.Return) and st.value is not None:
            mode, tgt, aug, v = 'return', None, None, st.value
        else:
            return None
        awaited = isinstance(v, ast.Await)
        if awaited:
            v = v.value
        if self._callee(v) is None:
            return None
        return mode, tgt, aug, v, awaited  # type: ignore[return-value]

    # -- one call -----------------------------------------------------------
    def _expand(self, st: ast.stmt, caller_names: Set[str], stack: Tuple[str, ...]) -> Optional[List[ast.stmt]]:
        sp = self._split(st)
        if sp is None:
            return None
        mode, tgt, aug, call, awaited = sp
        name = self._callee(call)
        assert name is not None
        h = self.helpers[name]
        line = getattr(st, 'lineno', 0)

        def skip(why: str) -> None:
            self.skipped.append((name, line, why))
            return None
        if name in stack or len(stack) >= self.max_depth:
            return skip('recursive / too deep')
        if isinstance(h, ast.AsyncFunctionDef) != awaited:
            return skip('await / coroutine mismatch')
        if h.decorator_list:
            return skip('decorated')
        if any(isinstance(x, (ast.Yield, ast.YieldFrom)) for x in pf.walk_shallow(h)):
            return skip('generator')
        a = h.args
        if a.vararg or a.kwarg or a.posonlyargs or any(isinstance(x, ast.Starred) for x in call.args) or any(k.arg is None for k in call.keywords):
            return skip('star arguments')
        params = [x.arg for x in a.args]
        if self.receiver is not None:
            if not params:
                return skip('no self parameter')
            selfname, params = params[0], params[1:]
        else:
            selfname = None
        if len(call.args) > len(params):
            return skip('too many arguments')
        bound: Dict[str, ast.expr] = {}
        for p, v in zip(params, call.args):
            bound[p] = v
        kwonly = [x.arg for x in a.kwonlyargs]
        for k in call.keywords:
            if k.arg in bound or k.arg not in params + kwonly:
                return skip('keyword does not bind')
            bound[k.arg] = k.value  # type: ignore[index]
        defaults = dict(zip(params[len(params) - len(a.defaults):], a.defaults))
        for p, d in zip(kwonly, a.kw_defaults):
            if d is not None:
                defaults[p] = d
        for p in params + kwonly:
            if p not in bound:
                if p not in defaults:
                    return skip(f'parameter {p} unbound')
                bound[p] = defaults[p]
        body = _normalise(copy.deepcopy([s for s in h.body]))
        if body and isinstance(body[0], ast.Expr) and isinstance(body[0].value, ast.Constant) and isinstance(body[0].value.value, str):
            body = body[1:]
        if _non_tail_return(body, True):
            return skip('return not in tail position')
        # rename apart
        self._n += 1
        hl = _locals_of(h)
        reassigned = {n.id for n in pf.walk_shallow(h) if isinstance(n, ast.Name) and isinstance(n.ctx, (ast.Store, ast.Del))}
        mapping: Dict[str, ast.expr] = {}
        pre: List[ast.stmt] = []
        if selfname is not None and selfname != self.receiver:
            mapping[selfname] = ast.Name(id=self.receiver, ctx=ast.Load())
        for p, v in bound.items():
            simple = isinstance(v, ast.Name) or isinstance(v, ast.Constant)
            if simple and p not in reassigned and not (isinstance(v, ast.Name) and v.id in (hl - {p})):
                mapping[p] = copy.deepcopy(v)
            else:
                fresh = p if (p not in caller_names) else f'{p}__{name}{self._n}'
                mapping[p] = ast.Name(id=fresh, ctx=ast.Load())
                pre.append(ast.copy_location(ast.Assign(targets=[ast.Name(id=fresh, ctx=ast.Store())], value=copy.deepcopy(v), lineno=line), st))
        for loc in sorted(hl - set(bound) - ({selfname} if selfname else set())):
            if loc in caller_names:
                mapping[loc] = ast.Name(id=f'{loc}__{name}{self._n}', ctx=ast.Load())
        new: List[ast.stmt] = []
        rn = _Renamer(mapping)
        rr = _RetRewriter(mode, tgt, aug)
        for s in body:
            s2 = rr.visit(rn.visit(s))
            if s2 is not None:
                new.append(s2)
        for s in pre + new:
            ast.fix_missing_locations(s)
        self.inlined.append((name, line))
        names2 = caller_names | {m.id for m in mapping.values() if isinstance(m, ast.Name)} | hl
        return pre + self._block(new, names2, stack + (name,))

    # -- generators: `for x in self.gen(args): BODY`  and  `x = next(self.gen(args), default)` ---------------------
    def _bind(self, name: str, h: FuncDef, call: ast.Call, caller_names: Set[str], st: ast.stmt):
        """(mapping, pre-assignments) binding h's parameters to the call's arguments, or a string saying why not."""
        a = h.args
        if a.vararg or a.kwarg or a.posonlyargs or any(isinstance(x, ast.Starred) for x in call.args) or any(k.arg is None for k in call.keywords):
            return 'star arguments'
        params = [x.arg for x in a.args]
        selfname = None
        if self.receiver is not None:
            if not params:
                return 'no self parameter'
            selfname, params = params[0], params[1:]
        if len(call.args) > len(params):
            return 'too many arguments'
        bound: Dict[str, ast.expr] = dict(zip(params, call.args))
        kwonly = [x.arg for x in a.kwonlyargs]
        for k in call.keywords:
            if k.arg in bound or k.arg not in params + kwonly:
                return 'keyword does not bind'
            bound[k.arg] = k.value  # type: ignore[index]
        defaults = dict(zip(params[len(params) - len(a.defaults):], a.defaults))
        for p, d in zip(kwonly, a.kw_defaults):
            if d is not None:
                defaults[p] = d
        for p in params + kwonly:
            if p not in bound:
                if p not in defaults:
                    return f'parameter {p} unbound'
                bound[p] = defaults[p]
        self._n += 1
        line = getattr(st, 'lineno', 0)
        hl = _locals_of(h)
        reassigned = {n.id for n in pf.walk_shallow(h) if isinstance(n, ast.Name) and isinstance(n.ctx, (ast.Store, ast.Del))}
        mapping: Dict[str, ast.expr] = {}
        pre: List[ast.stmt] = []
        if selfname is not None and selfname != self.receiver:
            mapping[selfname] = ast.Name(id=self.receiver, ctx=ast.Load())
        for p, v in bound.items():
            simple = isinstance(v, (ast.Name, ast.Constant))
            if simple and p not in reassigned and not (isinstance(v, ast.Name) and v.id in (hl - {p})):
                mapping[p] = copy.deepcopy(v)
            else:
                fresh = p if (p not in caller_names) else f'{p}__{name}{self._n}'
                mapping[p] = ast.Name(id=fresh, ctx=ast.Load())
                pre.append(ast.copy_location(ast.Assign(targets=[ast.Name(id=fresh, ctx=ast.Store())], value=copy.deepcopy(v), lineno=line), st))
        for loc in sorted(hl - set(bound) - ({selfname} if selfname else set())):
            if loc in caller_names:
                mapping[loc] = ast.Name(id=f'{loc}__{name}{self._n}', ctx=ast.Load())
        return mapping, pre, hl

    @staticmethod
    def _yield_stmt(x: ast.stmt) -> Optional[ast.expr]:
        if isinstance(x, ast.Expr) and isinstance(x.value, ast.Yield):
            return x.value.value if x.value.value is not None else ast.Constant(value=None)
        return None

    def _gen_shape(self, h: FuncDef):
        """A simple generator: statements without yields, then ONE loop whose iterations each end right after a `yield v` statement
        (yields only as statements in tail position of the loop body), nothing after the loop.  Returns (prefix, loop) or None."""
        if isinstance(h, ast.AsyncFunctionDef) or h.decorator_list:
            return None
        body = list(h.body)
        if body and isinstance(body[0], ast.Expr) and isinstance(body[0].value, ast.Constant) and isinstance(body[0].value.value, str):
            body = body[1:]
        if not body or not isinstance(body[-1], (ast.For, ast.While)) or body[-1].orelse:
            return None
        prefix, loop = body[:-1], body[-1]

        def has_yield(n: ast.AST) -> bool:
            return any(isinstance(x, (ast.Yield, ast.YieldFrom)) for x in pf.walk_shallow(n))
        if any(has_yield(x) for x in prefix) or any(isinstance(x, ast.Return) for x in pf.walk_shallow(h)):
            return None
        if any(isinstance(x, ast.YieldFrom) for x in pf.walk_shallow(h)):
            return None

        def tail_ok(stmts: List[ast.stmt], tail: bool) -> bool:
            for i, x in enumerate(stmts):
                t = tail and i == len(stmts) - 1
                if self._yield_stmt(x) is not None:
                    if not t:
                        return False
                elif isinstance(x, ast.If):
                    if has_yield(x.test) or not tail_ok(x.body, t) or not tail_ok(x.orelse, t):
                        return False
                elif has_yield(x):
                    return False
            return True
        if not has_yield(loop) or not tail_ok(loop.body, True):
            return None
        return prefix, loop

    def _expand_for(self, st: ast.stmt, caller_names: Set[str], stack: Tuple[str, ...], allow_direct: bool = True) -> Optional[List[ast.stmt]]:
        if not isinstance(st, ast.For) or not isinstance(st.iter, ast.Call):
            return None
        name = self._callee(st.iter)
        if name is None:
            return None
        h = self.helpers[name]
        line = getattr(st, 'lineno', 0)
        if name in stack or len(stack) >= self.max_depth:
            self.skipped.append((name, line, 'recursive / too deep'))
            return None
        shape = self._gen_shape(h)
        if shape is None:
            self.skipped.append((name, line, 'not a simple generator'))
            return None
        b = self._bind(name, h, st.iter, caller_names, st)
        if isinstance(b, str):
            self.skipped.append((name, line, b))
            return None
        mapping, pre, hl = b
        prefix, loop = copy.deepcopy(shape[0]), copy.deepcopy(shape[1])
        # when the generator yields one of its own locals (`for pool in ...: yield pool`) and the caller binds a plain name, the local
        # simply becomes the caller's name (no alias assignment): guards on it are then guards on the caller's variable
        yvals = [self._yield_stmt(x) for x in ast.walk(loop) if isinstance(x, ast.stmt) and self._yield_stmt(x) is not None]
        direct = None
        if allow_direct and isinstance(st.target, ast.Name) and yvals and all(isinstance(v, ast.Name) and v.id == yvals[0].id for v in yvals):  # type: ignore[union-attr]
            yv = yvals[0].id  # type: ignore[union-attr]
            params = {x.arg for x in h.args.args + h.args.kwonlyargs}
            if yv in hl and yv not in params and (st.target.id not in hl or st.target.id == yv):
                mapping[yv] = ast.Name(id=st.target.id, ctx=ast.Load())
                direct = yv
        rn = _Renamer(mapping)
        prefix = [rn.visit(x) for x in prefix]
        loop = rn.visit(loop)
        caller_body, target = st.body, st.target

        def subst(stmts: List[ast.stmt]) -> List[ast.stmt]:
            out: List[ast.stmt] = []
            for x in stmts:
                v = self._yield_stmt(x)
                if v is not None:
                    if direct is None:
                        out.append(ast.copy_location(ast.Assign(targets=[copy.deepcopy(target)], value=v, lineno=x.lineno), x))
                    out.extend(copy.deepcopy(caller_body))
                elif isinstance(x, ast.If):
                    x.body, x.orelse = subst(x.body), subst(x.orelse)
                    out.append(x)
                else:
                    out.append(x)
            return out
        loop.body = subst(loop.body)
        loop.orelse = copy.deepcopy(st.orelse)
        new = pre + prefix + [loop]
        for x in new:
            ast.fix_missing_locations(x)
        self.inlined.append((name, line))
        names2 = caller_names | {m.id for m in mapping.values() if isinstance(m, ast.Name)} | hl
        return self._block(new, names2, stack + (name,))

    def _expand_next(self, st: ast.stmt, caller_names: Set[str], stack: Tuple[str, ...]) -> Optional[List[ast.stmt]]:
        """`x = next(self.gen(args), default)`  ==>  `x = default; for x in self.gen(args): break`  (then the loop is inlined)."""
        if not (isinstance(st, ast.Assign) and len(st.targets) == 1 and isinstance(st.targets[0], ast.Name) and isinstance(st.value, ast.Call)
                and isinstance(st.value.func, ast.Name) and st.value.func.id == 'next' and len(st.value.args) == 2 and not st.value.keywords):
            return None
        g = st.value.args[0]
        if isinstance(g, ast.Call) and isinstance(g.func, ast.Name) and g.func.id == 'iter' and len(g.args) == 1:
            g = g.args[0]
        if not isinstance(g, ast.Call) or self._callee(g) is None:
            return None
        tgt = st.targets[0]
        init = ast.copy_location(ast.Assign(targets=[copy.deepcopy(tgt)], value=st.value.args[1], lineno=st.lineno), st)
        loop = ast.copy_location(ast.For(target=ast.Name(id=tgt.id, ctx=ast.Store()), iter=g, body=[ast.copy_location(ast.Break(), st)], orelse=[], lineno=st.lineno), st)
        ast.fix_missing_locations(init)
        ast.fix_missing_locations(loop)
        # no direct renaming here: after the loop the target must hold the first YIELDED value or the default, not the last iterated one
        ex = self._expand_for(loop, caller_names, stack, allow_direct=False)
        if ex is None:
            return None
        return [init] + ex

    # -- blocks ------------------------------------------------------------------
    def _block(self, stmts: List[ast.stmt], names: Set[str], stack: Tuple[str, ...]) -> List[ast.stmt]:
        out: List[ast.stmt] = []
        for st in stmts:
            ex = self._expand(st, names, stack)
            if ex is None:
                ex = self._expand_next(st, names, stack)
            if ex is None:
                ex = self._expand_for(st, names, stack)
            if ex is not None:
                out.extend(ex if ex else [ast.copy_location(ast.Pass(), st)])
                continue
            for fld in ('body', 'orelse', 'finalbody'):
                b = getattr(st, fld, None)
                if isinstance(b, list) and b and isinstance(b[0], ast.stmt) and not isinstance(st, (ast.FunctionDef, ast.AsyncFunctionDef, ast.ClassDef)):
                    setattr(st, fld, self._block(b, names, stack))
            if isinstance(st, ast.Try):
                for h in st.handlers:
                    h.body = self._block(h.body, names, stack)
            if hasattr(ast, 'Match') and isinstance(st, ast.Match):
                for c in st.cases:
                    c.body = self._block(c.body, names, stack)
            out.append(st)
        return out

    def run(self, fn: FuncDef) -> None:
        fn.body = self._block(fn.body, _locals_of(fn), (fn.name,))


def inline_methods(m: pf.Module, cls_name: str, target: str, max_depth: int = 3, exclude: Tuple[str, ...] = ()) -> Tuple[pf.Module, Inliner]:
    """A copy of module m in which method `target` of class `cls_name` has its same-class helper calls inlined.
    Helper definitions stay in the class.  Returns the new module and the inliner (with .inlined / .skipped for evidence)."""
    tree = copy.deepcopy(m.tree)
    m2 = pf.Module(m.rel, m.path, m.src, tree)
    cls = m2.cls(cls_name)
    helpers = {f.name: f for f in cls.body if isinstance(f, (ast.FunctionDef, ast.AsyncFunctionDef)) and f.name != target and f.name not in exclude}
    # the pristine helper bodies are the source of every expansion (so a helper inlined twice is copied from the original)
    pristine = {k: copy.deepcopy(v) for k, v in helpers.items()}
    fn = None
    for f in cls.body:
        if isinstance(f, (ast.FunctionDef, ast.AsyncFunctionDef)) and f.name == target:
            fn = f
    if fn is None:
        raise pf.AnalysisError(f'anchor vanished: {m.rel}::{cls_name}.{target}')
    recv = fn.args.args[0].arg if fn.args.args else 'self'
    il = Inliner(pristine, recv, max_depth)
    il.run(fn)
    return m2, il


def inline_functions(m: pf.Module, target: str, max_depth: int = 3, exclude: Tuple[str, ...] = ()) -> Tuple[pf.Module, Inliner]:
    """Same for a module-level function calling other module-level functions."""
    tree = copy.deepcopy(m.tree)
    m2 = pf.Module(m.rel, m.path, m.src, tree)
    helpers = {f.name: copy.deepcopy(f) for f in tree.body if isinstance(f, (ast.FunctionDef, ast.AsyncFunctionDef)) and f.name != target and f.name not in exclude}
    fn = m2.func(target)
    il = Inliner(helpers, None, max_depth)
    il.run(fn)
    return m2, il
