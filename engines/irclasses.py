"""Class table of the hail.ir front end (used by C35 / C36).

Built from the syntax trees of hail/python/hail/ir/{renderer,base_ir,ir,table_ir,matrix_ir,blockmatrix_ir}.py:
  * classes with their in-repo bases, C3 linearisation (MRO), method lookup through the MRO
  * the child layout every constructor registers with `super().__init__(...)` (resolved through chained constructors)
  * a small symbolic evaluator that turns the dict / set valued binder methods (`renderable_bindings`, `bound_variables`, ...)
    into sets of *name tokens* for a given child position and a valuation of the boolean atoms the method tests
  * extraction of the names a `head_str` renders and whether they go through `escape_id`

Nothing is imported or executed; unknown shapes raise AnalysisError (never a violation).

Name tokens
  A:<attr>        the run-time value of self.<attr> (a binder name chosen by the caller)
  EACH:<attr>     every element of the sequence self.<attr>            (EACH:<attr>[k] = k-th component of every element)
  S:<text>        a fixed string literal
  CAP             BaseIR.agg_capability (pseudo variable)
  ENV:<method>    the keys of <table/matrix type>.<method>()           (global_env, row_env, col_env, entry_env)
  PARENT:<param>  everything in the environment parameter <param> of _compute_type
"""
from __future__ import annotations

import ast
import itertools
from typing import Dict, FrozenSet, Iterable, List, Optional, Sequence, Set, Tuple

from . import pyfacts as pf
from .common import AnalysisError

IR_DIR = 'hail/python/hail/ir/'
MODULES = ['renderer.py', 'base_ir.py', 'ir.py', 'table_ir.py', 'matrix_ir.py', 'blockmatrix_ir.py']
ROOTS = ('BaseIR', 'IR', 'TableIR', 'MatrixIR', 'BlockMatrixIR')
BINDER_FUNCS = ('renderable_bindings', 'renderable_agg_bindings', 'renderable_scan_bindings')
CAP = 'CAP'


class Cls:
    def __init__(self, name: str, mod: pf.Module, node: ast.ClassDef):
        self.name = name
        self.mod = mod
        self.node = node
        self.rel = mod.rel
        self.bases: List[str] = []
        self.methods: Dict[str, pf.FuncDef] = {}
        self.attrs: Dict[str, ast.expr] = {}
        self.mro: List['Cls'] = []
        for st in node.body:
            if isinstance(st, (ast.FunctionDef, ast.AsyncFunctionDef)):
                # a property setter re-defines the name: keep the getter (first definition)
                self.methods.setdefault(st.name, st)
            elif isinstance(st, ast.Assign) and len(st.targets) == 1 and isinstance(st.targets[0], ast.Name):
                self.attrs[st.targets[0].id] = st.value
            elif isinstance(st, ast.AnnAssign) and isinstance(st.target, ast.Name) and st.value is not None:
                self.attrs[st.target.id] = st.value
        for b in node.bases:
            d = pf.dotted(b)
            if d is not None:
                self.bases.append(d.split('.')[-1])

    def __repr__(self) -> str:
        return f'<Cls {self.name}>'

    def is_a(self, root: str) -> bool:
        return any(c.name == root for c in self.mro)

    def resolve(self, meth: str) -> Optional[Tuple['Cls', pf.FuncDef]]:
        for c in self.mro:
            if meth in c.methods:
                return c, c.methods[meth]
        return None

    def resolve_nonroot(self, meth: str) -> Optional[Tuple['Cls', pf.FuncDef]]:
        """Like resolve, but None when the definition found is the default of a root class."""
        r = self.resolve(meth)
        if r is None or r[0].name in ROOTS or r[0].name == 'Renderable':
            return None
        return r

    def key(self, meth: str = '') -> str:
        return f'{self.rel}::{self.name}' + (f'.{meth}' if meth else '')


class Table:
    def __init__(self) -> None:
        self.classes: Dict[str, Cls] = {}
        self.modules: Dict[str, pf.Module] = {}

    def get(self, name: str) -> Cls:
        if name not in self.classes:
            raise AnalysisError(f'anchor vanished: IR class {name}')
        return self.classes[name]

    def ir_classes(self) -> List[Cls]:
        return [c for c in self.classes.values() if c.is_a('BaseIR') and c.name not in ROOTS]


def _c3(name: str, classes: Dict[str, Cls], memo: Dict[str, List[str]], stack: Tuple[str, ...] = ()) -> List[str]:
    if name in memo:
        return memo[name]
    if name in stack:
        raise AnalysisError(f'class table: inheritance cycle through {name}')
    c = classes[name]
    parents = [b for b in c.bases if b in classes]
    seqs = [list(_c3(p, classes, memo, stack + (name,))) for p in parents] + [list(parents)]
    out = [name]
    while any(seqs):
        seqs = [s for s in seqs if s]
        for s in seqs:
            cand = s[0]
            if not any(cand in t[1:] for t in seqs):
                break
        else:
            raise AnalysisError(f'class table: no consistent MRO for {name}')
        out.append(cand)
        for s in seqs:
            if s and s[0] == cand:
                del s[0]
    memo[name] = out
    return out


_table: Optional[Table] = None


def load_table() -> Table:
    global _table
    if _table is not None:
        return _table
    t = Table()
    for f in MODULES:
        m = pf.load(IR_DIR + f)
        t.modules[f] = m
        for st in m.tree.body:
            if isinstance(st, ast.ClassDef):
                if st.name in t.classes:
                    raise AnalysisError(f'class table: class {st.name} defined twice ({t.classes[st.name].rel} and {m.rel})')
                t.classes[st.name] = Cls(st.name, m, st)
    memo: Dict[str, List[str]] = {}
    for name, c in t.classes.items():
        c.mro = [t.classes[n] for n in _c3(name, t.classes, memo)]
    for r in ROOTS:
        t.get(r)
    _table = t
    return t


# --------------------------------------------------------------------------------------
# child layouts
# --------------------------------------------------------------------------------------


class Seg:
    """One entry of a `super().__init__(...)` argument list, named by the constructor-local variable."""

    __slots__ = ('kind', 'name')

    def __init__(self, kind: str, name: str):
        self.kind = kind  # fixed | opt | star
        self.name = name

    def __repr__(self) -> str:
        return {'fixed': '', 'opt': '?', 'star': '*'}[self.kind] + self.name


Pos = Tuple  # ('c', k) | ('in', group) | ('len', group, k)


class Layout:
    def __init__(self, segs: List[Seg], attrs: Dict[str, Set[str]]):
        self.segs = segs
        self.attrs = attrs  # constructor-local name -> {self attributes holding it}

    def positions(self) -> List[Tuple[Pos, Seg]]:
        out: List[Tuple[Pos, Seg]] = []
        group: Optional[str] = None
        k = 0
        for s in self.segs:
            if s.kind == 'star':
                out.append((('in', s.name), s))
                group = s.name
                k = 0
            elif group is None:
                out.append((('c', k), s))
                k += 1
            else:
                out.append((('len', group, k), s))
                k += 1
        return out

    def n_fixed(self) -> Optional[int]:
        if any(s.kind == 'star' for s in self.segs):
            return None
        return len(self.segs)

    def attr_names(self, seg: Seg) -> Set[str]:
        return set(self.attrs.get(seg.name, set()))

    def seg_of_attr(self, attr: str) -> Optional[Tuple[Pos, Seg]]:
        hits = [(p, s) for p, s in self.positions() if attr in self.attrs.get(s.name, set())]
        if len(hits) == 1:
            return hits[0]
        if attr == 'children' and len(self.segs) == 1 and self.segs[0].kind == 'star':
            return self.positions()[0]
        return None

    def __repr__(self) -> str:
        return '(' + ', '.join(map(repr, self.segs)) + ')'


def _is_super_init(call: ast.Call) -> bool:
    f = call.func
    return (isinstance(f, ast.Attribute) and f.attr == '__init__' and isinstance(f.value, ast.Call)
            and isinstance(f.value.func, ast.Name) and f.value.func.id == 'super')


def _comp_source(e: ast.AST) -> Optional[str]:
    """`[x for .. in NAME]` / `(x for .. in NAME)` without filters -> NAME."""
    if isinstance(e, (ast.ListComp, ast.GeneratorExp)) and len(e.generators) == 1:
        g = e.generators[0]
        if not g.ifs and isinstance(g.iter, ast.Name):
            return g.iter.id
    return None


def _segs_of_args(cls: Cls, args: Sequence[ast.expr], where: str) -> List[Seg]:
    segs: List[Seg] = []
    for a in args:
        if isinstance(a, ast.Name):
            segs.append(Seg('fixed', a.id))
        elif isinstance(a, ast.Starred):
            v = a.value
            if isinstance(v, ast.Name):
                segs.append(Seg('star', v.id))
            elif _comp_source(v) is not None:
                segs.append(Seg('star', _comp_source(v)))  # type: ignore[arg-type]
            elif (isinstance(v, ast.BinOp) and isinstance(v.op, ast.Add) and _comp_source(v.left) is not None
                  and isinstance(v.right, ast.List) and all(isinstance(x, ast.Name) for x in v.right.elts)):
                segs.append(Seg('star', _comp_source(v.left)))  # type: ignore[arg-type]
                segs += [Seg('fixed', x.id) for x in v.right.elts]  # type: ignore[attr-defined]
            elif (isinstance(v, ast.GeneratorExp) and len(v.generators) == 1 and isinstance(v.generators[0].iter, ast.Tuple)
                  and all(isinstance(x, ast.Name) for x in v.generators[0].iter.elts)
                  and isinstance(v.elt, ast.Name) and isinstance(v.generators[0].target, ast.Name)
                  and v.elt.id == v.generators[0].target.id
                  and len(v.generators[0].ifs) == 1 and pf.nsrc(v.generators[0].ifs[0]) == v.elt.id):
                # *(x for x in (a, b) if x): every element optional (dropped when None)
                elts = v.generators[0].iter.elts
                segs.append(Seg('fixed', elts[0].id))  # type: ignore[attr-defined]
                segs += [Seg('opt', x.id) for x in elts[1:]]  # type: ignore[attr-defined]
            else:
                raise AnalysisError(f'{where}: unrecognised starred child expression `{pf.nsrc(a)}`')
        else:
            raise AnalysisError(f'{where}: unrecognised child expression `{pf.nsrc(a)}` in super().__init__')
    return segs


def _init_attrs(fn: pf.FuncDef) -> Dict[str, Set[str]]:
    out: Dict[str, Set[str]] = {}
    for st in pf.walk_shallow(fn):
        if isinstance(st, ast.Assign) and len(st.targets) == 1 and isinstance(st.value, ast.Name):
            t = st.targets[0]
            if isinstance(t, ast.Attribute) and isinstance(t.value, ast.Name) and t.value.id == 'self':
                out.setdefault(st.value.id, set()).add(t.attr)
    return out


_layout_cache: Dict[str, List[Layout]] = {}


def layouts(cls: Cls) -> List[Layout]:
    """Alternative child layouts a constructor of `cls` can register (one per `super().__init__` call site)."""
    if cls.name in _layout_cache:
        return _layout_cache[cls.name]
    owner_i = next((i for i, c in enumerate(cls.mro) if '__init__' in c.methods), None)
    if owner_i is None:
        raise AnalysisError(f'{cls.key()}: no constructor found through the MRO')
    res = _layouts_at(cls, owner_i)
    _layout_cache[cls.name] = res
    return res


def _layouts_at(cls: Cls, owner_i: int) -> List[Layout]:
    owner = cls.mro[owner_i]
    fn = owner.methods['__init__']
    where = f'{owner.key("__init__")}'
    if owner.name in ROOTS:
        if fn.args.vararg is None:
            raise AnalysisError(f'{where}: root constructor does not take *children')
        return [Layout([Seg('star', fn.args.vararg.arg)], {fn.args.vararg.arg: {'children'}})]
    calls = [c for c in pf.calls_in(fn) if _is_super_init(c)]
    if not calls:
        raise AnalysisError(f'{where}: no super().__init__(...) call')
    nxt = next((i for i in range(owner_i + 1, len(cls.mro)) if '__init__' in cls.mro[i].methods), None)
    if nxt is None:
        raise AnalysisError(f'{where}: no parent constructor')
    parent = cls.mro[nxt]
    own_attrs = _init_attrs(fn)
    out: List[Layout] = []
    for call in calls:
        if parent.name in ROOTS:
            if call.keywords:
                raise AnalysisError(f'{where}: keyword arguments in super().__init__')
            segs = _segs_of_args(owner, call.args, where)
            attrs = {s.name: set(own_attrs.get(s.name, set())) for s in segs}
            out.append(Layout(segs, attrs))
            continue
        # chained constructor: bind the call to the parent's parameters and substitute
        pfn = parent.methods['__init__']
        params = [a.arg for a in pfn.args.args[1:]]
        bound: Dict[str, ast.expr] = {}
        pos_args = list(call.args)
        if any(isinstance(a, ast.Starred) for a in pos_args):
            raise AnalysisError(f'{where}: starred forwarding to the non-root constructor of {parent.name} is not modelled')
        for p, a in zip(params, pos_args):
            bound[p] = a
        for kw in call.keywords:
            if kw.arg is None:
                raise AnalysisError(f'{where}: **kwargs forwarding to {parent.name}')
            bound[kw.arg] = kw.value
        for pl in _layouts_at(cls, nxt):
            segs = []
            attrs: Dict[str, Set[str]] = {}
            for s in pl.segs:
                a = bound.get(s.name)
                if not isinstance(a, ast.Name):
                    raise AnalysisError(f'{where}: child `{s.name}` of {parent.name} is bound to `{pf.nsrc(a) if a is not None else None}` (not a local name)')
                segs.append(Seg(s.kind, a.id))
                attrs[a.id] = set(pl.attrs.get(s.name, set())) | set(own_attrs.get(a.id, set()))
            out.append(Layout(segs, attrs))
    return out


def max_children(cls: Cls) -> Optional[int]:
    ns = [l.n_fixed() for l in layouts(cls)]
    if any(n is None for n in ns):
        return None
    return max(ns)  # type: ignore[type-var]


# --------------------------------------------------------------------------------------
# symbolic evaluation of dict / set valued metadata methods
# --------------------------------------------------------------------------------------

# sequences that are always constructed pairwise with the starred child group (frozen, each with its reason)
GROUP_ALIASES = {
    ('StreamZip', 'names'): ('streams', 'StreamZip binds names[k] to streams[k]; both sequences are zipped in renderable_bindings and by the IR parser'),
}


class Undecided(AnalysisError):
    pass


def _norm_atom(e: ast.AST) -> Tuple[str, bool]:
    """atom key and polarity: `x is not None` -> ('x is None', False)."""
    if isinstance(e, ast.Compare) and len(e.ops) == 1 and isinstance(e.comparators[0], ast.Constant) and e.comparators[0].value is None:
        if isinstance(e.ops[0], ast.IsNot):
            return pf.nsrc(e.left) + ' is None', False
        if isinstance(e.ops[0], ast.Is):
            return pf.nsrc(e.left) + ' is None', True
    return pf.nsrc(e), True


def _is_index_test(e: ast.AST, ivar: str) -> bool:
    return isinstance(e, ast.Compare) and isinstance(e.left, ast.Name) and e.left.id == ivar and len(e.ops) == 1


def collect_atoms_expr(e0: ast.AST, ivar: Optional[str], out: Optional[List[str]] = None) -> List[str]:
    """Boolean atoms (other than comparisons of the child index) of one test expression."""
    if out is None:
        out = []

    def rec(e: ast.AST) -> None:
        if isinstance(e, ast.BoolOp):
            for v in e.values:
                rec(v)
        elif isinstance(e, ast.UnaryOp) and isinstance(e.op, ast.Not):
            rec(e.operand)
        elif isinstance(e, ast.Constant):
            pass
        elif ivar is not None and _is_index_test(e, ivar):
            pass
        else:
            k, _ = _norm_atom(e)
            if k not in out:  # type: ignore[operator]
                out.append(k)  # type: ignore[union-attr]

    rec(e0)
    return out


def collect_atoms(fn: pf.FuncDef, ivar: Optional[str]) -> List[str]:
    """Boolean atoms (other than comparisons of the child index) tested anywhere in fn."""
    out: List[str] = []

    def rec(e: ast.AST) -> None:
        if isinstance(e, ast.BoolOp):
            for v in e.values:
                rec(v)
        elif isinstance(e, ast.UnaryOp) and isinstance(e.op, ast.Not):
            rec(e.operand)
        elif isinstance(e, ast.Constant):
            pass
        elif ivar is not None and _is_index_test(e, ivar):
            pass
        else:
            k, _ = _norm_atom(e)
            if k not in out:
                out.append(k)

    for n in pf.walk_shallow(fn):
        if isinstance(n, (ast.If, ast.IfExp)):
            rec(n.test)
    return out


class Scenario:
    def __init__(self, cls: Cls, pos: Optional[Pos], flags: Dict[str, bool], layout: Optional[Layout] = None):
        self.cls = cls
        self.pos = pos
        self.flags = flags
        self.layout = layout


def _index_value(sc: Scenario, e: ast.AST, where: str):
    if isinstance(e, ast.Constant) and isinstance(e.value, int) and not isinstance(e.value, bool):
        return ('c', e.value)
    if (isinstance(e, ast.Call) and pf.dotted(e.func) == 'len' and len(e.args) == 1 and isinstance(e.args[0], ast.Attribute)
            and isinstance(e.args[0].value, ast.Name) and e.args[0].value.id == 'self'):
        return ('lenattr', e.args[0].attr)
    raise AnalysisError(f'{where}: unrecognised child index expression `{pf.nsrc(e)}`')


def _group_attr_matches(sc: Scenario, attr: str, group: str) -> bool:
    """Is self.<attr> the starred child group `group` (constructor-local name) or a frozen alias of it?"""
    if sc.layout is None:
        return False
    attrs = sc.layout.attrs.get(group, set())
    if attr in attrs:
        return True
    al = GROUP_ALIASES.get((sc.cls.name, attr))
    return al is not None and al[0] in attrs


def _index_eq(sc: Scenario, val, where: str) -> bool:
    pos = sc.pos
    if pos is None:
        raise AnalysisError(f'{where}: child index tested but no position given')
    if val[0] == 'c':
        if pos[0] == 'c':
            return pos[1] == val[1]
        raise Undecided(f'{where}: constant child index {val[1]} compared in a class whose children are registered as a variable-length group')
    # len(self.attr)
    attr = val[1]
    if pos[0] == 'c':
        raise Undecided(f'{where}: child index compared with len(self.{attr}) but the constructor registers a fixed child list')
    if pos[0] == 'in':
        if _group_attr_matches(sc, attr, pos[1]):
            return False  # an element of the group has index < len(group)
        raise Undecided(f'{where}: len(self.{attr}) is not the length of the starred child group `{pos[1]}`')
    if pos[0] == 'len':
        if _group_attr_matches(sc, attr, pos[1]):
            return pos[2] == 0
        raise Undecided(f'{where}: len(self.{attr}) is not the length of the starred child group `{pos[1]}`')
    raise AnalysisError(f'{where}: bad position {pos}')


def eval_test(sc: Scenario, e: ast.AST, ivar: Optional[str], where: str) -> bool:
    if isinstance(e, ast.BoolOp):
        vals = (eval_test(sc, v, ivar, where) for v in e.values)
        return all(vals) if isinstance(e.op, ast.And) else any(vals)
    if isinstance(e, ast.UnaryOp) and isinstance(e.op, ast.Not):
        return not eval_test(sc, e.operand, ivar, where)
    if isinstance(e, ast.Constant):
        return bool(e.value)
    if ivar is not None and _is_index_test(e, ivar):
        op = e.ops[0]  # type: ignore[attr-defined]
        rhs = e.comparators[0]  # type: ignore[attr-defined]
        if isinstance(op, (ast.Eq, ast.NotEq)):
            r = _index_eq(sc, _index_value(sc, rhs, where), where)
            return r if isinstance(op, ast.Eq) else not r
        if isinstance(op, (ast.In, ast.NotIn)) and isinstance(rhs, (ast.Set, ast.Tuple, ast.List)):
            r = any(_index_eq(sc, _index_value(sc, x, where), where) for x in rhs.elts)
            return r if isinstance(op, ast.In) else not r
        if isinstance(op, (ast.Gt, ast.GtE, ast.Lt, ast.LtE)) and isinstance(rhs, ast.Constant) and isinstance(rhs.value, int):
            if sc.pos is None or sc.pos[0] != 'c':
                raise Undecided(f'{where}: ordered comparison of the child index in a variable-length class')
            k, c = sc.pos[1], rhs.value
            return {ast.Gt: k > c, ast.GtE: k >= c, ast.Lt: k < c, ast.LtE: k <= c}[type(op)]
        raise AnalysisError(f'{where}: unrecognised child index test `{pf.nsrc(e)}`')
    k, pol = _norm_atom(e)
    if k not in sc.flags:
        raise AnalysisError(f'{where}: atom `{k}` has no valuation')
    return sc.flags[k] if pol else not sc.flags[k]


def _self_attr(e: ast.AST) -> Optional[str]:
    if isinstance(e, ast.Attribute) and isinstance(e.value, ast.Name) and e.value.id == 'self':
        return e.attr
    return None


def _comp_tokens(elt: ast.AST, gens: Sequence[ast.comprehension], where: str, wrap_ok: Sequence[str] = ()) -> Tuple[str, bool]:
    """Token for a comprehension element that is (an optionally escape_id-wrapped) target variable.  Returns (token, escaped)."""
    if len(gens) != 1 or gens[0].ifs:
        raise AnalysisError(f'{where}: unrecognised comprehension')
    g = gens[0]
    escaped = False
    if isinstance(elt, ast.Call) and pf.dotted(elt.func) in wrap_ok and len(elt.args) == 1 and not elt.keywords:
        escaped = pf.dotted(elt.func) == 'escape_id'
        elt = elt.args[0]
    if not isinstance(elt, ast.Name):
        raise AnalysisError(f'{where}: comprehension element `{pf.nsrc(elt)}` is not a plain target variable')
    # position of the variable in the target
    tgt = g.target
    if isinstance(tgt, ast.Name):
        path: Optional[int] = None
        if tgt.id != elt.id:
            raise AnalysisError(f'{where}: `{elt.id}` is not bound by the comprehension')
    elif isinstance(tgt, ast.Tuple) and all(isinstance(x, ast.Name) for x in tgt.elts):
        names = [x.id for x in tgt.elts]  # type: ignore[attr-defined]
        if elt.id not in names:
            raise AnalysisError(f'{where}: `{elt.id}` is not bound by the comprehension')
        path = names.index(elt.id)
    else:
        raise AnalysisError(f'{where}: unrecognised comprehension target `{pf.nsrc(tgt)}`')
    it = g.iter
    a = _self_attr(it)
    if a is not None:
        return (f'EACH:{a}' + (f'[{path}]' if path is not None else '')), escaped
    if isinstance(it, ast.Call) and pf.dotted(it.func) == 'zip' and path is not None and path < len(it.args):
        za = _self_attr(it.args[path])
        if za is not None:
            return f'EACH:{za}', escaped
    raise AnalysisError(f'{where}: unrecognised comprehension source `{pf.nsrc(it)}`')


class KeyEval:
    """Evaluates a metadata method to the set of name tokens it returns, for one scenario."""

    def __init__(self, table: Table, cls: Cls, fn: pf.FuncDef, owner: Cls, sc: Scenario, depth: int = 0):
        self.t = table
        self.cls = cls
        self.fn = fn
        self.owner = owner
        self.sc = sc
        self.depth = depth
        self.where = f'{owner.key(fn.name)}'
        params = [a.arg for a in fn.args.args]
        self.ivar = params[1] if len(params) >= 2 and fn.name != '_compute_type' else None
        self.locals: Dict[str, Optional[FrozenSet[str]]] = {}
        self.aliases: Dict[str, ast.expr] = {}

    # -- expressions -------------------------------------------------------
    def key_token(self, k: ast.AST) -> str:
        a = _self_attr(k)
        if a is not None:
            return f'A:{a}'
        if isinstance(k, ast.Constant) and isinstance(k.value, str):
            return f'S:{k.value}'
        if pf.dotted(k) in ('BaseIR.agg_capability', 'self.agg_capability'):
            return CAP
        raise AnalysisError(f'{self.where}: unrecognised binding key `{pf.nsrc(k)}`')

    def is_typ(self, e: ast.AST) -> bool:
        """`<something>.typ` or a local assigned from it."""
        if isinstance(e, ast.Attribute) and e.attr == 'typ':
            return True
        if isinstance(e, ast.Name) and e.id in self.aliases:
            return self.is_typ(self.aliases[e.id])
        return False

    def dict_keys(self, e: ast.AST) -> FrozenSet[str]:
        w = self.where
        if isinstance(e, ast.Dict):
            out: Set[str] = set()
            for k, v in zip(e.keys, e.values):
                if k is None:
                    out |= self.dict_keys(v)
                else:
                    out.add(self.key_token(k))
            return frozenset(out)
        if isinstance(e, ast.DictComp):
            tok, _ = _comp_tokens(e.key, e.generators, w)
            return frozenset({tok})
        if isinstance(e, ast.IfExp):
            return self.dict_keys(e.body if eval_test(self.sc, e.test, self.ivar, w) else e.orelse)
        if isinstance(e, ast.BinOp) and isinstance(e.op, ast.BitOr):
            return self.dict_keys(e.left) | self.dict_keys(e.right)
        if isinstance(e, ast.Name):
            if e.id in self.locals:
                v = self.locals[e.id]
                if v is None:
                    raise AnalysisError(f'{w}: local `{e.id}` is not a recognised dict value')
                return v
            if self.fn.name == '_compute_type' and e.id in ('env', 'agg_env'):
                return frozenset({f'PARENT:{e.id}'})
            raise AnalysisError(f'{w}: unbound name `{e.id}` used as a dict')
        if isinstance(e, ast.Constant) and e.value is None:
            return frozenset({'NONE'})
        if isinstance(e, ast.Call):
            f = e.func
            d = pf.dotted(f)
            if d == '_env_bind' and len(e.args) == 2:
                return self.dict_keys(e.args[0]) | self.dict_keys(e.args[1])
            if d == 'dict' and len(e.args) == 1 and not e.keywords:
                return self.dict_keys(e.args[0])
            if isinstance(f, ast.Attribute) and f.attr.endswith('_env') and self.is_typ(f.value):
                return frozenset({f'ENV:{f.attr}'})
            if isinstance(f, ast.Attribute) and isinstance(f.value, ast.Name) and f.value.id == 'self':
                return self.call_self(f.attr, e)
        raise AnalysisError(f'{w}: unrecognised dict expression `{pf.nsrc(e)}`')

    def call_self(self, meth: str, call: ast.Call) -> FrozenSet[str]:
        fam = {'bindings': 'renderable_bindings', 'agg_bindings': 'renderable_agg_bindings', 'scan_bindings': 'renderable_scan_bindings'}
        target = fam.get(meth, meth)
        if target not in BINDER_FUNCS:
            raise AnalysisError(f'{self.where}: unrecognised call self.{meth}(...)')
        if self.depth > 3:
            raise AnalysisError(f'{self.where}: binder methods call each other too deeply')
        if not call.args:
            raise AnalysisError(f'{self.where}: self.{meth}() without a child index')
        iarg = call.args[0]
        if isinstance(iarg, ast.Name) and iarg.id == self.ivar:
            pos = self.sc.pos
        else:
            pos = self.resolve_pos(_index_value(self.sc, iarg, self.where))
        return binder_keys(self.t, self.cls, meth if meth in fam else target, pos, self.sc.flags, self.sc.layout, self.depth + 1)

    def resolve_pos(self, val) -> Pos:
        """Turn an index expression used in _compute_type into a position of the current layout."""
        lay = self.sc.layout
        if lay is None:
            raise AnalysisError(f'{self.where}: no layout')
        if val[0] == 'c':
            return ('c', val[1])
        attr = val[1]
        for p, s in lay.positions():
            if p[0] == 'len' and p[2] == 0:
                sc2 = Scenario(self.cls, p, self.sc.flags, lay)
                if _group_attr_matches(sc2, attr, p[1]):
                    return p
        raise Undecided(f'{self.where}: len(self.{attr}) does not denote a child position of layout {lay}')

    # -- statements -----------------------------------------------------------
    def run(self) -> FrozenSet[str]:
        r = self.block(self.fn.body)
        if r is None:
            raise AnalysisError(f'{self.where}: falls off the end without returning')
        return r

    def try_dict(self, e: ast.AST) -> Optional[FrozenSet[str]]:
        try:
            return self.dict_keys(e)
        except Undecided:
            raise
        except AnalysisError:
            return None

    def block(self, stmts: Sequence[ast.stmt]) -> Optional[FrozenSet[str]]:
        for st in stmts:
            if isinstance(st, ast.Expr) and isinstance(st.value, ast.Constant):
                continue
            if isinstance(st, ast.If):
                br = st.body if eval_test(self.sc, st.test, self.ivar, self.where) else st.orelse
                r = self.block(br)
                if r is not None:
                    return r
            elif isinstance(st, ast.Return):
                if st.value is None:
                    raise AnalysisError(f'{self.where}: bare return')
                return self.dict_keys(st.value)
            elif isinstance(st, ast.Assign) and len(st.targets) == 1:
                t = st.targets[0]
                if isinstance(t, ast.Name):
                    self.aliases[t.id] = st.value
                    self.locals[t.id] = self.try_dict(st.value) if isinstance(st.value, (ast.Dict, ast.DictComp, ast.Call, ast.IfExp, ast.BinOp, ast.Name)) else None
                elif isinstance(t, ast.Subscript) and isinstance(t.value, ast.Name) and self.locals.get(t.value.id) is not None:
                    self.locals[t.value.id] = self.locals[t.value.id] | {self.key_token(t.slice)}  # type: ignore[operator]
                elif isinstance(t, ast.Tuple):
                    for x in t.elts:
                        if isinstance(x, ast.Name):
                            self.locals[x.id] = None
                else:
                    raise AnalysisError(f'{self.where}: unrecognised assignment `{pf.nsrc(st)}`')
            else:
                raise AnalysisError(f'{self.where}: unrecognised statement `{pf.nsrc(st)[:80]}`')
        return None


def binder_func(cls: Cls, which: str) -> Optional[Tuple[Cls, pf.FuncDef]]:
    """`which` in bindings/agg_bindings/scan_bindings (child-index API) or renderable_*: the user-level definition, or None for the root default."""
    fam = {'bindings': 'renderable_bindings', 'agg_bindings': 'renderable_agg_bindings', 'scan_bindings': 'renderable_scan_bindings'}
    if which in fam:
        r = cls.resolve_nonroot(which)  # a class may override the child-index API directly (BlockMatrixMap)
        if r is not None:
            return r
        which = fam[which]
    return cls.resolve_nonroot(which)


def binder_keys(table: Table, cls: Cls, which: str, pos: Optional[Pos], flags: Dict[str, bool], layout: Optional[Layout], depth: int = 0) -> FrozenSet[str]:
    r = binder_func(cls, which)
    if r is None:
        return frozenset()
    owner, fn = r
    atoms = collect_atoms(fn, fn.args.args[1].arg if len(fn.args.args) > 1 else None)
    fl = dict(flags)
    for a in atoms:
        fl.setdefault(a, False)
    return KeyEval(table, cls, fn, owner, Scenario(cls, pos, fl, layout), depth).run()


def flag_atoms(cls: Cls, funcs: Iterable[str]) -> List[str]:
    """Union of the boolean atoms tested by the given metadata methods (resolved through the MRO), transitively through
    the binder methods they call on self."""
    out: List[str] = []
    seen: Set[str] = set()
    work = list(funcs)
    while work:
        f = work.pop()
        if f in seen:
            continue
        seen.add(f)
        r = binder_func(cls, f) if f in ('bindings', 'agg_bindings', 'scan_bindings') or f in BINDER_FUNCS else cls.resolve_nonroot(f)
        if r is None:
            continue
        fn = r[1]
        iv = fn.args.args[1].arg if len(fn.args.args) > 1 and fn.name != '_compute_type' else None
        for a in collect_atoms(fn, iv):
            if a not in out:
                out.append(a)
        for c in pf.calls_in(fn):
            if isinstance(c.func, ast.Attribute) and isinstance(c.func.value, ast.Name) and c.func.value.id == 'self':
                if c.func.attr in BINDER_FUNCS or c.func.attr in ('bindings', 'agg_bindings', 'scan_bindings'):
                    work.append(c.func.attr)
    return out


def valuations(atoms: Sequence[str]) -> Iterable[Dict[str, bool]]:
    for bits in itertools.product([False, True], repeat=len(atoms)):
        yield dict(zip(atoms, bits))


# --------------------------------------------------------------------------------------
# renderable index mapping (BaseApplyAggOp)
# --------------------------------------------------------------------------------------


def renderable_index_map(cls: Cls, layout: Layout) -> Optional[Dict[str, int]]:
    """For classes overriding renderable_idx_of_child: starred group (constructor-local name) -> renderable index.
    Recognises   if i < len(self.G0): return 0 ; return 1   only."""
    r = cls.resolve_nonroot('renderable_idx_of_child')
    if r is None:
        return None
    owner, fn = r
    where = owner.key(fn.name)
    body = [s for s in fn.body if not (isinstance(s, ast.Expr) and isinstance(s.value, ast.Constant))]
    ok = (len(body) == 2 and isinstance(body[0], ast.If) and not body[0].orelse and len(body[0].body) == 1
          and isinstance(body[0].body[0], ast.Return) and isinstance(body[1], ast.Return))
    if not ok:
        raise AnalysisError(f'{where}: unrecognised renderable_idx_of_child')
    test = body[0].test
    if not (isinstance(test, ast.Compare) and len(test.ops) == 1 and isinstance(test.ops[0], ast.Lt) and isinstance(test.left, ast.Name)
            and isinstance(test.comparators[0], ast.Call) and pf.dotted(test.comparators[0].func) == 'len'):
        raise AnalysisError(f'{where}: unrecognised renderable_idx_of_child test')
    a = _self_attr(test.comparators[0].args[0])
    r0, r1 = body[0].body[0].value, body[1].value  # type: ignore[attr-defined]
    if not (isinstance(r0, ast.Constant) and isinstance(r1, ast.Constant) and a is not None):
        raise AnalysisError(f'{where}: unrecognised renderable_idx_of_child results')
    stars = [s for s in layout.segs if s.kind == 'star']
    if len(stars) != 2 or len(layout.segs) != 2 or a not in layout.attrs.get(stars[0].name, set()):
        raise AnalysisError(f'{where}: renderable_idx_of_child does not split the two starred child groups {layout}')
    return {stars[0].name: r0.value, stars[1].name: r1.value}


def renderable_positions(cls: Cls, layout: Layout) -> List[Tuple[Pos, str]]:
    """Positions in the *renderable* index space with a label (child description)."""
    m = renderable_index_map(cls, layout)
    if m is None:
        return [(p, repr(s)) for p, s in layout.positions()]
    return [(('c', idx), f'*{g}') for g, idx in m.items()]


# --------------------------------------------------------------------------------------
# bound_variables and head_str
# --------------------------------------------------------------------------------------

SUPER = 'SUPER'


class SetEval(KeyEval):
    """bound_variables: set-valued."""

    def __init__(self, table: Table, cls: Cls, fn: pf.FuncDef, owner: Cls, flags: Dict[str, bool]):
        super().__init__(table, cls, fn, owner, Scenario(cls, None, flags, None))
        self.ivar = None

    def dict_keys(self, e: ast.AST) -> FrozenSet[str]:  # reused as "set elements"
        w = self.where
        if isinstance(e, ast.Set):
            return frozenset(self.key_token(x) for x in e.elts)
        if isinstance(e, ast.SetComp):
            tok, _ = _comp_tokens(e.elt, e.generators, w)
            return frozenset({tok})
        if isinstance(e, ast.BinOp) and isinstance(e.op, ast.BitOr):
            return self.dict_keys(e.left) | self.dict_keys(e.right)
        if isinstance(e, ast.Call) and pf.dotted(e.func) == 'set' and len(e.args) == 1 and _self_attr(e.args[0]) is not None:
            return frozenset({f'EACH:{_self_attr(e.args[0])}'})
        if isinstance(e, ast.Call) and pf.dotted(e.func) == 'set' and not e.args:
            return frozenset()
        if (isinstance(e, ast.Attribute) and e.attr == 'bound_variables' and isinstance(e.value, ast.Call)
                and isinstance(e.value.func, ast.Name) and e.value.func.id == 'super'):
            return frozenset({SUPER})
        raise AnalysisError(f'{w}: unrecognised set expression `{pf.nsrc(e)}`')


def bound_variable_tokens(table: Table, cls: Cls) -> Optional[Dict[Tuple[Tuple[str, bool], ...], FrozenSet[str]]]:
    """valuation -> tokens, or None when the class only has the root default."""
    r = cls.resolve_nonroot('bound_variables')
    if r is None:
        return None
    owner, fn = r
    atoms = collect_atoms(fn, None)
    out = {}
    for fl in valuations(atoms):
        out[tuple(sorted(fl.items()))] = SetEval(table, cls, fn, owner, fl).run()
    return out


def head_holes(cls: Cls) -> Optional[List[Tuple[str, bool, str]]]:
    """(token, escaped, source) for every self-attribute / sequence rendered by head_str (union over its return statements);
    None when the class inherits the empty default."""
    r = cls.resolve_nonroot('head_str')
    if r is None:
        return None
    owner, fn = r
    where = owner.key('head_str')
    holes: List[Tuple[str, bool, str]] = []

    def piece(e: ast.AST, escaped: bool = False) -> None:
        a = _self_attr(e)
        if a is not None:
            holes.append((f'A:{a}', escaped, pf.nsrc(e)))
            return
        if isinstance(e, ast.JoinedStr):
            for v in e.values:
                if isinstance(v, ast.FormattedValue):
                    piece(v.value)
            return
        if isinstance(e, ast.BinOp) and isinstance(e.op, ast.Add):
            piece(e.left)
            piece(e.right)
            return
        if isinstance(e, ast.IfExp):
            piece(e.body)
            piece(e.orelse)
            return
        if isinstance(e, ast.Call):
            d = pf.dotted(e.func)
            if d == 'escape_id' and len(e.args) == 1:
                piece(e.args[0], True)
                return
            if d == 'str' and len(e.args) == 1:
                piece(e.args[0], escaped)
                return
            if isinstance(e.func, ast.Attribute) and e.func.attr == 'format':
                for x in e.args:
                    piece(x)
                return
            if isinstance(e.func, ast.Attribute) and e.func.attr == 'join' and len(e.args) == 1:
                x = e.args[0]
                if isinstance(x, (ast.ListComp, ast.GeneratorExp)):
                    try:
                        tok, esc = _comp_tokens(x.elt, x.generators, where, wrap_ok=('escape_id', 'str'))
                        holes.append((tok, esc, pf.nsrc(x)))
                    except AnalysisError:
                        pass  # e.g. str(i) for i in range(...): renders no self sequence of names
                    return
                if isinstance(x, ast.Call) and pf.dotted(x.func) == 'map' and len(x.args) == 2 and _self_attr(x.args[1]) is not None:
                    holes.append((f'EACH:{_self_attr(x.args[1])}', pf.dotted(x.args[0]) == 'escape_id', pf.nsrc(x)))
                    return
                if isinstance(x, (ast.List, ast.Tuple)):
                    for y in x.elts:
                        piece(y)
                    return
            return  # other calls render no binder name directly (type strings, json dumps, ...)
        # constants and anything else: nothing rendered from self

    for n in pf.walk_shallow(fn):
        if isinstance(n, ast.Return) and n.value is not None:
            piece(n.value)
    return holes


# --------------------------------------------------------------------------------------
# _compute_type: which child is typed under which environment
# --------------------------------------------------------------------------------------


class TypingCall:
    def __init__(self, node: ast.Call, meth: str, pos: Pos, seg: Seg, layout: Layout, recv: str,
                 env: Optional[FrozenSet[str]], agg: Optional[FrozenSet[str]], flag: Optional[ast.expr],
                 cond: Optional[str], problems: List[str]):
        self.node = node
        self.meth = meth          # compute_type | _compute_type
        self.pos = pos
        self.seg = seg
        self.layout = layout
        self.recv = recv
        self.env = env            # name tokens of the eval environment (None for relational children)
        self.agg = agg
        self.flag = flag
        self.cond = cond          # text of the enclosing `if` test, if any
        self.problems = problems  # argument-shape problems (recognised shapes that are wrong)


class TypeEval(KeyEval):
    """Forward pass over a `_compute_type` body collecting the calls that type a registered child."""

    def __init__(self, table: Table, cls: Cls, fn: pf.FuncDef, owner: Cls, flags: Dict[str, bool], lays: List[Layout]):
        super().__init__(table, cls, fn, owner, Scenario(cls, None, flags, lays[0]))
        self.ivar = None
        self.lays = lays
        self.loopvars: Dict[str, str] = {}  # loop variable -> self attribute it iterates over
        self.calls: List[TypingCall] = []
        self.seen: Set[int] = set()

    def find_child(self, attr: str) -> Optional[Tuple[Pos, Seg, Layout]]:
        for lay in self.lays:
            r = lay.seg_of_attr(attr)
            if r is not None:
                return r[0], r[1], lay
        return None

    def recv_child(self, recv: ast.AST) -> Optional[Tuple[Pos, Seg, Layout, str]]:
        a = _self_attr(recv)
        if a is None and isinstance(recv, ast.Name) and recv.id in self.loopvars:
            a = self.loopvars[recv.id]
        if a is None:
            return None
        r = self.find_child(a)
        if r is None:
            return None
        return r[0], r[1], r[2], pf.nsrc(recv)

    def bind_loop(self, target: ast.AST, it: ast.AST) -> None:
        a = _self_attr(it)
        if a is None and isinstance(it, ast.Name) and it.id in self.loopvars:
            a = self.loopvars[it.id]
        if a is None:
            return
        for x in ast.walk(target):
            if isinstance(x, ast.Name):
                self.loopvars[x.id] = a

    def scan_calls(self, node: ast.AST, cond: Optional[str]) -> None:
        for n in ast.walk(node):
            if isinstance(n, (ast.ListComp, ast.GeneratorExp, ast.SetComp, ast.DictComp)):
                for g in n.generators:
                    self.bind_loop(g.target, g.iter)
        for n in ast.walk(node):
            if isinstance(n, ast.Call) and isinstance(n.func, ast.Attribute) and n.func.attr in ('compute_type', '_compute_type') and id(n) not in self.seen:
                self.seen.add(id(n))
                rc = self.recv_child(n.func.value)
                if rc is None:
                    raise AnalysisError(f'{self.where}: `{pf.nsrc(n)}` types something that is not a registered child')
                pos, seg, lay, recv = rc
                self.sc.layout = lay
                problems: List[str] = []
                env = agg = None
                flag: Optional[ast.expr] = None
                if n.keywords or any(isinstance(a, ast.Starred) for a in n.args):
                    raise AnalysisError(f'{self.where}: `{pf.nsrc(n)}`: keyword/starred arguments are not modelled')
                if len(n.args) == 3:
                    flag = n.args[2]
                    env = self.arg_env(n.args[0], problems, 'environment')
                    agg = self.arg_env(n.args[1], problems, 'aggregation environment')
                elif len(n.args) == 1:
                    flag = n.args[0]
                else:
                    problems.append(f'is called with {len(n.args)} positional arguments (expected (env, agg_env, deep_typecheck) or (deep_typecheck))')
                self.calls.append(TypingCall(n, n.func.attr, pos, seg, lay, recv, env, agg, flag, cond, problems))

    def arg_env(self, e: ast.AST, problems: List[str], what: str) -> Optional[FrozenSet[str]]:
        if isinstance(e, ast.Name) and e.id == 'deep_typecheck':
            problems.append(f'passes the flag `deep_typecheck` as the {what}')
            return None
        return self.dict_keys(e)

    def block(self, stmts: Sequence[ast.stmt], cond: Optional[str] = None) -> None:  # type: ignore[override]
        for st in stmts:
            if isinstance(st, ast.If):
                self.scan_calls(st.test, cond)
                c = pf.nsrc(st.test) if cond is None else f'{cond} and {pf.nsrc(st.test)}'
                self.block(st.body, c)
                self.block(st.orelse, f'not ({pf.nsrc(st.test)})' if cond is None else f'{cond} and not ({pf.nsrc(st.test)})')
            elif isinstance(st, (ast.For,)):
                self.bind_loop(st.target, st.iter)
                self.block(st.body, cond)
                self.block(st.orelse, cond)
            elif isinstance(st, ast.Assign) and len(st.targets) == 1:
                self.scan_calls(st.value, cond)
                t = st.targets[0]
                if isinstance(t, ast.Name):
                    self.aliases[t.id] = st.value
                    self.locals[t.id] = self.try_dict(st.value) if isinstance(st.value, (ast.Dict, ast.DictComp, ast.Call, ast.IfExp, ast.BinOp, ast.Name)) else None
                elif isinstance(t, ast.Subscript) and isinstance(t.value, ast.Name) and self.locals.get(t.value.id) is not None:
                    self.locals[t.value.id] = self.locals[t.value.id] | {self.key_token(t.slice)}  # type: ignore[operator]
                elif isinstance(t, (ast.Tuple, ast.List)):
                    # `first, *rest = self.values`
                    for x in ast.walk(t):
                        if isinstance(x, ast.Name):
                            self.locals[x.id] = None
                    self.bind_loop(t, st.value)
            elif isinstance(st, (ast.With, ast.Try, ast.While)):
                raise AnalysisError(f'{self.where}: unrecognised compound statement {type(st).__name__}')
            else:
                self.scan_calls(st, cond)


def typing_calls(table: Table, cls: Cls) -> Optional[Tuple[Cls, pf.FuncDef, List[TypingCall]]]:
    r = cls.resolve_nonroot('_compute_type')
    if r is None:
        return None
    owner, fn = r
    lays = layouts(cls)
    atoms = flag_atoms(cls, ['bindings', 'agg_bindings', 'scan_bindings'])
    ev = TypeEval(table, cls, fn, owner, {a: False for a in atoms}, lays)
    ev.block(fn.body)
    return owner, fn, ev.calls


# --------------------------------------------------------------------------------------
# environments of the table / matrix types
# --------------------------------------------------------------------------------------

TYPE_FILES = {'table': ('hail/python/hail/expr/table_type.py', 'ttable'), 'matrix': ('hail/python/hail/expr/matrix_type.py', 'tmatrix')}


def env_method_keys() -> Dict[str, Dict[str, Tuple[FrozenSet[str], FrozenSet[str], str]]]:
    """kind -> method -> (keys with types, keys with default_value, construct key)."""
    out: Dict[str, Dict[str, Tuple[FrozenSet[str], FrozenSet[str], str]]] = {}
    for kind, (rel, cname) in TYPE_FILES.items():
        m = pf.load(rel)
        c = m.cls(cname)
        res = {}
        for st in c.body:
            if isinstance(st, ast.FunctionDef) and st.name.endswith('_env'):
                rets = [n for n in pf.walk_shallow(st) if isinstance(n, ast.Return)]
                ifs = [n for n in st.body if isinstance(n, ast.If)]
                if not (len(rets) == 2 and len(ifs) == 1 and pf.nsrc(ifs[0].test) == 'default_value is None'
                        and len(ifs[0].body) == 1 and len(ifs[0].orelse) == 1 and all(isinstance(r.value, ast.Dict) for r in rets)):
                    raise AnalysisError(f'{rel}::{cname}.{st.name}: unrecognised environment method')

                def keys(d: ast.Dict) -> FrozenSet[str]:
                    ks = []
                    for k in d.keys:
                        if not (isinstance(k, ast.Constant) and isinstance(k.value, str)):
                            raise AnalysisError(f'{rel}::{cname}.{st.name}: non-literal key')
                        ks.append(k.value)
                    return frozenset(ks)

                res[st.name] = (keys(ifs[0].body[0].value), keys(ifs[0].orelse[0].value), f'{rel}::{cname}.{st.name}')  # type: ignore[attr-defined]
        out[kind] = res
    return out


def expand_env(tokens: Iterable[str], envs: Dict[str, Tuple[FrozenSet[str], FrozenSet[str], str]]) -> Optional[FrozenSet[str]]:
    """Replace ENV:<m> tokens by S:<key> tokens using one type's methods; None if a method does not exist for that type."""
    out: Set[str] = set()
    for t in tokens:
        if t.startswith('ENV:'):
            m = t[4:]
            if m not in envs:
                return None
            out |= {f'S:{k}' for k in envs[m][0]}
        else:
            out.add(t)
    return frozenset(out)


def named(tokens: Iterable[str]) -> FrozenSet[str]:
    return frozenset(t for t in tokens if t.startswith(('A:', 'EACH:', 'S:', 'ENV:')))


# --------------------------------------------------------------------------------------
# deterministic evaluation of small method bodies under a valuation of their tests, path conditions, helper inlining
# (C35 R10-R14: renderer passes and the free-variable properties)
# --------------------------------------------------------------------------------------


def split_compare(e: ast.Compare) -> List[ast.Compare]:
    """`a <= b < c` -> [`a <= b`, `b < c`]."""
    out = []
    left = e.left
    for op, c in zip(e.ops, e.comparators):
        out.append(ast.copy_location(ast.Compare(left=left, ops=[op], comparators=[c]), e))
        left = c
    return out


def eval_bool(e: ast.AST, atom) -> bool:
    """Evaluate a test; `atom(expr) -> bool` decides the leaves (and raises AnalysisError for a leaf it does not know)."""
    if isinstance(e, ast.BoolOp):
        if isinstance(e.op, ast.And):
            return all(eval_bool(v, atom) for v in e.values)
        return any(eval_bool(v, atom) for v in e.values)
    if isinstance(e, ast.UnaryOp) and isinstance(e.op, ast.Not):
        return not eval_bool(e.operand, atom)
    if isinstance(e, ast.Constant):
        return bool(e.value)
    if isinstance(e, ast.Compare) and len(e.ops) > 1:
        return all(eval_bool(c, atom) for c in split_compare(e))
    return atom(e)


def literals(test: ast.AST, pol: bool) -> List[Tuple[ast.AST, bool]]:
    """The literals a test with truth value `pol` *implies* (conjunctive decomposition):  not (a or b) is True -> [(a, F), (b, F)].
    A part that is a disjunction under this polarity is returned whole as one opaque literal."""
    if isinstance(test, ast.UnaryOp) and isinstance(test.op, ast.Not):
        return literals(test.operand, not pol)
    if isinstance(test, ast.BoolOp):
        conj = isinstance(test.op, ast.And) == pol
        if conj:
            out: List[Tuple[ast.AST, bool]] = []
            for v in test.values:
                out += literals(v, pol)
            return out
        return [(test, pol)]
    if isinstance(test, ast.Compare) and len(test.ops) > 1 and pol:
        out = []
        for c in split_compare(test):
            out += literals(c, True)
        return out
    return [(test, pol)]


def _always_exits(stmts: Sequence[ast.stmt]) -> bool:
    for st in stmts:
        if isinstance(st, (ast.Return, ast.Raise, ast.Continue, ast.Break)):
            return True
        if isinstance(st, ast.If) and st.orelse and _always_exits(st.body) and _always_exits(st.orelse):
            return True
    return False


def path_conditions(fn: ast.AST) -> Dict[int, List[Tuple[ast.AST, bool]]]:
    """id(statement) -> the (test, truth value) pairs that hold whenever the statement executes: the tests of the enclosing
    `if`s and the negated tests of preceding sibling `if`s whose body always leaves the block (return / raise / continue / break).
    Loop bodies inherit the conditions of the loop statement (sound as a *necessary* condition only for tests on values the loop
    does not change; callers use it for branch structure inside one loop iteration).  try/with/match are not entered."""
    out: Dict[int, List[Tuple[ast.AST, bool]]] = {}

    def block(stmts: Sequence[ast.stmt], cond: List[Tuple[ast.AST, bool]], fresh: bool) -> None:
        cur = list(cond)
        for st in stmts:
            out[id(st)] = list(cur)
            if isinstance(st, ast.If):
                block(st.body, cur + [(st.test, True)], False)
                block(st.orelse, cur + [(st.test, False)], False)
                if _always_exits(st.body) and not st.orelse:
                    cur = cur + [(st.test, False)]
                elif st.orelse and _always_exits(st.orelse) and not _always_exits(st.body):
                    cur = cur + [(st.test, True)]
            elif isinstance(st, (ast.While, ast.For)):
                # conditions established before the loop are not carried into later iterations
                block(st.body, [], True)
                block(st.orelse, cur, False)
            elif isinstance(st, (ast.With,)):
                block(st.body, cur, False)

    block(getattr(fn, 'body', []), [], True)
    return out


def exec_block(stmts: Sequence[ast.stmt], atom, visit) -> Optional[Tuple[str, ast.stmt]]:
    """Run a loop-free statement list under the test oracle `atom`; `visit(stmt)` is called for every simple statement executed
    (including the terminating return / raise / continue / break, which is also returned as (kind, stmt))."""
    for st in stmts:
        if isinstance(st, ast.Expr) and isinstance(st.value, ast.Constant):
            continue
        if isinstance(st, ast.If):
            r = exec_block(st.body if eval_bool(st.test, atom) else st.orelse, atom, visit)
            if r is not None:
                return r
        elif isinstance(st, (ast.Return, ast.Raise, ast.Continue, ast.Break)):
            visit(st)
            return ({ast.Return: 'return', ast.Raise: 'raise', ast.Continue: 'continue', ast.Break: 'break'}[type(st)], st)
        elif isinstance(st, (ast.For, ast.While, ast.Try, ast.With, ast.AsyncFor, ast.AsyncWith)) or (hasattr(ast, 'Match') and isinstance(st, ast.Match)):
            raise AnalysisError(f'unrecognised compound statement {type(st).__name__} at line {st.lineno}')
        else:
            visit(st)
    return None


def inline_all(m: pf.Module, cls_name: str, target: str, max_depth: int = 3) -> Tuple[pf.Module, List[Tuple[str, int]], List[Tuple[str, int, str]]]:
    """A copy of module m in which method `target` of top-level class `cls_name` has its statement-level calls to same-class
    helper methods (`self.h(...)`, including @staticmethod helpers called through self) and to module-level helper functions
    inlined (engines/inline.py).  Returns (module copy, inlined [(helper, line)], skipped [(helper, line, why)])."""
    import copy
    from . import inline as il
    tree = copy.deepcopy(m.tree)
    m2 = pf.Module(m.rel, m.path, m.src, tree)
    cls = m2.cls(cls_name)
    fn = None
    helpers: Dict[str, pf.FuncDef] = {}
    for f in cls.body:
        if not isinstance(f, (ast.FunctionDef, ast.AsyncFunctionDef)):
            continue
        if f.name == target:
            fn = f
            continue
        h = copy.deepcopy(f)
        decs = pf.decorator_names(h)
        if decs == ['staticmethod']:
            # called as self.h(args): bind a dummy receiver so that the argument positions line up
            h.decorator_list = []
            h.args.args.insert(0, ast.arg(arg='self__static'))
        helpers[h.name] = h
    if fn is None:
        raise AnalysisError(f'anchor vanished: {m.rel}::{cls_name}.{target}')
    recv = fn.args.args[0].arg if fn.args.args else 'self'
    i1 = il.Inliner(helpers, recv, max_depth)
    i1.run(fn)
    mod_helpers = {f.name: copy.deepcopy(f) for f in tree.body if isinstance(f, (ast.FunctionDef, ast.AsyncFunctionDef))}
    i2 = il.Inliner(mod_helpers, None, max_depth)
    i2.run(fn)
    ast.fix_missing_locations(tree)
    return m2, i1.inlined + i2.inlined, i1.skipped + i2.skipped
