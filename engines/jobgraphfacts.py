"""Facts about the job graph and the job-group bookkeeping (helpers of C05 / C06).

Part 1 - ABSTRACT execution of stored routines over symbolic state.  No row, id or count is ever given a concrete value:

          * ids and tokens are opaque symbols (`Sym`), compared only for identity;
          * counts (n_pending_parents, tallies, job counts, number of parents in a state) are integer linear forms (`Lin`) over
            count symbols; a comparison is decided from the interval CLASS of the symbols in the current case ({1, >=2},
            {0, >=1} ...) and, where the class does not decide it, the case is split (explicit case split, demand driven:
            only the atoms the code really tests are split);
          * enum-valued fields (job states, the reported new_state, NULL / same / other attempt id) are split over their members
            when read (truth table over enum members);
          * WHICH rows a statement touches is never found by running a join: the FROM / ON / WHERE of the statement is brought to
            a normal form (equality closure over column and value terms, derived tables and IN-subqueries flattened, residual
            conjuncts kept) and compared with the canonical selection of a ROLE ("the job itself", "its dependents", "the tally rows
            of its group and ancestors", ...).  Equal normal form -> the statement acts on that role's symbolic row; same tables but a
            different partition -> a recognisably different row set (reported by the caller); anything else -> AnalysisError.

          The result of one case is the symbolic post-state of every role row; the caller compares it with the table the property
          prescribes (normal forms of the linear forms, members of the enums).  Concrete numbers appear only when a case is printed
          as a witness (`Case.describe`).
Part 2 - who-may-write / shape analysis of `job_group_self_and_ancestors` (the closure table every roll-up trusts) and of the staged
          job counts, on the Python side.
"""
from __future__ import annotations

import ast
from typing import Any, Callable, Dict, Iterable, List, Optional, Sequence, Set, Tuple

from . import pyfacts as pf
from . import sqlfront as sf
from .common import AnalysisError
from .linform import Lin
from .sqlast import N, text

# ======================================================================================
# abstract values
# ======================================================================================


class _Unknown:
    def __repr__(self) -> str:
        return 'UNKNOWN'


UNK = _Unknown()


class Sym:
    """Opaque identity (an id, a token).  Two symbols with different names denote different things unless the domain says
    they may coincide."""
    __slots__ = ('name',)

    def __init__(self, name: str):
        self.name = name

    def __eq__(self, o: object) -> bool:
        return isinstance(o, Sym) and o.name == self.name

    def __hash__(self) -> int:
        return hash(('Sym', self.name))

    def __repr__(self) -> str:
        return f'<{self.name}>'


class EnumVal:
    """A field whose value is one member of a finite enum; resolved through the current case when read."""
    __slots__ = ('name',)

    def __init__(self, name: str):
        self.name = name

    def __repr__(self) -> str:
        return f'enum:{self.name}'


class Undecided(Exception):
    """The abstract value needed is UNKNOWN."""


class NeedSplit(Exception):
    def __init__(self, cases: List['Case'], why: str):
        self.cases = cases
        self.why = why


class DependsOn(Exception):
    """A decision of the code depends on a symbol the scenario declares unreliable (e.g. a stored count that concurrent operations move)."""

    def __init__(self, sym: str, form: str):
        self.sym = sym
        self.form = form


class Mismatch(Exception):
    """A statement writes a tracked table with a selection that is recognisably NOT the canonical one."""

    def __init__(self, table: str, st: N, what: str, kind: str = ''):
        self.table = table
        self.st = st
        self.what = what
        self.kind = kind


def lin_of(v: Any) -> Optional[Lin]:
    if isinstance(v, Lin):
        return v
    if isinstance(v, bool):
        return Lin({}, int(v))
    if isinstance(v, int):
        return Lin({}, v)
    return None


def simp(v: Any) -> Any:
    if isinstance(v, Lin) and v.is_const():
        return int(v.const)
    if isinstance(v, bool):
        return int(v)
    return v


class Domain:
    def __init__(self, enums: Dict[str, List[Any]], ivals: Dict[str, Tuple[Optional[int], Optional[int]]], maybe_equal: Iterable[Tuple[str, str]] = (),
                 labels: Optional[Dict[str, str]] = None, split_budget: int = 3):
        self.enums = enums
        self.ivals = ivals
        self.maybe_equal = {frozenset(p) for p in maybe_equal}
        self.labels = labels or {}
        self.split_budget = split_budget
        self.unreliable: Set[str] = set()


class Case:
    """One abstract case: chosen enum members, interval classes of count symbols (or of whole linear forms), unifications."""

    def __init__(self, dom: Domain):
        self.dom = dom
        self.choice: Dict[str, Any] = {}
        self.pv: Dict[str, Tuple[Optional[int], Optional[int]]] = {}
        self.subst: Dict[str, Lin] = {}
        self.nsplit: Dict[str, int] = {}

    def clone(self) -> 'Case':
        c = Case(self.dom)
        c.choice = dict(self.choice)
        c.pv = dict(self.pv)
        c.subst = dict(self.subst)
        c.nsplit = dict(self.nsplit)
        return c

    # -- enums -------------------------------------------------------------------------
    def enum(self, name: str) -> Any:
        if name in self.choice:
            return self.choice[name]
        if name not in self.dom.enums:
            raise AnalysisError(f'abstract domain: no enum named {name}')
        out = []
        for m in self.dom.enums[name]:
            c = self.clone()
            c.choice[name] = m
            out.append(c)
        raise NeedSplit(out, f'enum {name}')

    # -- linear forms ------------------------------------------------------------------
    def norm(self, L: Lin) -> Lin:
        for _ in range(8):
            hit = [s for s in L.coef if s in self.subst]
            if not hit:
                return L
            out = Lin({}, L.const)
            for s, c in L.coef.items():
                out = out + (self.subst[s].scale(c) if s in self.subst else Lin({s: c}, 0))
            L = out
        raise AnalysisError('abstract domain: substitution does not terminate')

    def interval(self, s: str) -> Tuple[Optional[int], Optional[int]]:
        if s in self.pv:
            return self.pv[s]
        return self.dom.ivals.get(s, (None, None))

    def bounds(self, P: Lin) -> Tuple[Optional[int], Optional[int]]:
        lo: Optional[int] = int(P.const)
        hi: Optional[int] = int(P.const)
        for s, c in P.coef.items():
            a, b = self.interval(s)
            c = int(c)
            if c >= 0:
                l2 = None if a is None else c * a
                h2 = None if b is None else c * b
            else:
                l2 = None if b is None else c * b
                h2 = None if a is None else c * a
            lo = None if (lo is None or l2 is None) else lo + l2
            hi = None if (hi is None or h2 is None) else hi + h2
        key = repr(P)
        if key in self.pv and len(P.coef) > 1:
            a, b = self.pv[key]
            lo = a if lo is None else (lo if a is None else max(lo, a))
            hi = b if hi is None else (hi if b is None else min(hi, b))
        return lo, hi

    def sign(self, L: Lin) -> int:
        """Sign of the linear form in this case; raises NeedSplit when the case does not decide it."""
        L = self.norm(L)
        if L.is_const():
            return (L.const > 0) - (L.const < 0)
        syms = sorted(L.coef)
        for x in syms:
            if x in self.dom.unreliable:
                raise DependsOn(x, repr(L))
        s = 1 if L.coef[syms[0]] > 0 else -1
        P = Lin({k: int(v) * s for k, v in L.coef.items()}, 0)
        t = -int(L.const) * s  # L = s * (P - t)
        lo, hi = self.bounds(P)
        if lo is not None and lo > t:
            return s
        if hi is not None and hi < t:
            return -s
        if lo is not None and hi is not None and lo == hi == t:
            return 0
        raise NeedSplit(self._refine(P, t, lo, hi), f'sign of {L!r}')

    def _refine(self, P: Lin, t: int, lo: Optional[int], hi: Optional[int]) -> List['Case']:
        def sub_intervals(a: Optional[int], b: Optional[int], q: int, exact: bool) -> List[Tuple[Optional[int], Optional[int]]]:
            out: List[Tuple[Optional[int], Optional[int]]] = []
            if a is None or a <= q - 1:
                out.append((a, q - 1 if b is None else min(q - 1, b)))
            if exact and (a is None or a <= q) and (b is None or q <= b):
                out.append((q, q))
            lo2 = q + 1 if exact else q
            if b is None or lo2 <= b:
                out.append((lo2 if a is None else max(lo2, a), b))
            return [(x, y) for x, y in out if x is None or y is None or x <= y]

        syms = sorted(P.coef)
        if len(syms) == 1:
            x = syms[0]
            c = int(P.coef[x])  # > 0 by normalisation
            a, b = self.interval(x)
            exact = t % c == 0
            q = t // c if exact else t // c + 1  # x < q | x = q | x > q   resp.  x <= q-1 | x >= q
            out = []
            for iv in sub_intervals(a, b, q, exact):
                cs = self.clone()
                cs.pv[x] = iv
                out.append(cs)
            return out
        # several symbols: first split the CLASS of a count symbol ({lo} | >lo), a bounded number of times per symbol
        for x in syms:
            a, b = self.interval(x)
            if x not in self.dom.ivals or a is None or (b is not None and a == b):
                continue
            if self.nsplit.get(x, 0) >= self.dom.split_budget:
                continue
            out = []
            for iv in ((a, a), (a + 1, b)):
                if iv[1] is not None and iv[0] > iv[1]:
                    continue
                cs = self.clone()
                cs.pv[x] = iv
                cs.nsplit[x] = self.nsplit.get(x, 0) + 1
                out.append(cs)
            return out
        # otherwise split on the relation itself (order class of the form w.r.t. the threshold)
        key = repr(P)
        out = []
        for iv in sub_intervals(lo, hi, t, True):
            cs = self.clone()
            cs.pv[key] = iv
            if iv[0] is not None and iv[0] == iv[1]:
                for x in sorted(syms, key=lambda y: (y in self.dom.ivals, y)):
                    if abs(int(P.coef[x])) == 1:
                        c = int(P.coef[x])
                        rest = Lin({k: v for k, v in P.coef.items() if k != x}, 0)
                        cs.subst[x] = (Lin({}, iv[0]) - rest).scale(c)  # x = (t - rest) / c, c = +-1
                        break
            out.append(cs)
        return out

    # -- printing (witness only) -------------------------------------------------------
    def describe(self) -> str:
        parts = []
        for k, v in self.choice.items():
            lab = self.dom.labels.get(k, k)
            parts.append(f'{lab} = {"NULL" if v is None else (v.name if isinstance(v, Sym) else v)}')
        for k, (a, b) in self.pv.items():
            lab = self.dom.labels.get(k, k)
            if a is not None and a == b:
                parts.append(f'{lab} = {a}')
            elif b is None:
                parts.append(f'{lab} >= {a}' if a is not None else f'{lab} unconstrained')
            elif a is None:
                parts.append(f'{lab} <= {b}')
            else:
                parts.append(f'{a} <= {lab} <= {b}')
        return '; '.join(parts)


def explore(dom: Domain, run: Callable[[Case], Any], max_cases: int = 6000) -> List[Tuple[Case, Any]]:
    """Demand-driven case enumeration: run the abstract execution; whenever it cannot decide something in the current case, split
    the case and run again from the start."""
    todo = [Case(dom)]
    out: List[Tuple[Case, Any]] = []
    n = 0
    while todo:
        c = todo.pop()
        n += 1
        if n > max_cases:
            raise AnalysisError(f'abstract execution: more than {max_cases} cases')
        try:
            out.append((c, run(c)))
        except NeedSplit as s:
            if not s.cases:
                raise AnalysisError(f'abstract execution: empty refinement ({s.why})')
            todo.extend(reversed(s.cases))
    return out


# ======================================================================================
# abstract expression evaluation (three-valued, NULL = None)
# ======================================================================================

Env = Callable[[N], Any]


def _truth(v: Any) -> Optional[bool]:
    if v is None:
        return None
    if isinstance(v, Lin):
        raise AnalysisError('truth value of a symbolic count (compare it with something)')
    if isinstance(v, str):
        try:
            return float(v) != 0
        except ValueError:
            return False
    if isinstance(v, Sym):
        raise AnalysisError(f'truth value of the opaque symbol {v}')
    return bool(v)


class AbsEval:
    def __init__(self, case: Case):
        self.case = case

    def res(self, v: Any) -> Any:
        """Resolve placeholders: enum fields through the case."""
        if isinstance(v, EnumVal):
            return self.case.enum(v.name)
        if v is UNK:
            raise Undecided('unknown value')
        return simp(v)

    def eq(self, a: Any, b: Any) -> Optional[int]:
        if a is None or b is None:
            return None
        la, lb = lin_of(a), lin_of(b)
        if la is not None and lb is not None:
            return int(self.case.sign(la - lb) == 0)
        if isinstance(a, Sym) or isinstance(b, Sym):
            if isinstance(a, Sym) and isinstance(b, Sym):
                if a.name == b.name:
                    return 1
                if frozenset((a.name, b.name)) in self.case.dom.maybe_equal:
                    raise AnalysisError(f'the symbols {a} and {b} may or may not coincide: comparison not decided')
                return 0
            raise AnalysisError(f'comparison of the opaque symbol {a if isinstance(a, Sym) else b} with {b if isinstance(a, Sym) else a!r}')
        if isinstance(a, str) and isinstance(b, str):
            return int(a.lower() == b.lower())
        raise AnalysisError(f'comparison of {a!r} with {b!r} (mixed types)')

    def cmp(self, op: str, a: Any, b: Any) -> Optional[int]:
        if op == '<=>':
            if a is None or b is None:
                return int(a is None and b is None)
            return self.eq(a, b)
        if a is None or b is None:
            return None
        if op == '=':
            return self.eq(a, b)
        if op in ('!=', '<>'):
            r = self.eq(a, b)
            return None if r is None else 1 - r
        la, lb = lin_of(a), lin_of(b)
        if la is not None and lb is not None:
            s = self.case.sign(la - lb)
            return int({'<': s < 0, '<=': s <= 0, '>': s > 0, '>=': s >= 0}[op])
        if isinstance(a, str) and isinstance(b, str):
            x, y = a.lower(), b.lower()
            return int({'<': x < y, '<=': x <= y, '>': x > y, '>=': x >= y}[op])
        raise AnalysisError(f'order comparison of {a!r} with {b!r}')

    def ev(self, e: N, env: Env) -> Any:
        k = e.kind
        if k == 'lit':
            if e.value is True:
                return 1
            if e.value is False:
                return 0
            return e.value
        if k in ('col', 'uvar', 'param', 'hole'):
            return self.res(env(e))
        if k == 'un':
            v = self.ev(e.arg, env)
            if e.op == 'NOT':
                t = _truth(v)
                return None if t is None else int(not t)
            if e.op == '-':
                if v is None:
                    return None
                lv = lin_of(v)
                if lv is None:
                    raise AnalysisError(f'unary minus of {v!r}')
                return simp(-lv)
            raise AnalysisError(f'unary {e.op}')
        if k == 'isnull':
            v = self.ev(e.arg, env)
            return int((v is None) != e.negated)
        if k == 'bin':
            op = e.op
            if op == 'AND':
                a = _truth(self.ev(e.left, env))
                if a is False:
                    return 0
                b = _truth(self.ev(e.right, env))
                if b is False:
                    return 0
                return None if (a is None or b is None) else 1
            if op == 'OR':
                a = _truth(self.ev(e.left, env))
                if a is True:
                    return 1
                b = _truth(self.ev(e.right, env))
                if b is True:
                    return 1
                return None if (a is None or b is None) else 0
            if op == ':=':
                return self.ev(e.right, env)
            a = self.ev(e.left, env)
            b = self.ev(e.right, env)
            if op in ('=', '!=', '<>', '<', '<=', '>', '>=', '<=>'):
                return self.cmp(op, a, b)
            if a is None or b is None:
                return None
            la, lb = lin_of(a), lin_of(b)
            if la is None or lb is None:
                raise AnalysisError(f'arithmetic {op} on {a!r}, {b!r}')
            if op == '+':
                return simp(la + lb)
            if op == '-':
                return simp(la - lb)
            if op == '*':
                if la.is_const():
                    return simp(lb.scale(int(la.const)))
                if lb.is_const():
                    return simp(la.scale(int(lb.const)))
            raise AnalysisError(f'operator {op} on symbolic counts')
        if k == 'in':
            if not isinstance(e.items, list):
                raise AnalysisError('IN (subquery) inside an expression')
            a = self.ev(e.arg, env)
            if a is None:
                return None
            saw_null = hit = False
            for it in e.items:
                b = self.ev(it, env)
                if b is None:
                    saw_null = True
                elif self.eq(a, b):
                    hit = True
            if hit:
                return int(not e.negated)
            return None if saw_null else int(e.negated)
        if k == 'func':
            name = e.name
            if name in ('COALESCE', 'IFNULL'):
                for a in e.args:
                    v = self.ev(a, env)
                    if v is not None:
                        return v
                return None
            if name == 'IF':
                c = _truth(self.ev(e.args[0], env))
                return self.ev(e.args[1], env) if c else self.ev(e.args[2], env)
            raise Undecided(f'function {name}')
        if k == 'cast':
            return self.ev(e.arg, env)
        if k == 'case':
            if e.arg is not None:
                base = self.ev(e.arg, env)
                for c, v in e.whens:
                    if self.cmp('=', base, self.ev(c, env)):
                        return self.ev(v, env)
            else:
                for c, v in e.whens:
                    if _truth(self.ev(c, env)):
                        return self.ev(v, env)
            return self.ev(e.default, env) if e.default is not None else None
        raise Undecided(f'expression kind {k}')


# ======================================================================================
# normal form of a selection (FROM / ON / WHERE)
# ======================================================================================


class Inst:
    """One table instance of a selection."""

    def __init__(self, alias: str, table: Optional[str], jtype: str, cols: Sequence[str], colmap: Optional[Dict[str, str]] = None, agg: Optional[N] = None):
        self.alias = alias
        self.table = table        # underlying table name (lower) or None for an aggregating derived table
        self.jtype = jtype        # FIRST | INNER | LEFT | SEMI
        self.cols = list(cols)    # visible column names
        self.colmap = colmap      # visible name -> underlying column (flattened derived table)
        self.agg = agg            # the SELECT node of an aggregating derived table
        self.on: List[N] = []     # ON conjuncts when LEFT-joined

    def under(self, col: str) -> str:
        return self.colmap.get(col, col) if self.colmap else col


Term = Tuple  # ('c', alias, column)  |  ('v', key)


class Sel:
    def __init__(self) -> None:
        self.insts: Dict[str, Inst] = {}
        self.parent: Dict[Term, Term] = {}
        self.values: Dict[Term, Any] = {}
        self.residual: List[N] = []

    def find(self, t: Term) -> Term:
        self.parent.setdefault(t, t)
        while self.parent[t] != t:
            self.parent[t] = self.parent[self.parent[t]]
            t = self.parent[t]
        return t

    def union(self, a: Term, b: Term) -> None:
        ra, rb = self.find(a), self.find(b)
        if ra != rb:
            self.parent[ra] = rb

    def classes(self) -> List[Set[Term]]:
        out: Dict[Term, Set[Term]] = {}
        for t in list(self.parent):
            out.setdefault(self.find(t), set()).add(t)
        return [c for c in out.values()]

    def class_of(self, alias: str, col: str) -> Set[Term]:
        t = ('c', alias, col)
        r = self.find(t)
        return {x for x in list(self.parent) if self.find(x) == r}

    def pinned(self, alias: str, col: str) -> List[Any]:
        return [self.values[x] for x in self.class_of(alias, col) if x[0] == 'v']


def value_key(v: Any) -> str:
    if isinstance(v, Sym):
        return 'sym:' + v.name
    if isinstance(v, Lin):
        return 'lin:' + repr(v)
    return 'lit:' + repr(v)


def _is_plain_projection(sel: N) -> bool:
    if sel.group or sel.having is not None or sel.limit is not None or sel.distinct or getattr(sel, 'union', None) or getattr(sel, 'ctes', None):
        return False
    if sel.frm is None or sel.frm.joins or sel.frm.first.kind != 'table':
        return False
    return all(c.kind == 'col' for c, _ in sel.cols)


class SelBuilder:
    """Builds the normal form; `value_of(expr)` gives the abstract value of a variable / literal expression or raises Undecided."""

    def __init__(self, schema: Dict[str, List[str]], is_var: Callable[[str], bool], value_of: Callable[[N], Any]):
        self.schema = schema
        self.is_var = is_var
        self.value_of = value_of

    def build(self, frm: N, where: Optional[N]) -> Sel:
        s = Sel()
        pending: List[Tuple[N, Optional[str]]] = []  # (conjunct, scope alias for columns of a flattened inner select)
        self._add_from(s, frm, 'FIRST', None, pending)
        for c in sf.conjuncts(where):
            pending.append((c, None))
        for c, scope in pending:
            self._conjunct(s, c, scope)
        return s

    def _add_from(self, s: Sel, ref: N, jtype: str, on: Optional[N], pending: List[Tuple[N, Optional[str]]]) -> None:
        if ref.kind == 'from':
            self._add_from(s, ref.first, jtype, None, pending)
            for j in ref.joins:
                if getattr(j, 'using', None):
                    raise AnalysisError('JOIN ... USING')
                jt = 'INNER' if j.jtype in ('INNER', 'CROSS') else j.jtype
                if jt not in ('INNER', 'LEFT'):
                    raise AnalysisError(f'{j.jtype} JOIN')
                self._add_from(s, j.ref, jt, j.on, pending)
            if on is not None:
                for c in sf.conjuncts(on):
                    pending.append((c, None))
            return
        if ref.kind == 'table':
            name = ref.name.lower().strip('`')
            alias = (ref.alias or ref.name).lower().strip('`')
            inst = Inst(alias, name, jtype, self.schema.get(name, []))
        elif ref.kind == 'derived':
            if getattr(ref, 'lateral', False):
                raise AnalysisError('LATERAL derived table')
            sub = ref.select
            alias = ref.alias.lower().strip('`')
            if _is_plain_projection(sub):
                inner = sub.frm.first
                name = inner.name.lower().strip('`')
                colmap = {}
                for c, a in sub.cols:
                    colmap[(a or c.parts[-1]).lower().strip('`')] = c.parts[-1].lower().strip('`')
                inst = Inst(alias, name, jtype, list(colmap), colmap=colmap)
                for c in sf.conjuncts(sub.where):
                    pending.append((c, alias))
            else:
                names = [(a or (c.parts[-1] if c.kind == 'col' else text(c))).lower().strip('`') for c, a in sub.cols]
                inst = Inst(alias, None, jtype, names, agg=sub)
        else:
            raise AnalysisError(f'table reference kind {ref.kind}')
        if alias in s.insts:
            raise AnalysisError(f'table alias {alias} used twice')
        s.insts[alias] = inst
        if on is not None:
            if jtype == 'LEFT':
                inst.on = sf.conjuncts(on)
            else:
                for c in sf.conjuncts(on):
                    pending.append((c, None))

    def _term(self, s: Sel, e: N, scope: Optional[str]) -> Optional[Term]:
        if e.kind == 'col':
            parts = [p.lower().strip('`') for p in e.parts]
            if len(parts) == 1:
                if self.is_var(parts[0]):
                    return self._vterm(s, e)
                if scope is not None:
                    return ('c', scope, parts[0])
                cands = [a for a, i in s.insts.items() if parts[0] in i.cols]
                if len(cands) == 1:
                    return ('c', cands[0], s.insts[cands[0]].under(parts[0]))
                unknown = [a for a, i in s.insts.items() if not i.cols]
                if unknown:
                    raise AnalysisError(f'column {parts[0]} could belong to {unknown[0]} (schema unknown)')
                raise AnalysisError(f'column {parts[0]} is ambiguous or unknown in the selection')
            q = parts[-2]
            if scope is not None:
                # inside a flattened derived table / subquery: the inner table's own name or alias denotes the instance
                return ('c', scope, parts[-1])
            if q in s.insts:
                return ('c', q, s.insts[q].under(parts[-1]))
            byname = [a for a, i in s.insts.items() if i.table == q]
            if len(byname) == 1:
                return ('c', byname[0], s.insts[byname[0]].under(parts[-1]))
            raise AnalysisError(f'unknown qualifier in {text(e)}')
        if e.kind in ('lit', 'uvar', 'param'):
            return self._vterm(s, e)
        return None

    def _vterm(self, s: Sel, e: N) -> Optional[Term]:
        try:
            v = self.value_of(e)
        except Undecided:
            return None
        if isinstance(v, EnumVal) or v is UNK:
            return None
        t = ('v', value_key(v))
        s.values[t] = v
        return t

    def _conjunct(self, s: Sel, c: N, scope: Optional[str]) -> None:
        if c.kind == 'bin' and c.op == '=':
            a, b = self._term(s, c.left, scope), self._term(s, c.right, scope)
            if a is not None and b is not None:
                s.union(a, b)
                return
        if c.kind == 'in' and not c.negated and isinstance(c.items, N) and c.items.kind == 'subq' and _is_plain_projection(c.items.select) and len(c.items.select.cols) == 1:
            sub = c.items.select
            a = self._term(s, c.arg, scope)
            if a is not None:
                inner = sub.frm.first
                name = inner.name.lower().strip('`')
                alias = f'{(inner.alias or inner.name).lower()}#in{len(s.insts)}'
                s.insts[alias] = Inst(alias, name, 'SEMI', self.schema.get(name, []))
                s.union(a, ('c', alias, sub.cols[0][0].parts[-1].lower().strip('`')))
                for c2 in sf.conjuncts(sub.where):
                    self._conjunct(s, c2, alias)
                return
        if scope is not None:
            c = _requalify(c, scope)
        s.residual.append(c)


def _requalify(e: N, alias: str) -> N:
    def repl(n: N) -> Optional[N]:
        if n.kind == 'col':
            return N('col', parts=[alias, n.parts[-1]])
        return None
    return sf.subst(e, repl)


class Pattern:
    """Canonical selection of a role: table variables and the partition of their columns / bound values.
    items: 'X.col' (column of table variable X), '$name' (a value given in `bind`), '?name' (exactly one value, captured)."""

    def __init__(self, name: str, tables: Dict[str, str], classes: Sequence[Sequence[str]]):
        self.name = name
        self.tables = tables
        self.classes = [list(c) for c in classes]


class Match:
    def __init__(self, pattern: Pattern, alias: Dict[str, str], captured: Dict[str, Any], residual: List[N]):
        self.pattern = pattern
        self.alias = alias
        self.captured = captured
        self.residual = residual


def match(sel: Sel, pat: Pattern, bind: Dict[str, Any], ignore: Callable[[Inst], bool]) -> Tuple[Optional[Match], Optional[str]]:
    """(Match, None) when the selection has exactly the pattern's normal form; (None, None) when the tables differ (pattern not
    applicable); (None, description) when the tables agree but the partition differs (a different row set)."""
    insts = {a: i for a, i in sel.insts.items() if not ignore(i)}
    want = sorted(pat.tables.values())
    have = sorted(i.table or '?' for i in insts.values())
    if want != have:
        return None, None
    if len(set(want)) != len(want):
        raise AnalysisError(f'pattern {pat.name}: a table occurs twice')
    alias = {v: [a for a, i in insts.items() if i.table == t][0] for v, t in pat.tables.items()}
    for v, a in alias.items():
        if insts[a].jtype == 'LEFT':
            return None, f'{insts[a].table} is only LEFT-joined: rows without a matching {insts[a].table} row are selected as well'

    def term(item: str) -> Term:
        v, col = item.split('.')
        return ('c', alias[v], col)
    captured: Dict[str, Any] = {}
    diffs: List[str] = []
    covered: Set[Term] = set()
    roots: Dict[Term, int] = {}
    for ci, cl in enumerate(pat.classes):
        cols = [term(i) for i in cl if not i.startswith(('$', '?'))]
        full = sel.class_of(cols[0][1], cols[0][2])
        r = sel.find(cols[0])
        if r in roots:
            diffs.append(f'{_show(cl)} is additionally equated with {_show(pat.classes[roots[r]])}')
        roots[r] = ci
        for t in cols[1:]:
            if t not in full:
                diffs.append(f'{_tshow(t, sel)} is not equated with {_tshow(cols[0], sel)}')
        vals = [sel.values[x] for x in full if x[0] == 'v']
        wantv = [i for i in cl if i.startswith(('$', '?'))]
        if not wantv:
            if vals:
                diffs.append(f'{_tshow(cols[0], sel)} is additionally pinned to {vals[0]!r}')
        else:
            w = wantv[0]
            if len(vals) != 1:
                diffs.append(f'{_tshow(cols[0], sel)} is not pinned to {"the expected value" if not vals else "one value"} ({w[1:]})')
            elif w.startswith('$'):
                if value_key(vals[0]) != value_key(bind[w[1:]]):
                    diffs.append(f'{_tshow(cols[0], sel)} is pinned to {vals[0]!r}, expected {bind[w[1:]]!r}')
            else:
                captured[w[1:]] = vals[0]
        for x in full:
            if x[0] == 'c' and x not in cols and x[1] in insts:
                diffs.append(f'{_tshow(x, sel)} is additionally equated with {_tshow(cols[0], sel)}')
        covered |= full
    for cl in sel.classes():
        if cl & covered:
            continue
        mine = [x for x in cl if x[0] == 'c' and x[1] in insts]
        if len(cl) >= 2 and mine:
            diffs.append('additional condition ' + ' = '.join(sorted(_tshow(x, sel) for x in cl)))
    if diffs:
        return None, '; '.join(diffs)
    return Match(pat, alias, captured, list(sel.residual)), None


def _show(cl: Sequence[str]) -> str:
    return ' = '.join(cl)


def _tshow(t: Term, sel: Sel) -> str:
    if t[0] == 'c':
        i = sel.insts.get(t[1])
        return f'{(i.table if i is not None and i.table else t[1])}.{t[2]}'
    return repr(sel.values.get(t))


# ======================================================================================
# abstract execution of routines over role rows
# ======================================================================================

RoleKey = Tuple[str, str]  # (table, tag)


class Scenario:
    """What is tracked in one analysis: the symbolic pre-state of the role rows, how key look-ups map to roles, the canonical
    multi-table selections, and hooks for aggregating reads."""

    def __init__(self, dom: Domain, schema: Dict[str, List[str]]):
        self.dom = dom
        self.schema = schema
        self.rows: Dict[RoleKey, Dict[str, Any]] = {}
        self.keycols: Dict[str, Tuple[str, ...]] = {}
        self.keymap: Dict[Tuple[str, Tuple[str, ...]], str] = {}
        self.bind: Dict[str, Any] = {}
        self.update_patterns: Dict[str, List[Tuple[Pattern, Callable[['AbsExec', Match, N], List[Tuple[RoleKey, Dict[str, Dict[str, Any]]]]]]]] = {}
        self.select_hooks: List[Callable[['AbsExec', N, 'Frame'], Optional[List[Any]]]] = []
        self.update_hooks: List[Callable[['AbsExec', N, 'Frame'], bool]] = []
        self.cursor_hook: Optional[Callable[['AbsExec', N, 'Frame'], Optional[Dict[str, Any]]]] = None

    @property
    def tracked(self) -> Set[str]:
        return {t for t, _ in self.rows} | set(self.keycols)

    def add_row(self, table: str, tag: str, fields: Dict[str, Any], key: Optional[Sequence[Any]] = None) -> None:
        self.rows[(table, tag)] = dict(fields)
        if key is not None:
            self.keymap[(table, tuple(value_key(v) for v in key))] = tag


class Frame:
    def __init__(self, routine: str):
        self.routine = routine
        self.vars: Dict[str, Any] = {}
        self.cursors: Dict[str, Dict[str, Any]] = {}
        self.handlers: List[N] = []


class _Leave(Exception):
    def __init__(self, label: str):
        self.label = label.lower()


class _Abort(Exception):
    pass


_STATIC: Dict[Tuple, Any] = {}


class AbsExec:
    def __init__(self, prog: sf.SqlProgram, scn: Scenario, case: Case, max_call_depth: int = 3):
        self.prog = prog
        self.scn = scn
        self.case = case
        self.E = AbsEval(case)
        self.rows: Dict[RoleKey, Dict[str, Any]] = {k: dict(v) for k, v in scn.rows.items()}
        self.snapshot = {k: dict(v) for k, v in self.rows.items()}
        self.uvars: Dict[str, Any] = {}
        self.events: List[Tuple[str, Any]] = []
        self.writes: List[Tuple[str, N, RoleKey]] = []
        # ordered log of what this abstract path did to the transaction and to the tracked rows:
        # ('write', routine, statement, role key) | ('txn', routine, statement)  -- statement order with CALLed routines inlined
        self.trace: List[Tuple[Any, ...]] = []
        self.track_txn = False  # when set, a guard that cannot be decided and whose branches contain transaction statements is an analysis error (instead of being skipped)
        self.max_call_depth = max_call_depth
        self.tolerate: Set[str] = set()  # tables whose mis-selected writes are recorded as events and skipped (they are another rule's business)
        self._tk = tuple(sorted(scn.tracked))

    # -- values ------------------------------------------------------------------------
    def var_env(self, frame: Frame, rowenv: Optional[Dict[str, Tuple[Optional[str], Optional[Dict[str, Any]], Sequence[str]]]] = None) -> Env:
        """rowenv: alias -> (table, fields | None (= unknown row), visible columns)."""
        def env(n: N) -> Any:
            if n.kind == 'uvar':
                return self.uvars.get(n.name.lower(), None)
            if n.kind != 'col':
                raise Undecided(text(n))
            parts = [p.lower().strip('`') for p in n.parts]
            if len(parts) == 1:
                if parts[0] in frame.vars:
                    return frame.vars[parts[0]]
                if rowenv:
                    cands = [a for a, (_, _, cols) in rowenv.items() if parts[0] in cols]
                    if len(cands) == 1:
                        return self._field(rowenv[cands[0]], parts[0])
                    if len(cands) > 1:
                        raise AnalysisError(f'ambiguous column {parts[0]}')
                    if any(not cols for _, _, cols in rowenv.values()):
                        raise Undecided(parts[0])
                raise AnalysisError(f'identifier `{parts[0]}` is neither a variable nor a column in scope ({frame.routine})')
            q = parts[-2]
            if rowenv:
                if q in rowenv:
                    return self._field(rowenv[q], parts[-1])
                byname = [a for a, (t, _, _) in rowenv.items() if t == q]
                if len(byname) == 1:
                    return self._field(rowenv[byname[0]], parts[-1])
            raise AnalysisError(f'unknown qualifier in `{text(n)}` ({frame.routine})')
        return env

    @staticmethod
    def _field(ent: Tuple[Optional[str], Optional[Dict[str, Any]], Sequence[str]], col: str) -> Any:
        _, fields, _ = ent
        if fields is None or col not in fields:
            raise Undecided(col)
        return fields[col]

    def value(self, e: N, frame: Frame, rowenv=None) -> Any:
        return self.E.ev(e, self.var_env(frame, rowenv))

    def value_or_unk(self, e: N, frame: Frame, rowenv=None) -> Any:
        try:
            return self.value(e, frame, rowenv)
        except Undecided:
            return UNK

    # -- selections --------------------------------------------------------------------
    def build_sel(self, frm: N, where: Optional[N], frame: Frame) -> Sel:
        def value_of(e: N) -> Any:
            if e.kind == 'col':
                v = frame.vars[e.parts[0].lower()]
            elif e.kind == 'uvar':
                v = self.uvars.get(e.name.lower())
            elif e.kind == 'lit':
                v = e.value
            else:
                raise Undecided(text(e))
            if v is UNK:
                raise Undecided(text(e))
            if isinstance(v, EnumVal):
                v = self.case.enum(v.name)
            return simp(v)
        return SelBuilder(self.scn.schema, lambda n: n in frame.vars, value_of).build(frm, where)

    def _ignorable(self, i: Inst) -> bool:
        return i.table is not None and i.table not in self.scn.tracked and i.jtype == 'LEFT'

    def key_lookup(self, sel: Sel, alias: str) -> Tuple[Optional[str], Optional[str]]:
        """(tag | None, problem | None) for a single-table selection: which tracked row do the pinned key columns denote?"""
        inst = sel.insts[alias]
        kc = self.scn.keycols.get(inst.table or '')
        if kc is None:
            raise AnalysisError(f'no key declared for tracked table {inst.table}')
        vals = []
        for c in kc:
            p = sel.pinned(alias, c)
            if len(p) != 1:
                return None, f'key column {inst.table}.{c} is {"not pinned" if not p else "pinned to several values"}: the statement ranges over every row with the remaining conditions'
            vals.append(value_key(p[0]))
        return self.scn.keymap.get((inst.table or '', tuple(vals))), None

    def row_filter(self, sel: Sel, alias: str, residual: Sequence[N], frame: Frame, rowenv) -> Optional[bool]:
        """Do the remaining conditions (non-key pins on the target, residual conjuncts) hold for the role row?"""
        inst = sel.insts[alias]
        kc = set(self.scn.keycols.get(inst.table or '', ()))
        ent = rowenv[alias]
        for cl in sel.classes():
            cols = [x for x in cl if x[0] == 'c' and x[1] == alias and x[2] not in kc]
            vals = [sel.values[x] for x in cl if x[0] == 'v']
            others = [x for x in cl if x[0] == 'c' and x[1] != alias and x[1] in rowenv]
            if cols and vals and not others:
                for x in cols:
                    r = self.E.eq(self.E.res(self._field(ent, x[2])), vals[0])
                    if not r:
                        return False
        for c in residual:
            r = _truth(self.value(c, frame, rowenv))
            if not r:
                return False
        return True

    # -- statements --------------------------------------------------------------------
    def _written_tracked(self, st: N) -> List[str]:
        key = ('w', id(st), self._tk)
        r = _STATIC.get(key)
        if r is None:
            r = [t.lower().strip('`') for t, _ in sf.written_tables(st) if t.lower().strip('`') in self.scn.tracked]
            _STATIC[key] = r
        return r

    def _mentions_tracked(self, node: N) -> bool:
        key = ('m', id(node), self._tk)
        r = _STATIC.get(key)
        if r is None:
            r = any(x.kind == 'table' and x.name.lower().strip('`') in self.scn.tracked for x in node.walk())
            _STATIC[key] = r
        return r

    def _effectful(self, stmts: Sequence[N], depth: int = 0) -> bool:
        key = ('e', id(stmts), self._tk, depth)
        r = _STATIC.get(key)
        if r is None:
            r = False
            for st in sf.all_statements(stmts):
                k = st.kind
                if k in ('update', 'insert', 'delete') and self._written_tracked(st):
                    r = True
                elif k == 'signal' or (k == 'txn' and st.what == 'ROLLBACK'):
                    r = True
                elif k == 'call':
                    cal = self.prog.routines.get(st.name)
                    if cal is None or (depth < self.max_call_depth and self._effectful(cal.ast.body, depth + 1)):
                        r = True
                if r:
                    break
            _STATIC[key] = r
        return r

    def _has_txn(self, stmts: Sequence[N], depth: int = 0) -> bool:
        """Does the block (CALLed routines included) contain a transaction statement?"""
        for st in sf.all_statements(stmts):
            if st.kind == 'txn':
                return True
            if st.kind == 'call':
                cal = self.prog.routines.get(st.name)
                if cal is not None and depth <= self.max_call_depth and self._has_txn(cal.ast.body, depth + 1):
                    return True
        return False

    def _relevant(self, stmts: Sequence[N]) -> bool:
        return self._effectful(stmts) or any(st.kind in ('leave', 'iterate', 'return') or (self.track_txn and st.kind == 'txn') for st in sf.all_statements(stmts))

    def _assign(self, target: N, val: Any, frame: Frame) -> None:
        if target.kind == 'uvar':
            self.uvars[target.name.lower()] = val
        elif target.kind == 'col' and len(target.parts) == 1:
            frame.vars[target.parts[0].lower()] = val
        else:
            raise AnalysisError(f'assignment target {text(target)}')

    def _havoc(self, stmts: Sequence[N], frame: Frame) -> None:
        for st in sf.all_statements(stmts):
            if st.kind == 'set':
                for t, _ in st.assigns:
                    self._assign(t, UNK, frame)
            elif st.kind in ('select', 'fetch') and getattr(st, 'into', None):
                for t in st.into:
                    self._assign(t, UNK, frame)
            elif st.kind == 'call':
                r = self.prog.routines.get(st.name)
                for i, a in enumerate(st.args):
                    mode = r.ast.params[i][0] if r is not None and i < len(r.ast.params) else 'INOUT'
                    if mode != 'IN' and a.kind in ('col', 'uvar'):
                        self._assign(a, UNK, frame)

    def exec_block(self, stmts: Sequence[N], frame: Frame, depth: int) -> None:
        for st in stmts:
            self.exec_stmt(st, frame, depth)

    def exec_stmt(self, st: N, frame: Frame, depth: int) -> None:
        k = st.kind
        if k == 'declare':
            for n in st.names:
                frame.vars[n.lower()] = self.value_or_unk(st.default, frame) if st.default is not None else None
        elif k == 'declare_cursor':
            frame.cursors[st.name.lower()] = {'select': st.select, 'info': None}
        elif k == 'declare_handler':
            frame.handlers.append(st)
        elif k == 'set':
            for t, v in st.assigns:
                self._assign(t, self.value_or_unk(v, frame), frame)
        elif k == 'select':
            self._exec_select(st, frame)
        elif k == 'update':
            if self._written_tracked(st):
                try:
                    self._exec_update(st, frame)
                except Mismatch as mm:
                    if mm.table not in self.tolerate:
                        raise
                    self.events.append(('mismatch', mm))
        elif k in ('insert', 'delete'):
            if self._written_tracked(st):
                raise AnalysisError(f'{frame.routine}: {k.upper()} on tracked table in `{text(st)[:80]}` is outside the abstraction')
        elif k == 'if':
            self._exec_if(st, frame, depth)
        elif k == 'block':
            try:
                self.exec_block(st.body, frame, depth)
            except _Leave as l:
                # LEAVE of this block's own label ends the block (the guard-clause spelling of IF .. ELSE <rest> END IF)
                if not getattr(st, 'label', None) or l.label != st.label.lower():
                    raise
        elif k in ('loop', 'while'):
            self._exec_loop(st, frame, depth)
        elif k == 'leave':
            raise _Leave(st.label)
        elif k == 'iterate':
            raise AnalysisError(f'{frame.routine}: ITERATE is outside the abstraction')
        elif k == 'open':
            c = frame.cursors.get(st.name.lower())
            if c is None:
                raise AnalysisError(f'OPEN of undeclared cursor {st.name}')
            c['info'] = self.scn.cursor_hook(self, c['select'], frame) if (self.scn.cursor_hook is not None and self._mentions_tracked(c['select'])) else None
        elif k == 'fetch':
            raise AnalysisError(f'{frame.routine}: FETCH outside the canonical cursor loop')
        elif k == 'close':
            pass
        elif k == 'call':
            self._exec_call(st, frame, depth)
        elif k == 'txn':
            self.trace.append(('txn', frame.routine, st))
            if st.what == 'ROLLBACK':
                self.rows = {k2: dict(v) for k2, v in self.snapshot.items()}
            else:
                self.snapshot = {k2: dict(v) for k2, v in self.rows.items()}
        elif k == 'signal':
            self.rows = {k2: dict(v) for k2, v in self.snapshot.items()}
            raise _Abort()
        elif k == 'other':
            pass
        else:
            raise AnalysisError(f'{frame.routine}: statement kind {k} is outside the abstraction')

    # SELECT ... INTO
    def _exec_select(self, st: N, frame: Frame) -> None:
        if not st.into:
            return
        if st.frm is None:
            for t, (c, _) in zip(st.into, st.cols):
                self._assign(t, self.value_or_unk(c, frame), frame)
            return
        if not self._mentions_tracked(st):
            for t in st.into:
                self._assign(t, UNK, frame)
            return
        for h in self.scn.select_hooks:
            vals = h(self, st, frame)
            if vals is not None:
                if len(vals) != len(st.into):
                    raise AnalysisError('SELECT .. INTO arity')
                for t, v in zip(st.into, vals):
                    self._assign(t, v, frame)
                return
        sel = self.build_sel(st.frm, st.where, frame)
        insts = {a: i for a, i in sel.insts.items() if not self._ignorable(i)}
        if len(insts) != 1 or list(insts.values())[0].table not in self.scn.tracked or st.group or any(_has_agg(c) for c, _ in st.cols):
            raise AnalysisError(f'{frame.routine}: read `{text(st)[:90]}` of a tracked table has a shape the abstraction does not classify')
        alias = list(insts)[0]
        tag, prob = self.key_lookup(sel, alias)
        if prob is not None:
            raise AnalysisError(f'{frame.routine}: `{text(st)[:80]}`: {prob}')
        if tag is None:
            for t in st.into:
                self._assign(t, UNK, frame)
            return
        inst = sel.insts[alias]
        rowenv = {alias: (inst.table, self.rows[(inst.table, tag)], inst.cols)}
        try:
            ok = self.row_filter(sel, alias, sel.residual, frame, rowenv)
        except Undecided:
            for t in st.into:
                self._assign(t, UNK, frame)
            return
        if not ok:
            return  # no row: variables keep their values
        for t, (c, _) in zip(st.into, st.cols):
            try:
                v = self.var_env(frame, rowenv)(c) if c.kind == 'col' else self.value(c, frame, rowenv)
            except Undecided:
                v = UNK
            self._assign(t, v, frame)

    # UPDATE
    def _exec_update(self, st: N, frame: Frame) -> None:
        if st.limit is not None or getattr(st, 'clause_holes', None):
            raise AnalysisError('UPDATE with LIMIT on a tracked table')
        for h in self.scn.update_hooks:
            if h(self, st, frame):
                return
        written = self._written_tracked(st)
        if len(written) != 1:
            raise AnalysisError(f'{frame.routine}: `{text(st)[:80]}` writes several tracked tables')
        table = written[0]
        sel = self.build_sel(st.frm, st.where, frame)
        for i in sel.insts.values():
            if i.table is not None and i.table not in self.scn.tracked and i.jtype != 'LEFT':
                raise AnalysisError(f'{frame.routine}: `{text(st)[:80]}` restricts the rows through the untracked table {i.table}')
        insts = {a: i for a, i in sel.insts.items() if not self._ignorable(i)}
        targets: List[Tuple[RoleKey, Dict[str, Any], str]] = []
        if len(insts) == 1:
            alias = list(insts)[0]
            if insts[alias].table != table:
                raise AnalysisError(f'{frame.routine}: `{text(st)[:80]}`: target not recognised')
            tag, prob = self.key_lookup(sel, alias)
            if prob is not None:
                raise Mismatch(table, st, prob)
            if tag is None:
                raise Mismatch(table, st, f'the statement writes a row of {table} other than the ones this operation is about (key {[sel.pinned(alias, c) for c in self.scn.keycols[table]]})')
            inst = insts[alias]
            targets.append(((table, tag), {alias: (inst.table, None, inst.cols)}, alias))
            residual = list(sel.residual)
        else:
            found = None
            for pat, handler in self.scn.update_patterns.get(table, []):
                m, diff = match(sel, pat, self.scn.bind, self._ignorable)
                if m is not None:
                    found = (m, handler)
                    break
                if diff is not None:
                    raise Mismatch(table, st, f'rows are selected by a condition that differs from `{pat.name}`: {diff}')
            if found is None:
                raise AnalysisError(f'{frame.routine}: selection of `{text(st)[:90]}` is not one the abstraction recognises')
            m, handler = found
            for rk, extra in handler(self, m, st):
                talias = [a for v, a in m.alias.items() if sel.insts[a].table == table][0]
                targets.append((rk, extra, talias))
            residual = m.residual
        for rk, extra, talias in targets:
            row = self.rows[rk]
            rowenv = dict(extra)
            inst = sel.insts[talias]
            rowenv[talias] = (inst.table, row, inst.cols)
            for a, i in sel.insts.items():
                if a not in rowenv:
                    rowenv[a] = (i.table, None, i.cols)
            try:
                ok = self.row_filter(sel, talias, residual, frame, rowenv)
            except Undecided as u:
                raise AnalysisError(f'{frame.routine}: whether `{text(st)[:70]}` applies to a row depends on {u}') from u
            if not ok:
                continue
            for c, v in st.sets:
                if c.kind != 'col':
                    raise AnalysisError(f'UPDATE target {text(c)}')
                parts = [p.lower().strip('`') for p in c.parts]
                if len(parts) > 1:
                    ta = parts[-2] if parts[-2] in sel.insts else ([a for a, i in sel.insts.items() if i.table == parts[-2]] or [None])[0]
                else:
                    cands = [a for a, i in sel.insts.items() if parts[-1] in i.cols]
                    ta = cands[0] if len(cands) == 1 else (talias if len(insts) == 1 else None)
                if ta is None:
                    raise AnalysisError(f'cannot resolve UPDATE target {text(c)}')
                if ta != talias:
                    if sel.insts[ta].table in self.scn.tracked:
                        raise AnalysisError(f'{frame.routine}: `{text(st)[:70]}` also writes {sel.insts[ta].table}')
                    continue
                row[parts[-1]] = self.value_or_unk(v, frame, rowenv)
            self.record_write(frame.routine, st, rk)

    def record_write(self, routine: str, st: N, rk: RoleKey) -> None:
        self.writes.append((routine, st, rk))
        self.trace.append(('write', routine, st, rk))

    def _exec_if(self, st: N, frame: Frame, depth: int) -> None:
        for i, (c, body) in enumerate(st.branches):
            try:
                v = _truth(self.value(c, frame))
            except Undecided as u:
                rest = [b for _, b in st.branches[i:]] + ([st.orelse] if st.orelse is not None else [])
                if any(self._relevant(b) for b in rest):
                    raise AnalysisError(f'{frame.routine}: the guard `{text(c)[:80]}` decides whether tracked rows are written, but depends on {u}') from u
                for b in rest:
                    self._havoc(b, frame)
                return
            if v:
                self.exec_block(body, frame, depth)
                return
        if st.orelse is not None:
            self.exec_block(st.orelse, frame, depth)

    def _exec_loop(self, st: N, frame: Frame, depth: int) -> None:
        """A loop that writes tracked rows must be the canonical cursor walk: FETCH first, leave exactly when the NOT FOUND handler has
        fired, no state carried from one iteration to the next.  Its body is then executed ONCE for a generic element of the cursor."""
        if not self._effectful(st.body):
            if self.track_txn and self._has_txn(st.body):
                raise AnalysisError(f'{frame.routine}: a loop that writes no tracked row contains transaction statements (how often it commits is outside the abstraction)')
            self._havoc(st.body, frame)
            return
        label = (getattr(st, 'label', None) or '').lower()
        if st.kind != 'loop' or not st.body or st.body[0].kind != 'fetch':
            raise AnalysisError(f'{frame.routine}: a loop that writes tracked rows is not the canonical `LOOP FETCH ..` cursor walk')
        fetch = st.body[0]
        cur = frame.cursors.get(fetch.name.lower())
        if cur is None or cur.get('info') is None:
            raise AnalysisError(f'{frame.routine}: cursor {fetch.name} is not opened over a recognised selection')
        hs = [h for h in frame.handlers if ' '.join(h.condition.split()) == 'NOT FOUND']
        if len(hs) != 1 or hs[0].action != 'CONTINUE' or hs[0].stmt.kind != 'set' or len(hs[0].stmt.assigns) != 1:
            raise AnalysisError(f'{frame.routine}: expected exactly one `DECLARE CONTINUE HANDLER FOR NOT FOUND SET flag = ..`')
        flag_t, flag_v = hs[0].stmt.assigns[0]
        flag = flag_t.parts[0].lower() if flag_t.kind == 'col' else None
        exit_ok = (len(st.body) >= 2 and st.body[1].kind == 'if' and len(st.body[1].branches) == 1 and st.body[1].orelse is None
                   and text(st.body[1].branches[0][0]).lower() in (flag, f'({flag} = true)', f'({flag} = 1)', f'({flag} <=> true)')
                   and len(st.body[1].branches[0][1]) == 1 and st.body[1].branches[0][1][0].kind == 'leave' and st.body[1].branches[0][1][0].label.lower() == label)
        if flag is None or not exit_ok or frame.vars.get(flag, UNK) not in (0, False):
            raise AnalysisError(f'{frame.routine}: the cursor loop does not start with `FETCH ..; IF {flag} THEN LEAVE {label}; END IF` on a flag that is initially false')
        # no loop-carried state: every variable read in the body is (re)assigned earlier in the same iteration, or never assigned in the loop
        assigned: List[str] = []
        for s2 in sf.all_statements(st.body):
            if s2.kind == 'set':
                assigned += [t.parts[0].lower() for t, _ in s2.assigns if t.kind == 'col']
            elif s2.kind in ('select', 'fetch') and getattr(s2, 'into', None):
                assigned += [t.parts[0].lower() for t in s2.into if t.kind == 'col']
        defined: Set[str] = set()
        for s2 in st.body:
            reads = {x.parts[0].lower() for x in s2.walk() if x.kind == 'col' and len(x.parts) == 1 and x.parts[0].lower() in frame.vars} if s2.kind not in ('fetch',) else set()
            if s2.kind in ('select', 'fetch') and getattr(s2, 'into', None):
                reads -= {t.parts[0].lower() for t in s2.into if t.kind == 'col'}
            carried = [v for v in reads if v in assigned and v not in defined and v != flag]
            if carried:
                raise AnalysisError(f'{frame.routine}: the cursor loop carries {carried} from one iteration to the next')
            if s2.kind in ('select', 'fetch') and getattr(s2, 'into', None):
                defined |= {t.parts[0].lower() for t in s2.into if t.kind == 'col'}
            elif s2.kind == 'set':
                defined |= {t.parts[0].lower() for t, _ in s2.assigns if t.kind == 'col'}
        info = cur['info']
        if len(fetch.into) != len(info['values']):
            raise AnalysisError('FETCH arity')
        for t, v in zip(fetch.into, info['values']):
            self._assign(t, v, frame)
        self.events.append(('loop', info))
        try:
            self.exec_block(st.body[2:], frame, depth)
        except _Leave as l:
            if l.label != label:
                raise
            self.events.append(('early_leave', info))
        self._havoc(st.body, frame)
        frame.vars[flag] = self.value_or_unk(flag_v, frame)

    def _exec_call(self, st: N, frame: Frame, depth: int) -> None:
        r = self.prog.routines.get(st.name)
        if r is None:
            raise AnalysisError(f'{frame.routine}: CALL of unknown routine {st.name}')
        a = r.ast
        txn_inside = self.track_txn and self._has_txn(a.body, depth + 1)
        if depth >= self.max_call_depth and txn_inside:
            raise AnalysisError(f'{frame.routine}: CALL {st.name} issues transaction statements beyond the call depth the abstraction inlines')
        if depth >= self.max_call_depth or not (self._effectful(a.body) or txn_inside):
            self._havoc([st], frame)
            return
        if len(a.params) != len(st.args):
            raise AnalysisError(f'CALL {st.name}: arity')
        sub = Frame(r.name)
        for (mode, pname, _), arg in zip(a.params, st.args):
            sub.vars[pname.lower()] = self.value_or_unk(arg, frame) if mode != 'OUT' else None
        try:
            self.exec_block(a.body, sub, depth + 1)
        except _Leave as l:
            # every labelled block / loop inside the body has had its chance: the label is that of the routine's outermost BEGIN .. END
            # (the parser keeps only its statements), so the LEAVE ends the routine - provided the body has such a label at all
            if not _body_label(r, l.label):
                raise AnalysisError(f'{r.name}: LEAVE {l.label} escapes the routine body')
        for (mode, pname, _), arg in zip(a.params, st.args):
            if mode != 'IN' and arg.kind in ('col', 'uvar'):
                self._assign(arg, sub.vars.get(pname.lower(), UNK), frame)

    def call(self, name: str, args: Dict[str, Any]) -> str:
        r = self.prog.routine(name)
        fr = Frame(r.name)
        for _, pname, _ in r.ast.params:
            fr.vars[pname.lower()] = args.get(pname.lower(), UNK)
        try:
            self.exec_block(r.ast.body, fr, 0)
        except _Abort:
            return 'aborted'
        except _Leave as l:
            if not _body_label(r, l.label):
                raise AnalysisError(f'{name}: LEAVE {l.label} escapes the routine body')
        return 'done'


def _body_label(r: sf.Routine, label: str) -> bool:
    """Is `label` the label of the routine's outermost block (`CREATE PROCEDURE p(..) label: BEGIN .. END`)?  Decided on the token stream of the
    routine text: `label :` immediately followed by BEGIN, before any other BEGIN."""
    from .sqlast import tokenize
    try:
        toks = tokenize(r.sql)
    except Exception:
        return False
    for i, t in enumerate(toks):
        if t.kind == 'ident' and getattr(t, 'up', t.text.upper()) == 'BEGIN':
            return i >= 2 and toks[i - 1].text == ':' and toks[i - 2].kind == 'ident' and toks[i - 2].text.lower() == label.lower()
    return False


def _has_agg(e: N) -> bool:
    ha = e.__dict__.get('_jg_has_agg')
    if ha is None:
        ha = any(x.kind == 'func' and x.name in ('SUM', 'COUNT', 'MAX', 'MIN', 'AVG') and not getattr(x, 'over', None) for x in e.walk())
        e.__dict__['_jg_has_agg'] = ha
    return ha


def routine_params(prog: sf.SqlProgram, name: str) -> List[str]:
    return [p[1].lower() for p in prog.routine(name).ast.params]


_schema_cache: Dict[int, Dict[str, List[str]]] = {}


def full_schema(prog: sf.SqlProgram) -> Dict[str, List[str]]:
    """Column names per table after migration replay.  sqlfront's own table map does not follow `RENAME TABLE a TO b, c TO d, ...`
    (several pairs in one statement, as in 112-rename-job-groups-tables.sql); the DDL is replayed here with that form included."""
    import re
    from .common import read_repo
    if id(prog) in _schema_cache:
        return _schema_cache[id(prog)]
    tables: Dict[str, List[str]] = {}
    for sname in prog.scripts:
        if not sname.endswith('.sql'):
            continue
        src = read_repo(f'batch/sql/{sname}')
        for stmt in sf.split_sql_script(src):
            body = sf._strip_leading_comments(stmt)
            m = re.match(r'\s*CREATE\s+TABLE\s+(?:IF\s+NOT\s+EXISTS\s+)?`?([A-Za-z_0-9]+)`?', body, re.I)
            if m:
                tables[m.group(1).lower()] = [c.lower() for c in sf._table_columns(body)]
                continue
            m = re.match(r'\s*DROP\s+TABLE\s+(?:IF\s+EXISTS\s+)?`?([A-Za-z_0-9]+)`?', body, re.I)
            if m:
                tables.pop(m.group(1).lower(), None)
                continue
            m = re.match(r'\s*RENAME\s+TABLE\s+(.*)$', body, re.I | re.S)
            if m:
                for a, b in re.findall(r'`?([A-Za-z_0-9]+)`?\s+TO\s+`?([A-Za-z_0-9]+)`?', m.group(1), re.I):
                    if a.lower() in tables:
                        tables[b.lower()] = tables.pop(a.lower())
                continue
            m = re.match(r'\s*ALTER\s+TABLE\s+`?([A-Za-z_0-9]+)`?', body, re.I)
            if m and m.group(1).lower() in tables:
                t = m.group(1).lower()
                m2 = re.search(r'\bRENAME\s+(?!INDEX\b|KEY\b|COLUMN\b)(?:TO\s+|AS\s+)?`?([A-Za-z_0-9]+)`?\s*(?:,|;|$)', body, re.I)
                for mm in re.finditer(r'ADD\s+(?:COLUMN\s+)`?([A-Za-z_0-9]+)`?', body, re.I):
                    if mm.group(1).lower() not in tables[t]:
                        tables[t].append(mm.group(1).lower())
                for mm in re.finditer(r'DROP\s+COLUMN\s+`?([A-Za-z_0-9]+)`?', body, re.I):
                    if mm.group(1).lower() in tables[t]:
                        tables[t].remove(mm.group(1).lower())
                if m2:
                    tables[m2.group(1).lower()] = tables.pop(t)
    for t, cs in prog.tables.items():
        tables.setdefault(t.lower(), [c.lower() for c in cs])
    _schema_cache[id(prog)] = tables
    return tables


def need_no_trigger_feedback(prog: sf.SqlProgram, tables: Iterable[str]) -> None:
    """Triggers are not part of the abstraction: decline if a trigger on a tracked table itself writes a tracked table."""
    ts = {t.lower() for t in tables}
    for r in prog.routines.values():
        if r.kind != 'trigger':
            continue
        a = r.ast
        if a.table.lower() not in ts:
            continue
        for st in sf.all_statements(a.body):
            for t, _ in sf.written_tables(st):
                if t.lower() in ts:
                    raise AnalysisError(f'trigger {r.name} on {a.table} writes {t}: the abstraction of the routine effects does not cover trigger feedback')
            if st.kind == 'set':
                for tg, _ in st.assigns:
                    if tg.kind == 'col' and len(tg.parts) == 2 and tg.parts[0].upper() == 'NEW':
                        raise AnalysisError(f'trigger {r.name} rewrites NEW.{tg.parts[1]} of {a.table}: outside the abstraction')
            if st.kind == 'call':
                cal = prog.routines.get(st.name)
                if cal is None or any(t.lower() in ts for s2 in sf.all_statements(cal.ast.body) for t, _ in sf.written_tables(s2)):
                    raise AnalysisError(f'trigger {r.name} calls {st.name}, which may write tracked tables')


def statement_texts(ex: AbsExec, table: str) -> List[str]:
    out: List[str] = []
    for _, st, rk in ex.writes:
        if rk[0] == table:
            s = text(st)[:70]
            if s not in out:
                out.append(s)
    return out


# ======================================================================================
# the two routines of the job graph: scenarios
# ======================================================================================

STATES = ['Pending', 'Ready', 'Creating', 'Running', 'Success', 'Failed', 'Error', 'Cancelled']
TERMINAL = ['Success', 'Failed', 'Error', 'Cancelled']
NONTERMINAL = ['Pending', 'Ready', 'Creating', 'Running']
TALLY = 'job_groups_n_jobs_in_complete_states'
CLOSURE = 'job_group_self_and_ancestors'
CATS = ('n_completed', 'n_succeeded', 'n_failed', 'n_cancelled')
ANC_TAGS = ('own', 'anc', 'root')


def _order_class(sel: N) -> str:
    if not sel.order:
        return 'unspecified'
    e, d = sel.order[0]
    if e.kind != 'col':
        return 'unspecified'
    col, desc = e.parts[-1].lower(), (d or 'ASC').upper() == 'DESC'
    if col == 'ancestor_id':   # a parent group always has a smaller id than its children (asserted at creation)
        return 'leaf-first' if desc else 'root-first'
    if col == 'level':
        return 'root-first' if desc else 'leaf-first'
    return 'unspecified'


def mark_job_complete_scenario(prog: sf.SqlProgram, groups: bool = True) -> Tuple[Scenario, Dict[str, Any]]:
    """Roles: the finishing job (B, J) in group G; one dependent CH of it; the tally / job_groups rows of G itself, of a generic
    self-or-ancestor K of G and of the root group 0; the batch row.  Count symbols: n (pending parents of the dependent, >= 1),
    for every tally row its four counters, for every group row its gap = n_jobs - n_completed (>= 1: the finishing job itself is
    still unfinished before the call); batches.n_jobs is the root group's n_jobs."""
    B, J, G, K, CH, A = Sym('batch'), Sym('job'), Sym('group_of_job'), Sym('ancestor_group'), Sym('dependent'), Sym('attempt')
    enums = {'new_state': list(TERMINAL), 'own_state': list(STATES), 'own_attempt': [A, None, Sym('other_attempt')], 'child_cancelled': [0, 1], 'child_always_run': [0, 1]}
    ivals: Dict[str, Tuple[Optional[int], Optional[int]]] = {'n': (1, None)}
    labels = {'new_state': 'reported new_state', 'own_state': 'state of the job before the call', 'own_attempt': 'attempt_id stored on the job', 'child_cancelled': 'dependent.cancelled before',
              'child_always_run': 'dependent.always_run', 'n': 'dependent.n_pending_parents before'}
    for t in ANC_TAGS:
        ivals[f'gap_{t}'] = (1, None)
        labels[f'gap_{t}'] = f'unfinished jobs (n_jobs - n_completed) of {"the job\'s own group" if t == "own" else ("a self-or-ancestor group of the job\'s group" if t == "anc" else "the root group / the batch")} before the call'
    dom = Domain(enums, ivals, maybe_equal=[('group_of_job', 'ancestor_group')], labels=labels)
    scn = Scenario(dom, full_schema(prog))
    scn.bind = {'B': B, 'J': J, 'G': G}
    scn.keycols = {'jobs': ('batch_id', 'job_id'), 'job_parents': ('batch_id', 'job_id', 'parent_id'), TALLY: ('id', 'job_group_id'), 'job_groups': ('batch_id', 'job_group_id'),
                   'batches': ('id',), CLOSURE: ('batch_id', 'job_group_id', 'ancestor_id')}
    scn.add_row('jobs', 'own', dict(batch_id=B, job_id=J, state=EnumVal('own_state'), attempt_id=EnumVal('own_attempt'), job_group_id=G), key=(B, J))
    scn.add_row('jobs', 'child', dict(batch_id=B, job_id=CH, state='Pending', n_pending_parents=Lin({'n': 1}, 0), cancelled=EnumVal('child_cancelled'), always_run=EnumVal('child_always_run')), key=(B, CH))
    gid = {'own': G, 'anc': K, 'root': 0}
    for t in (ANC_TAGS if groups else ()):
        scn.add_row(TALLY, t, dict(id=B, job_group_id=gid[t], **{c: Lin({f'{c}_{t}': 1}, 0) for c in CATS}), key=(B, gid[t]))
        scn.add_row('job_groups', t, dict(batch_id=B, job_group_id=gid[t], n_jobs=Lin({f'n_completed_{t}': 1, f'gap_{t}': 1}, 0), state='running', time_completed=None), key=(B, gid[t]))
    if groups:
        scn.add_row('batches', 'b', dict(id=B, n_jobs=Lin({'n_completed_root': 1, 'gap_root': 1}, 0), state='running', time_completed=None), key=(B,))
    else:
        for t_ in (TALLY, 'job_groups', 'batches', CLOSURE):
            scn.keycols.pop(t_, None)

    def children(ex: AbsExec, m: Match, st: N):
        ea = m.alias['E']
        return [(('jobs', 'child'), {ea: ('job_parents', dict(batch_id=B, job_id=CH, parent_id=J), ['batch_id', 'job_id', 'parent_id'])})]

    def no_closure_filter(m: Match, st: N, table: str) -> None:
        ca = m.alias['C']
        bad = [c for c in m.residual if any(x.kind == 'col' and ((len(x.parts) > 1 and x.parts[-2].lower().strip('`') in (ca, CLOSURE)) or (len(x.parts) == 1 and x.parts[0].lower() in ('ancestor_id', 'level')))
                                          for x in c.walk())]
        if bad:
            raise Mismatch(table, st, f'the self-and-ancestor rows of the job\'s group are additionally filtered by `{text(bad[0])[:60]}`: the groups it excludes are not written')

    def tallies(ex: AbsExec, m: Match, st: N):
        no_closure_filter(m, st, TALLY)
        ca = m.alias['C']
        return [((TALLY, t), {ca: (CLOSURE, dict(batch_id=B, job_group_id=G, ancestor_id=gid[t]), ['batch_id', 'job_group_id', 'ancestor_id', 'level'])}) for t in ANC_TAGS]

    def groups(ex: AbsExec, m: Match, st: N):
        no_closure_filter(m, st, 'job_groups')
        ca = m.alias['C']
        return [(('job_groups', t), {ca: (CLOSURE, dict(batch_id=B, job_group_id=G, ancestor_id=gid[t]), ['batch_id', 'job_group_id', 'ancestor_id', 'level'])}) for t in ANC_TAGS]

    scn.update_patterns['jobs'] = [(Pattern('the dependents of the finishing job (jobs joined through job_parents on parent = this job, in this batch)', {'X': 'jobs', 'E': 'job_parents'},
                                            [['X.batch_id', 'E.batch_id', '$B'], ['X.job_id', 'E.job_id'], ['E.parent_id', '$J']]), children)]
    scn.update_patterns[TALLY] = [(Pattern('the tally rows of the job\'s group and all its ancestors (closure rows of the job\'s group, joined by ancestor_id)', {'T': TALLY, 'C': CLOSURE},
                                           [['T.id', 'C.batch_id', '$B'], ['C.job_group_id', '$G'], ['T.job_group_id', 'C.ancestor_id']]), tallies)]
    scn.update_patterns['job_groups'] = [(Pattern('the job_groups rows of the job\'s group and all its ancestors', {'T': 'job_groups', 'C': CLOSURE},
                                                  [['T.batch_id', 'C.batch_id', '$B'], ['C.job_group_id', '$G'], ['T.job_group_id', 'C.ancestor_id']]), groups)]
    cur_pat = Pattern('the closure rows of the finished job\'s group (all self-and-ancestor groups)', {'C': CLOSURE}, [['C.batch_id', '$B'], ['C.job_group_id', '$G']])

    def cursor(ex: AbsExec, sel_node: N, frame: Frame):
        if getattr(sel_node, 'union', None) or sel_node.group or sel_node.having is not None or sel_node.distinct or sel_node.frm is None:
            raise AnalysisError('cursor over tracked tables: shape not recognised')
        sel = ex.build_sel(sel_node.frm, sel_node.where, frame)
        m, diff = match(sel, cur_pat, scn.bind, ex._ignorable)
        if m is None and diff is None:
            raise AnalysisError(f'cursor `{text(sel_node)[:80]}` does not range over {CLOSURE}')
        if m is None:
            raise Mismatch('job_groups', sel_node, f'the cursor does not range over {cur_pat.name}: {diff}')
        if m.residual or sel_node.limit is not None:
            raise Mismatch('job_groups', sel_node, 'the cursor over the self-and-ancestor groups is restricted by ' + (' AND '.join(text(c) for c in m.residual) or 'LIMIT') + ': some ancestors are never examined')
        cols = [c.parts[-1].lower() if c.kind == 'col' else None for c, _ in sel_node.cols]
        vals = []
        for c in cols:
            if c == 'ancestor_id':
                vals.append(K)
            elif c == 'batch_id':
                vals.append(B)
            elif c == 'job_group_id':
                vals.append(G)
            else:
                vals.append(UNK)
        return {'kind': 'ancestors', 'values': vals, 'order': _order_class(sel_node)}
    scn.cursor_hook = cursor
    syms = {'B': B, 'J': J, 'G': G, 'K': K, 'CH': CH, 'A': A}
    return scn, syms


def run_mark_job_complete(prog: sf.SqlProgram, scn: Scenario, syms: Dict[str, Any], case: Case) -> AbsExec:
    ex = AbsExec(prog, scn, case)
    args = {'in_batch_id': syms['B'], 'in_job_id': syms['J'], 'new_state': EnumVal('new_state'), 'in_attempt_id': syms['A'], 'new_timestamp': Sym('new_timestamp')}
    ex.call('mark_job_complete', args)
    return ex


def own_transition(ex: AbsExec) -> Tuple[bool, Any, Any]:
    """(did the job itself move into a terminal state in this call, state before, state after)."""
    E = ex.E
    post = ex.rows[('jobs', 'own')]['state']
    if isinstance(post, EnumVal) and post.name == 'own_state':
        pre = ex.case.choice.get('own_state', '(any)')
        return False, pre, pre
    pre = E.res(EnumVal('own_state'))
    post = E.res(post)
    return (post != pre and post in TERMINAL), pre, post


# --------------------------------------------------------------------------------------
# commit_batch_update
# --------------------------------------------------------------------------------------
STAGING = 'job_groups_inst_coll_staging'
# classes of one parent edge of a child of the committed update: (state of the parent's job row | None = no job row, parent belongs to an earlier update?)
PARENT_CLASSES: List[Tuple[Optional[str], bool]] = [(s_, True) for s_ in STATES] + [(None, True), ('Pending', False)]


def pc_sym(pc: Tuple[Optional[str], bool]) -> str:
    return f'm[{"no job row" if pc[0] is None else pc[0]}{"" if pc[1] else ", same update"}]'


def _agg_nodes(e: N) -> List[N]:
    return [x for x in e.walk() if x.kind == 'func' and x.name in ('SUM', 'COUNT', 'MAX', 'MIN', 'AVG') and not getattr(x, 'over', None)]


def _lin_atom(ex: AbsExec, c: N, frame: Frame, colsym: Callable[[N], Optional[Lin]]) -> Optional[Tuple[str, Lin]]:
    """Normal form of an order atom `a op b` between linear expressions:  ('>=0' | '>0' | '=0', L)."""
    if c.kind != 'bin' or c.op not in ('<', '<=', '>', '>=', '='):
        return None

    def env(n: N) -> Any:
        if n.kind == 'col':
            v = colsym(n)
            if v is not None:
                return v
        return ex.var_env(frame)(n)
    try:
        a, b = lin_of(ex.E.ev(c.left, env)), lin_of(ex.E.ev(c.right, env))
    except (Undecided, AnalysisError):
        return None
    if a is None or b is None:
        return None
    d = ex.case.norm(a - b)
    if c.op == '>=':
        return '>=0', d
    if c.op == '>':
        return '>0', d
    if c.op == '<=':
        return '>=0', -d
    if c.op == '<':
        return '>0', -d
    return '=0', d


def _same_atoms(ex: AbsExec, got: List[Tuple[str, Lin]], want: List[Tuple[str, Lin]]) -> Tuple[List[int], List[int]]:
    """Match order atoms by identity of their normal forms in the current case (no split): (indices of `got` that are no wanted atom,
    indices of `want` that are missing)."""
    def same(a: Lin, b: Lin) -> bool:
        d = ex.case.norm(a - b)
        if d.is_const():
            return d.const == 0
        lo, hi = ex.case.bounds(d)
        return lo is not None and lo == hi == 0
    used: Set[int] = set()
    extra = []
    for i, (k, l) in enumerate(got):
        hit = [j for j, (k2, l2) in enumerate(want) if k2 == k and same(l, l2)]
        if hit:
            used.add(hit[0])
        else:
            extra.append(i)
    return extra, [j for j in range(len(want)) if j not in used]


def commit_scenario(prog: sf.SqlProgram) -> Tuple[Scenario, Dict[str, Any]]:
    """Roles: the update row (B, U) with its job count NU and first job id S; the batch row; a generic job group SG that has staging
    rows for this update (sum of their n_jobs: SS); a generic job CH of the update with its parent edges abstracted to COUNT CLASSES:
    m[c] = number of its parents in class c (state of the parent's job row x earlier / same update, or `no job row`).  The stored
    n_pending_parents of CH is the free symbol v0 (anything between the number of parents and that number minus the parents that
    finished while the update was open)."""
    B, SG, CH = Sym('batch'), Sym('staged_group'), Sym('job_of_update')
    U = Lin({'update_id': 1}, 0)
    enums = {'committed': [0, 1], 'child_cancelled': [0, 1]}
    ivals: Dict[str, Tuple[Optional[int], Optional[int]]] = {'update_id': (1, None), 'NU': (0, None), 'SR': (0, None), 'd_earlier': (1, None), 'd_same': (0, None), 'one_row': (1, None), 'other_rows': (0, None)}
    labels = {'update_id': 'update id', 'NU': 'batch_updates.n_jobs of the update', 'SR': 'staged jobs of the root group for this update', 'other_rows': 'sum of n_jobs over the OTHER staging rows (other inst_coll / token) of the group for this update',
              'committed': 'batch_updates.committed before', 'child_cancelled': 'job.cancelled before', 'v0': 'stored jobs.n_pending_parents before the commit', 'one_row': 'n_jobs of ONE staging row (one inst_coll / token) of the group',
              'd_earlier': 'start_job_id of the update minus the id of an earlier parent', 'd_same': 'id of a same-update parent minus start_job_id of the update'}
    for pc in PARENT_CLASSES:
        ivals[pc_sym(pc)] = (0, None)
        labels[pc_sym(pc)] = f'parents of the job with {"no job row" if pc[0] is None else "state " + pc[0]}{"" if pc[1] else " (same update)"}'
    dom = Domain(enums, ivals, labels=labels, split_budget=1)
    dom.unreliable = {'v0'}
    scn = Scenario(dom, full_schema(prog))
    scn.bind = {'B': B, 'U': U}
    scn.keycols = {'batch_updates': ('batch_id', 'update_id'), 'batches': ('id',), 'job_groups': ('batch_id', 'job_group_id'), 'jobs': ('batch_id', 'job_id'),
                   STAGING: ('batch_id', 'update_id', 'job_group_id', 'inst_coll', 'token'), 'job_parents': ('batch_id', 'job_id', 'parent_id')}
    S = Lin({'S': 1}, 0)
    scn.add_row('batch_updates', 'u', dict(batch_id=B, update_id=U, committed=EnumVal('committed'), n_jobs=Lin({'NU': 1}, 0), start_job_id=S, time_committed=Sym('t_committed_before')), key=(B, U))
    scn.add_row('batches', 'b', dict(id=B, state=Sym('batch_state_before'), n_jobs=Lin({'NB': 1}, 0), time_completed=Sym('t_completed_before')), key=(B,))
    scn.add_row('job_groups', 'staged', dict(batch_id=B, job_group_id=SG, state=Sym('group_state_before'), n_jobs=Lin({'NG': 1}, 0), time_completed=Sym('t_completed_before')), key=(B, SG))
    scn.add_row('jobs', 'child', dict(batch_id=B, job_id=CH, state='Pending', n_pending_parents=Lin({'v0': 1}, 0), cancelled=EnumVal('child_cancelled')), key=(B, CH))

    # (1) the staged job count of the ROOT group for this update
    def staging_sum(ex: AbsExec, st: N, frame: Frame) -> Optional[List[Any]]:
        if st.frm is None or [t.lower() for t in sf.table_names(st.frm)] != [STAGING] or len(st.cols) != 1 or not _agg_nodes(st.cols[0][0]):
            return None
        sel = ex.build_sel(st.frm, st.where, frame)
        alias = list(sel.insts)[0]
        pins = {c: [value_key(v) for v in sel.pinned(alias, c)] for c in ('batch_id', 'update_id', 'job_group_id', 'inst_coll', 'token')}
        aggs = _agg_nodes(st.cols[0][0])
        canonical = (pins['batch_id'] == [value_key(B)] and pins['update_id'] == [value_key(U)] and pins['job_group_id'] == [value_key(0)] and not pins['inst_coll'] and not pins['token']
                     and not sel.residual and not st.group and len(aggs) == 1 and aggs[0].name == 'SUM' and text(aggs[0].args[0]).lower().split('.')[-1] == 'n_jobs')
        symname = 'SR' if canonical else 'sum{' + text(st.cols[0][0])[:30] + ' | ' + ','.join(f'{k}={v}' for k, v in pins.items() if v) + '}'
        node = sf.subst(st.cols[0][0], lambda n: N('lit', value=Lin({symname: 1}, 0)) if n in aggs or (n.kind == 'func' and n.name == aggs[0].name and text(n) == text(aggs[0])) else None)
        return [ex.value_or_unk(node, frame)]
    scn.select_hooks.append(staging_sum)

    # (2) job_groups joined with the per-group sums of the staging rows of this update
    def groups_update(ex: AbsExec, st: N, frame: Frame) -> bool:
        if 'job_groups' not in ex._written_tracked(st):
            return False
        sel = ex.build_sel(st.frm, st.where, frame)
        aggs = [i for i in sel.insts.values() if i.agg is not None]
        tabs = [i for i in sel.insts.values() if i.agg is None and not ex._ignorable(i)]
        if len(aggs) != 1 or len(tabs) != 1 or tabs[0].table != 'job_groups':
            return False
        jga, d = tabs[0].alias, aggs[0]
        sub = d.agg
        if sub.frm is None or [t.lower() for t in sf.table_names(sub.frm)] != [STAGING] or sub.having is not None or sub.limit is not None or getattr(sub, 'union', None):
            raise AnalysisError(f'commit_batch_update: derived table of `{text(st)[:60]}` is not an aggregate over {STAGING}')
        if d.jtype == 'LEFT':
            raise Mismatch('job_groups', st, 'the per-group staging sums are LEFT-joined: every job group of every batch is written')
        isel = ex.build_sel(sub.frm, sub.where, frame)
        ia = list(isel.insts)[0]
        pins = {c: [value_key(v) for v in isel.pinned(ia, c)] for c in scn.keycols[STAGING]}
        problems = []
        if pins['batch_id'] != [value_key(B)] or pins['update_id'] != [value_key(U)]:
            problems.append(f'the staging rows are not restricted to this batch and this update (pins {dict((k, v) for k, v in pins.items() if v)})')
        if pins['job_group_id'] or pins['inst_coll'] or pins['token'] or isel.residual:
            problems.append('the staging rows are filtered by ' + ', '.join([k for k in ('job_group_id', 'inst_coll', 'token') if pins[k]] + [text(c) for c in isel.residual]))
        gcols = sorted(g.parts[-1].lower() for g in sub.group if g.kind == 'col')
        if len(gcols) != len(sub.group):
            raise AnalysisError('GROUP BY expression')
        grouped_by_group = 'job_group_id' in gcols and set(gcols) <= {'batch_id', 'update_id', 'job_group_id'}
        # outer join keys
        outcol = {}
        for (c, a), name in zip(sub.cols, d.cols):
            outcol[name] = c
        jg_cls = {col: [x for x in sel.class_of(jga, col) if x[0] == 'c' and x[1] == d.alias] for col in ('batch_id', 'job_group_id')}

        def is_groupcol(name: str, want: str) -> bool:
            c = outcol.get(name)
            return c is not None and c.kind == 'col' and c.parts[-1].lower() == want
        key_ok = any(is_groupcol(x[2], 'job_group_id') for x in jg_cls['job_group_id'])
        batch_ok = any(is_groupcol(x[2], 'batch_id') for x in jg_cls['batch_id']) or [value_key(v) for v in sel.pinned(jga, 'batch_id')] == [value_key(B)]
        if not key_ok or not batch_ok or sel.residual:
            raise Mismatch('job_groups', st, 'the staging sums are not joined to the job group row by (batch_id, job_group_id)' + (f' / extra condition {text(sel.residual[0])}' if sel.residual else ''))
        if problems:
            raise Mismatch('job_groups', st, '; '.join(problems))
        drow: Dict[str, Any] = {}
        for name, c in outcol.items():
            if c.kind == 'col':
                drow[name] = {'batch_id': B, 'job_group_id': SG, 'update_id': U}.get(c.parts[-1].lower(), UNK)
                continue
            ags = _agg_nodes(c)
            canonical = grouped_by_group and len(ags) == 1 and ags[0].name == 'SUM' and text(ags[0].args[0]).lower().split('.')[-1] == 'n_jobs'
            symname = '@SS' if canonical else ('sum over ' + ('the whole update' if not grouped_by_group else 'the group') + ' of ' + (text(ags[0].args[0]) if ags else text(c))[:30])
            val = Lin({'one_row': 1, 'other_rows': 1}, 0) if symname == '@SS' else Lin({symname: 1}, 0)
            node = sf.subst(c, lambda n: N('lit', value=val) if any(n is a_ for a_ in ags) or (ags and n.kind == 'func' and text(n) == text(ags[0])) else None)
            drow[name] = ex.value_or_unk(node, frame)
        row = ex.rows[('job_groups', 'staged')]
        rowenv = {jga: ('job_groups', row, tabs[0].cols), d.alias: (None, drow, d.cols)}
        for a, i in sel.insts.items():
            rowenv.setdefault(a, (i.table, None, i.cols))
        for c, v in st.sets:
            parts = [p.lower().strip('`') for p in c.parts]
            if len(parts) > 1 and parts[-2] not in (jga, 'job_groups'):
                raise AnalysisError(f'UPDATE target {text(c)}')
            row[parts[-1]] = ex.value_or_unk(v, frame, rowenv)
        ex.record_write(frame.routine, st, ('job_groups', 'staged'))
        return True
    scn.update_hooks.append(groups_update)

    # (3) job_groups joined DIRECTLY with the staging rows: one arbitrary row per group is used (several rows per group: inst_coll x token)
    def direct(ex: AbsExec, m: Match, st: N):
        sa = m.alias['ST']
        return [(('job_groups', 'staged'), {sa: (STAGING, dict(batch_id=B, update_id=U, job_group_id=SG, n_jobs=Lin({'one_row': 1}, 0)), scn.schema.get(STAGING, []))})]
    scn.update_patterns['job_groups'] = [(Pattern('the job groups that have staging rows for this update', {'JG': 'job_groups', 'ST': STAGING},
                                                  [['JG.batch_id', 'ST.batch_id', '$B'], ['JG.job_group_id', 'ST.job_group_id'], ['ST.update_id', '$U']]), direct)]

    # (4) the recount of the jobs of the update
    def recount(ex: AbsExec, st: N, frame: Frame) -> bool:
        if 'jobs' not in ex._written_tracked(st):
            return False
        sel = ex.build_sel(st.frm, st.where, frame)
        tabs = [i for i in sel.insts.values() if i.agg is None and not ex._ignorable(i)]
        aggs = [i for i in sel.insts.values() if i.agg is not None]
        if len(tabs) != 1 or tabs[0].table != 'jobs':
            return False
        ja = tabs[0].alias
        if [value_key(v) for v in sel.pinned(ja, 'job_id')]:
            return False  # a single job: ordinary key look-up
        # selection: this batch, the id range reserved by the update
        jid = Lin({'@job_id': 1}, 0)

        def colsym(n: N) -> Optional[Lin]:
            parts = [p.lower().strip('`') for p in n.parts]
            if parts[-1] == 'job_id' and (len(parts) == 1 or parts[-2] in (ja, 'jobs')):
                return jid
            return None
        want = [('>=0', jid - S), ('>0', S + Lin({'NU': 1}, 0) - jid)]
        got: List[Tuple[str, Lin]] = []
        for c in sel.residual:
            at = _lin_atom(ex, c, frame, colsym)
            if at is None:
                raise AnalysisError(f'commit_batch_update: condition `{text(c)[:60]}` of the jobs update is not a range condition the abstraction understands')
            got.append(at)
        problems = []
        if [value_key(v) for v in sel.pinned(ja, 'batch_id')] != [value_key(B)]:
            problems.append('jobs of every batch are selected (jobs.batch_id is not pinned to in_batch_id)')
        extra, missing = _same_atoms(ex, got, want)
        if extra:
            raise AnalysisError(f'commit_batch_update: range conditions {[(k, repr(l)) for k, l in got]} of the jobs update are not the canonical ones {[(k, repr(l)) for k, l in want]}')
        if missing:
            problems.append(f'the jobs updated are not restricted to the id range reserved by this update (start_job_id <= job_id < start_job_id + n_jobs): conditions found {[(k, repr(l)) for k, l in got] or "none"}. '
                            'Running or finished jobs of earlier updates are re-evaluated (a Running job set back to Ready is executed twice)')
        if problems:
            raise Mismatch('jobs', st, '; '.join(problems), kind='other batch' if 'every batch' in problems[0] else 'range')
        row = ex.rows[('jobs', 'child')]
        rowenv: Dict[str, Any] = {ja: ('jobs', row, tabs[0].cols)}
        for d in aggs:
            info = _parents_aggregate(ex, scn, sel, d, ja, frame, st, B, CH, S)
            if info is None:
                return True  # INNER join and no edge row: this job is not updated by the statement
            rowenv[d.alias] = (None, info, d.cols)
        for a, i in sel.insts.items():
            rowenv.setdefault(a, (i.table, None, i.cols))
        for c, v in st.sets:
            parts = [p.lower().strip('`') for p in c.parts]
            ta = parts[-2] if len(parts) > 1 else (ja if parts[-1] in tabs[0].cols else None)
            if ta is None:
                raise AnalysisError(f'cannot resolve UPDATE target {text(c)}')
            if ta not in (ja, 'jobs'):
                if ta in sel.insts and ex._ignorable(sel.insts[ta]):
                    continue
                raise AnalysisError(f'UPDATE target {text(c)}')
            row[parts[-1]] = ex.value_or_unk(v, frame, rowenv)
        ex.record_write(frame.routine, st, ('jobs', 'child'))
        return True
    scn.update_hooks.append(recount)
    return scn, {'B': B, 'U': U, 'S': S, 'CH': CH, 'SG': SG, 'SS': Lin({'one_row': 1, 'other_rows': 1}, 0)}


def _parents_aggregate(ex: AbsExec, scn: Scenario, sel: Sel, d: Inst, ja: str, frame: Frame, st: N, B: Sym, CH: Sym, S: Lin) -> Optional[Dict[str, Any]]:
    """Abstract value of the derived table `per child: aggregates over its parent edges` for the generic child.
    None = no row and the table is INNER-joined."""
    sub = d.agg
    if sub.having is not None or sub.limit is not None or getattr(sub, 'union', None) or sub.frm is None:
        raise AnalysisError('recount: derived table shape')
    isel = ex.build_sel(sub.frm, sub.where, frame)
    byt = {}
    for a, i in isel.insts.items():
        if i.agg is not None or i.table in byt:
            raise AnalysisError('recount: derived table over unexpected tables')
        byt[i.table] = a
    if set(byt) - {'job_parents', 'jobs'} or 'job_parents' not in byt:
        raise AnalysisError(f'recount: derived table is not driven from job_parents (tables {sorted(byt)})')
    ea, pa = byt['job_parents'], byt.get('jobs')
    if isel.insts[ea].jtype == 'LEFT':
        raise AnalysisError('recount: job_parents is the optional side of a join')
    # the parents' job rows are joined by (batch_id, parent_id)
    p_left = False
    if pa is not None:
        pin = isel.insts[pa]
        p_left = pin.jtype == 'LEFT'
        if p_left:
            jsel = Sel()
            jsel.insts = isel.insts
            b = SelBuilder(scn.schema, lambda n: n in frame.vars, lambda e: (_ for _ in ()).throw(Undecided('v')))
            for c in pin.on:
                b._conjunct(jsel, c, None)
            src = jsel
        else:
            src = isel
        ok_j = ('c', ea, 'parent_id') in src.class_of(pa, 'job_id') and ('c', ea, 'batch_id') in src.class_of(pa, 'batch_id') and not (p_left and src.residual)
        extra = [x for col in ('job_id', 'batch_id') for x in src.class_of(pa, col) if x[0] == 'c' and x not in (('c', pa, col), ('c', ea, 'parent_id' if col == 'job_id' else 'batch_id'))
                 and not (x[0] == 'c' and x[1] in (ea, pa) and x[2] == 'batch_id')]
        if not ok_j or extra:
            raise Mismatch('jobs', st, 'the recount does not read each parent\'s job row through job_parents.parent_id (join of jobs with job_parents on (batch_id, parent_id) expected)', kind='per child')
    # grouping and outer join: per child
    gcols = sorted((g.parts[-1].lower() if g.kind == 'col' else '?') for g in sub.group)
    gq = [g for g in sub.group if g.kind == 'col' and (len(g.parts) == 1 or g.parts[-2].lower().strip('`') in (ea, 'job_parents'))]
    if gcols != ['batch_id', 'job_id'] or len(gq) != 2:
        raise Mismatch('jobs', st, f'the parents are aggregated per {gcols}, expected per child (job_parents.batch_id, job_parents.job_id): each child must be recounted over its own parents only', kind='per child')
    outcol = {name: c for (c, a), name in zip(sub.cols, d.cols)}
    if d.jtype == 'LEFT':
        jsel = Sel()
        jsel.insts = sel.insts
        b = SelBuilder(scn.schema, lambda n: n in frame.vars, lambda e: (_ for _ in ()).throw(Undecided('v')))
        for c in d.on:
            b._conjunct(jsel, c, None)
        src2, extra_res = jsel, jsel.residual
    else:
        src2, extra_res = sel, []

    def joined(col: str) -> bool:
        for x in src2.class_of(ja, col):
            if x[0] == 'c' and x[1] == d.alias:
                c = outcol.get(x[2])
                if c is not None and c.kind == 'col' and c.parts[-1].lower() == col and (len(c.parts) == 1 or c.parts[-2].lower().strip('`') in (ea, 'job_parents')):
                    return True
        return False
    if not (joined('batch_id') and joined('job_id')) or extra_res:
        raise Mismatch('jobs', st, 'the per-child aggregates are not joined to the child by (batch_id, job_id)', kind='per child')
    # which edge classes pass the WHERE of the derived table; range atoms on the child's own id are the canonical (redundant) ones or absent
    jid = Lin({'@job_id': 1}, 0)

    def colsym(n: N) -> Optional[Lin]:
        parts = [p.lower().strip('`') for p in n.parts]
        if parts[-1] == 'job_id' and len(parts) > 1 and parts[-2] in (ea, 'job_parents'):
            return jid
        return None
    want = [('>=0', jid - S), ('>0', S + Lin({'NU': 1}, 0) - jid)]
    per_class: List[N] = []
    if [value_key(v) for v in isel.pinned(ea, 'batch_id')] not in ([value_key(B)], []):
        raise Mismatch('jobs', st, 'the parent edges are read from another batch', kind='other batch')
    for c in isel.residual:
        refs_child = any(x.kind == 'col' and colsym(x) is not None for x in c.walk())
        if refs_child:
            at = _lin_atom(ex, c, frame, colsym)
            if at is None or _same_atoms(ex, [at], want)[0]:
                raise AnalysisError(f'recount: condition `{text(c)[:60]}` on the child id inside the derived table is not one of the canonical range conditions')
            continue
        per_class.append(c)
    total = Lin({}, 0)
    passing: List[Tuple[Tuple[Optional[str], bool], Dict[str, Any]]] = []
    for pc in PARENT_CLASSES:
        state, earlier = pc
        pid = (S - Lin({'d_earlier': 1}, 0)) if earlier else (S + Lin({'d_same': 1}, 0))
        erow = dict(batch_id=B, job_id=CH, parent_id=pid)
        if state is None:
            if pa is not None and not p_left:
                continue  # INNER join with the parents' job rows: an edge without job row is dropped
            prow: Optional[Dict[str, Any]] = {c_: None for c_ in scn.schema.get('jobs', [])}
        else:
            prow = dict({c_: UNK for c_ in scn.schema.get('jobs', [])}, batch_id=B, job_id=pid, state=state, update_id=UNK)
        env = {ea: ('job_parents', erow, ['batch_id', 'job_id', 'parent_id'])}
        if pa is not None:
            env[pa] = ('jobs', prow, scn.schema.get('jobs', []))
        ok = True
        for c in per_class:
            try:
                if not _truth(ex.value(c, frame, env)):
                    ok = False
                    break
            except Undecided as u:
                raise AnalysisError(f'recount: whether a parent edge passes `{text(c)[:60]}` depends on {u}') from u
        if ok:
            passing.append((pc, env))
            total = total + Lin({pc_sym(pc): 1}, 0)
    exists = ex.case.sign(total) > 0
    if not exists:
        if d.jtype != 'LEFT':
            return None
        return {name: None for name in d.cols}
    out: Dict[str, Any] = {}
    for name, c in outcol.items():
        if c.kind == 'col':
            out[name] = {'batch_id': B, 'job_id': CH}.get(c.parts[-1].lower(), UNK)
            continue
        ags = _agg_nodes(c)
        repl: Dict[int, Any] = {}
        for a_ in ags:
            if a_.name == 'COUNT' and a_.args and a_.args[0].kind == 'star':
                repl[id(a_)] = total
                continue
            if a_.name not in ('SUM', 'COUNT') or len(a_.args) != 1 or getattr(a_, 'distinct', False):
                raise AnalysisError(f'recount: aggregate {text(a_)[:40]} is outside the abstraction')
            lin, nonnull = Lin({}, 0), Lin({}, 0)
            for pc, env in passing:
                try:
                    v = ex.value(a_.args[0], frame, env)
                except Undecided as u:
                    raise AnalysisError(f'recount: aggregated expression `{text(a_.args[0])[:50]}` depends on {u}') from u
                if v is None:
                    continue
                if not isinstance(v, int):
                    raise AnalysisError(f'recount: aggregated expression `{text(a_.args[0])[:50]}` is not a 0/1 or integer constant per parent class')
                nonnull = nonnull + Lin({pc_sym(pc): 1}, 0)
                lin = lin + Lin({pc_sym(pc): (v if a_.name == 'SUM' else 1)}, 0)
            if a_.name == 'COUNT':
                repl[id(a_)] = lin
            else:
                repl[id(a_)] = lin if ex.case.sign(nonnull) > 0 else None
        mapping = repl

        def sub_agg(n: N, mapping=mapping, ags=ags) -> Optional[N]:
            for a_ in ags:
                if n.kind == 'func' and n.name == a_.name and text(n) == text(a_):
                    return N('lit', value=mapping[id(a_)])
            return None
        out[name] = ex.value_or_unk(sf.subst(c, sub_agg), frame)
    return out


def run_commit(prog: sf.SqlProgram, scn: Scenario, syms: Dict[str, Any], case: Case) -> AbsExec:
    ex = AbsExec(prog, scn, case)
    ex.call('commit_batch_update', {'in_batch_id': syms['B'], 'in_update_id': syms['U'], 'in_timestamp': Sym('commit_timestamp')})
    return ex


# ======================================================================================
# Part 2: who may write job_group_self_and_ancestors, and in which shape
# ======================================================================================
#
# Every roll-up (tallies, staged job counts, completion walk, cancellation) TRUSTS that the closure table holds, for each group g,
# exactly the rows (g, a, distance) for a = g and every ancestor a of g.  That holds by induction on creation order iff the only
# writers are, in the transaction that inserts the job_groups row of g with parent p:
#   (self)       INSERT (b, g, g, 0)
#   (ancestors)  INSERT .. SELECT b, g, ancestor_id, level + 1 FROM the table WHERE batch_id = b AND job_group_id = p   - EVERY row of p,
#                its self row included, nothing filtered -, for every g that is not the root.
# Any other writer is reported when it is decidably different, and declined (AnalysisError) when it cannot be analysed.

Result = Tuple[str, str, str, str, int]  # ('ok' | 'bad', construct key, message / detail, file, line)


def _py_binding(e: sf.Embedded, st: N) -> Dict[int, str]:
    from . import sqlrules as sr
    params = sr.params_in_order(st)
    args_node = e.call.args[1] if len(e.call.args) > 1 else None
    elts = sr.args_tuple(e.fn, args_node)
    if elts is None or len(elts) != len(params):
        raise AnalysisError(f'{e.module.rel}::{e.qual}: cannot bind the {len(params)} parameters of `{text(st)[:60]}` to Python expressions')
    return {id(p): pf.nsrc(x) for p, x in zip(params, elts)}


def closure_writers(prog: sf.SqlProgram, tier: str = 'quick') -> List[Tuple[sf.Embedded, N]]:
    from .common import read_repo
    for r in prog.routines.values():
        for st in sf.all_statements(r.ast.body):
            if any(t.lower() == CLOSURE for t, _ in sf.written_tables(st)):
                raise AnalysisError(f'{CLOSURE} is written by the stored routine {r.name} ({r.file}): this writer is not analysed')
    out: List[Tuple[sf.Embedded, N]] = []
    dirs = ['batch/batch'] if tier != 'thorough' else ['batch', 'ci', 'hail/python/hailtop/batch_client', 'auth', 'monitoring']
    for rel in pf.walk_py(dirs):
        try:
            src = read_repo(rel)
        except Exception:
            continue
        if CLOSURE not in src:
            continue
        m = pf.load(rel)
        for e in sf.embedded_in(m):
            if e.sql_text is None or CLOSURE not in e.sql_text:
                continue
            sts = e.stmts()
            if e.parse_error:
                if any(w in e.sql_text.upper() for w in ('INSERT', 'UPDATE ', 'DELETE', 'REPLACE')) and 'SELECT' not in e.sql_text.upper().split(CLOSURE.upper())[0][-40:]:
                    raise AnalysisError(f'{rel}::{e.qual}: SQL mentioning {CLOSURE} does not parse ({e.parse_error})')
                continue
            for st in sts:
                if any(t.lower() == CLOSURE for t, _ in sf.written_tables(st)):
                    out.append((e, st))
    return out


def check_closure_writers(prog: sf.SqlProgram, tier: str = 'quick') -> List[Result]:
    from . import sqlrules as sr
    res: List[Result] = []
    schema = full_schema(prog)
    writers = closure_writers(prog, tier)
    if not writers:
        raise AnalysisError(f'no writer of {CLOSURE} found (anchor vanished)')
    by_fn: Dict[Tuple[str, str], List[Tuple[sf.Embedded, N]]] = {}
    for e, st in writers:
        by_fn.setdefault((e.module.rel, e.qual), []).append((e, st))
    for (rel, qual), sites in by_fn.items():
        m = sites[0][0].module
        fn = sites[0][0].fn
        cons = f'{rel}::{qual}'
        if fn is None:
            raise AnalysisError(f'{cons}: {CLOSURE} written at module level')
        selfs: List[Tuple[sf.Embedded, N, Dict[str, str]]] = []
        ancs: List[Tuple[sf.Embedded, N, Dict[str, Any]]] = []
        for e, st in sites:
            if st.kind != 'insert':
                raise AnalysisError(f'{cons}: `{text(st)[:70]}` ({st.kind.upper()} on {CLOSURE}) is outside the two canonical writers; not analysed')
            if st.cols is None or sorted(c.lower() for c in st.cols) != ['ancestor_id', 'batch_id', 'job_group_id', 'level']:
                raise AnalysisError(f'{cons}: insert into {CLOSURE} without the explicit column list (batch_id, job_group_id, ancestor_id, level)')
            bind = _py_binding(e, st) if e.method != 'execute_many' else None
            if st.select is None:
                if len(st.rows) != 1:
                    raise AnalysisError(f'{cons}: multi-row VALUES insert into {CLOSURE}')
                row = {c.lower(): x for c, x in zip(st.cols, st.rows[0])}

                def pyv(x: N) -> str:
                    if x.kind == 'param':
                        return bind[id(x)] if bind is not None else '%s'
                    return 'lit:' + text(x)
                if e.method == 'execute_many':
                    v = python_rows_verdict(m, fn, e, st)
                    res.append((v[0], f'{cons}::{"ancestor rows" if v[0] == "ok" else "rows assembled in Python"}', v[1], m.path, e.lineno))
                    if v[0] == 'ok':
                        elt = {c.lower(): pf.nsrc(x) for c, x in zip(st.cols, e.call.args[1].elt.elts)}
                        ancs.append((e, st, {'group': elt['job_group_id'], 'parent': 'parent_job_group_id', 'batch': elt['batch_id']}))
                    continue
                vals = {c: pyv(x) for c, x in row.items()}
                if vals['ancestor_id'] == vals['job_group_id'] and vals['level'] in ('0', 'lit:0'):
                    selfs.append((e, st, vals))
                    res.append(('ok', f'{cons}::self row', vals, m.path, e.lineno))
                else:
                    res.append(('bad', f'{cons}::other row', f'a single row (job_group_id={vals["job_group_id"]}, ancestor_id={vals["ancestor_id"]}, level={vals["level"]}) is inserted into {CLOSURE}: neither the self row '
                                '(g, g, 0) nor a copy of the parent\'s rows; the closure table no longer holds exactly the ancestor closure that every roll-up walks', m.path, e.lineno))
                continue
            # INSERT .. SELECT
            sub = st.select
            tabs = [t.lower() for t in sf.table_names(sub.frm)] if sub.frm is not None else []
            if tabs != [CLOSURE] or sub.frm.joins or sub.group or sub.having is not None or sub.distinct or getattr(sub, 'union', None):
                raise AnalysisError(f'{cons}: rows for {CLOSURE} are selected from {tabs or "?"} with joins / grouping: not the canonical copy of the parent\'s rows; not analysed')
            assert bind is not None

            def value_of(x: N) -> Any:
                if x.kind == 'param':
                    return Sym('py:' + bind[id(x)])
                if x.kind == 'lit':
                    return x.value
                raise Undecided(text(x))
            sel = SelBuilder(schema, lambda n: False, value_of).build(sub.frm, sub.where)
            alias = list(sel.insts)[0]
            pins = {c: sel.pinned(alias, c) for c in ('batch_id', 'job_group_id', 'ancestor_id', 'level')}
            problems: List[str] = []
            if len(pins['job_group_id']) != 1 or not isinstance(pins['job_group_id'][0], Sym):
                problems.append('the source rows are not those of ONE group (job_group_id is not pinned to the parent)')
            if len(pins['batch_id']) != 1:
                problems.append('the source rows are not restricted to the batch')
            filt = [f'{c} = {pins[c][0]!r}' for c in ('ancestor_id', 'level') if pins[c]] + [text(c) for c in sel.residual]
            if filt or sub.limit is not None:
                problems.append(f'the copy of the parent\'s rows is FILTERED ({", ".join(filt) or "LIMIT"}): the ancestors it drops never count the jobs of the new group (n_jobs, tallies, completion, cancellation)')
            cols = {c.lower(): x for c, (x, _) in zip(st.cols, sub.cols)}

            def is_src(x: N, col: str) -> bool:
                return x.kind == 'col' and x.parts[-1].lower() == col
            if not is_src(cols['ancestor_id'], 'ancestor_id'):
                problems.append(f'ancestor_id receives `{text(cols["ancestor_id"])}` instead of the source row\'s ancestor_id')
            ev_ = AbsEval(Case(Domain({}, {})))
            try:
                lv = lin_of(ev_.ev(cols['level'], lambda n: Lin({'level': 1}, 0) if (n.kind == 'col' and n.parts[-1].lower() == 'level') else (_ for _ in ()).throw(Undecided(text(n)))))
            except (Undecided, AnalysisError, NeedSplit):
                lv = None
            if lv is None or not (lv - Lin({'level': 1}, 1)).is_const() or (lv - Lin({'level': 1}, 1)).const != 0:
                problems.append(f'level receives `{text(cols["level"])}`, expected the source level + 1 (distance to the ancestor grows by one; listings select children by level = 1)')
            gx = cols['job_group_id']
            gpy = bind[id(gx)] if gx.kind == 'param' else None
            if gpy is None:
                problems.append(f'job_group_id receives `{text(gx)}` instead of the new group\'s id')
            bx = cols['batch_id']
            bpy = bind[id(bx)] if bx.kind == 'param' else ('src' if is_src(bx, 'batch_id') else None)
            if bpy is None:
                problems.append(f'batch_id receives `{text(bx)}`')
            info = {'group': gpy, 'parent': pins['job_group_id'][0].name[3:] if pins['job_group_id'] and isinstance(pins['job_group_id'][0], Sym) else None,
                    'batch': pins['batch_id'][0].name[3:] if pins['batch_id'] and isinstance(pins['batch_id'][0], Sym) else None}
            if info['parent'] is not None and info['parent'] == gpy:
                problems.append('the rows are copied from the new group itself, not from its parent')
            if problems:
                res.append(('bad', f'{cons}::ancestor rows', f'`{text(st)[:80]}`: ' + '; '.join(problems), m.path, e.lineno))
            else:
                ancs.append((e, st, info))
                res.append(('ok', f'{cons}::ancestor rows', info, m.path, e.lineno))
        if not selfs and not ancs:
            continue
        # the pair, in the function that inserts the job_groups row
        jg_ins = [(e2, s2) for e2 in sf.embedded_in(m) if e2.fn is fn and not e2.parse_error for s2 in e2.stmts() if s2.kind == 'insert' and s2.table.lower() == 'job_groups']
        if len(selfs) != 1 or len(ancs) != 1 or len(jg_ins) != 1:
            if len(selfs) == 0 and len(ancs) == 1 and len(jg_ins) == 1:
                res.append(('bad', f'{cons}::self row', f'{qual} copies the parent\'s rows but never inserts the self row (g, g, 0): the group\'s own jobs are not counted in the group, and its children copy an incomplete chain',
                            m.path, ancs[0][0].lineno))
                continue
            if len(ancs) == 0 and len(selfs) == 1 and len(jg_ins) == 1 and not any(r_[1].startswith(cons) for r_ in res):
                res.append(('bad', f'{cons}::ancestor rows', f'{qual} inserts the self row but never copies the parent\'s rows: no ancestor ever counts the jobs of the new group', m.path, selfs[0][0].lineno))
                continue
            if any(r_[1].startswith(cons) for r_ in res):
                continue
            raise AnalysisError(f'{cons}: expected one self-row insert, one copy of the parent\'s rows and one INSERT INTO job_groups in the same function (found {len(selfs)}, {len(ancs)}, {len(jg_ins)})')
        (es, ss, sv), (ea, sa, ai), (ej, sj) = selfs[0], ancs[0], jg_ins[0]
        jb = _py_binding(ej, sj)
        jrow = {c.lower(): (jb[id(x)] if x.kind == 'param' else text(x)) for c, x in zip(sj.cols or [], sj.rows[0])} if sj.select is None and sj.rows else {}
        same = sv['job_group_id'] == ai['group'] == jrow.get('job_group_id') and sv['batch_id'] == ai['batch'] == jrow.get('batch_id')
        recv = {es.receiver, ea.receiver, ej.receiver}
        msg = ''
        if not same:
            msg = (f'the three inserts do not concern the same group: job_groups ({jrow.get("batch_id")}, {jrow.get("job_group_id")}), self row ({sv["batch_id"]}, {sv["job_group_id"]}), '
                   f'ancestor rows for ({ai["batch"]}, {ai["group"]})')
        elif len(recv) != 1:
            msg = f'the closure rows and the job_groups row are written through different connections / transactions ({sorted(recv)}): a reader can see the group without its closure'
        res.append(('bad' if msg else 'ok', f'{cons}::same group, same transaction', msg or {'group': ai['group'], 'parent': ai['parent'], 'batch': ai['batch']}, m.path, ea.lineno))
        # guards: the copy runs for every non-root group, the self row always
        G = ai['group']
        allowed = {f'{G} != ROOT_JOB_GROUP_ID', f'ROOT_JOB_GROUP_ID != {G}', f'{G} != 0', f'{G} > ROOT_JOB_GROUP_ID', f'{G} > 0'}
        for label, e_ in (('ancestor rows', ea), ('self row', es)):
            ifs = sr.enclosing_ifs(m, e_.call, stop=fn)
            loops = [l for l in sr.enclosing_loops(m, e_.call) if any(l is x for x in ast.walk(fn))]
            bad_if = [(i, b) for i, b in ifs if not (label == 'ancestor rows' and b and pf.nsrc(i.test) in allowed)]
            if loops:
                raise AnalysisError(f'{cons}: the {label} insert sits in a loop; not analysed')
            if bad_if:
                i, b = bad_if[0]
                t = pf.nsrc(i.test)
                if label == 'self row' or (ai['parent'] and ai['parent'] in t) or G in t:
                    res.append(('bad', f'{cons}::{label} unconditional', f'the {label} of a new group {"are" if label.startswith("anc") else "is"} written only when `{"" if b else "not "}{t}`: groups for which the test fails get '
                                f'{"no ancestor rows: none of their ancestors counts their jobs" if label.startswith("anc") else "no self row"}', m.path, e_.lineno))
                    continue
                raise AnalysisError(f'{cons}: the {label} insert is guarded by `{t}`; not analysed')
            res.append(('ok', f'{cons}::{label} unconditional', {'guards': [pf.nsrc(i.test) for i, _ in ifs]}, m.path, e_.lineno))
    return res


# -- rows assembled in Python -----------------------------------------------------------
#
# Abstract value of a Python expression that holds a list of (ancestor_id, level) pairs:  Chain(base, shift, has_self) = "the closure
# rows of group `base`, levels shifted by `shift`, with / without the (base, base, 0 + shift) row".  `base` is the source text of the
# expression naming the group, or 'parent(<text>)'.  The rows inserted for a new group g with parent p are right iff they are exactly
# Chain(p, +1, with self).

class _Top(Exception):
    pass


def python_rows_verdict(m: pf.Module, fn: pf.FuncDef, e: sf.Embedded, st: N) -> Tuple[str, Any]:
    params = {a.arg for a in fn.args.args + fn.args.kwonlyargs + fn.args.posonlyargs}
    if 'job_group_id' not in params or 'parent_job_group_id' not in params:
        raise AnalysisError(f'{m.rel}::{e.qual}: rows for {CLOSURE} are assembled in Python and the function does not have the (job_group_id, parent_job_group_id) parameters: not analysed')
    G, P = 'job_group_id', 'parent_job_group_id'
    rows = e.call.args[1] if len(e.call.args) > 1 else None
    cols = [c.lower() for c in st.cols]
    if not isinstance(rows, ast.ListComp) or len(rows.generators) != 1 or rows.generators[0].ifs or not isinstance(rows.elt, ast.Tuple) or len(rows.elt.elts) != len(cols) \
            or any(x.kind != 'param' for x in st.rows[0]):
        raise AnalysisError(f'{m.rel}::{e.qual}: rows for {CLOSURE} are assembled in Python in a form that is not analysed')
    gen = rows.generators[0]
    elt = {c: x for c, x in zip(cols, rows.elt.elts)}
    if not (isinstance(gen.target, ast.Tuple) and len(gen.target.elts) == 2 and all(isinstance(x, ast.Name) for x in gen.target.elts)):
        raise AnalysisError(f'{m.rel}::{e.qual}: Python-assembled closure rows: comprehension target not recognised')
    a_name, l_name = gen.target.elts[0].id, gen.target.elts[1].id
    if pf.nsrc(elt['job_group_id']) != G or pf.nsrc(elt['ancestor_id']) != a_name:
        raise AnalysisError(f'{m.rel}::{e.qual}: Python-assembled closure rows: (job_group_id, ancestor_id) = ({pf.nsrc(elt["job_group_id"])}, {pf.nsrc(elt["ancestor_id"])}) not recognised')
    k0 = _shift_of(elt['level'], l_name)
    if k0 is None:
        raise AnalysisError(f'{m.rel}::{e.qual}: Python-assembled closure rows: level expression `{pf.nsrc(elt["level"])}` not recognised')
    _MEMO.clear()
    try:
        facts: Set[Tuple[str, int, bool, str]] = set()
        for _round in range(6):  # fixpoint over definition cycles (cache entries derived from cache look-ups); facts are capped in depth
            del _CUT[:]
            _ACTIVE.clear()
            size = sum(len(v) for v in _MEMO.values())
            facts = {(b, s + k0, h, why) for b, s, h, why in _chains(m, fn, gen.iter, G, P, 0)}
            if sum(len(v) for v in _MEMO.values()) == size:
                break
        else:
            raise _Top('no fixpoint')
        del _CUT[:]
    except _Top as t:
        raise AnalysisError(f'{m.rel}::{e.qual}: the rows inserted into {CLOSURE} are assembled in Python from `{pf.nsrc(gen.iter)}`; its contents cannot be determined ({t}); '
                            'the canonical writer is INSERT .. SELECT of every row of the parent with level + 1')
    wrong = [(b, s, h, why) for b, s, h, why in facts if (b, s, h) != (P, 1, True)]
    if not wrong:
        if _CUT or not facts:
            raise AnalysisError(f'{m.rel}::{e.qual}: the rows inserted into {CLOSURE} are assembled in Python through a cyclic definition (cache filled from its own look-ups); not decided')
        return 'ok', {'python_assembled': True, 'facts': sorted((b, s, h) for b, s, h, _ in facts)}
    b, s, h, why = sorted(wrong, key=lambda f: (f[0].count('parent('), f[1], f[0], f[3]))[0]
    if b == f'parent({P})' and s == 2:
        lack = 'they contain the rows of the parent\'s parent shifted by two, i.e. every proper ancestor of the parent, but NOT the parent itself (parent, level 1)'
    elif b == P and not h:
        lack = 'they lack the parent\'s own row (parent, level 1)'
    else:
        lack = f'they are the closure rows of `{b}` with levels shifted by {s}{"" if h else ", without its self row"}'
    return 'bad', (f'the rows inserted into {CLOSURE} for a new group are assembled in Python from `{pf.nsrc(gen.iter)}`; on the path where {why}, {lack}: expected every row of the parent, its self row included, with '
                   'level + 1.  A nested group whose parent row is missing is never counted by the parent: the parent reports n_jobs / tallies without the child\'s jobs and is complete while they run')


def _shift_of(e: ast.expr, l_name: str) -> Optional[int]:
    if isinstance(e, ast.Name) and e.id == l_name:
        return 0
    if isinstance(e, ast.BinOp) and isinstance(e.op, (ast.Add, ast.Sub)) and isinstance(e.left, ast.Name) and e.left.id == l_name and isinstance(e.right, ast.Constant) and isinstance(e.right.value, int):
        return e.right.value if isinstance(e.op, ast.Add) else -e.right.value
    if isinstance(e, ast.BinOp) and isinstance(e.op, ast.Add) and isinstance(e.right, ast.Name) and e.right.id == l_name and isinstance(e.left, ast.Constant) and isinstance(e.left.value, int):
        return e.left.value
    return None


def _chains(m: pf.Module, fn: pf.FuncDef, e: ast.AST, G: str, P: str, depth: int) -> Set[Tuple[str, int, bool, str]]:
    """Set of (base, shift, has_self, path description).  A definition cycle (cache entry derived from a cache look-up) is cut at the
    re-entry: the facts of the acyclic paths are still found, and `_CUT` records that the set is a lower bound only."""
    if depth > 12:
        raise _Top('definition chain too deep')
    if id(e) in _ACTIVE:
        _CUT.append(True)
        return set(_MEMO.get(id(e), set()))
    _ACTIVE.add(id(e))
    try:
        out = _chains0(m, fn, e, G, P, depth)
        out = {(b, min(s_, 5), h, why) for b, s_, h, why in out if b.count('parent(') <= 2}
        _MEMO[id(e)] = set(_MEMO.get(id(e), set())) | out
        return out
    finally:
        _ACTIVE.discard(id(e))


_ACTIVE: Set[int] = set()
_CUT: List[bool] = []
_MEMO: Dict[int, Set[Tuple[str, int, bool, str]]] = {}


def _chains0(m: pf.Module, fn: pf.FuncDef, e: ast.AST, G: str, P: str, depth: int) -> Set[Tuple[str, int, bool, str]]:
    if isinstance(e, ast.Await):
        return _chains(m, fn, e.value, G, P, depth)
    if isinstance(e, ast.Name):
        defs = pf.assignments(fn).get(e.id, [])
        out: Set[Tuple[str, int, bool, str]] = set()
        if not defs:
            raise _Top(f'`{e.id}` has no definition in the function')
        for d in defs:
            if isinstance(d, ast.arg):
                raise _Top(f'`{e.id}` is a parameter')
            if isinstance(d, ast.Constant) and d.value is None:
                continue
            if not isinstance(d, ast.expr):
                raise _Top(f'`{e.id}` is bound by {type(d).__name__}')
            out |= _chains(m, fn, d, G, P, depth + 1)
        return out
    if isinstance(e, ast.ListComp) and len(e.generators) == 1 and not e.generators[0].ifs:
        g = e.generators[0]
        it = g.iter
        # rows read from the table: [(record['ancestor_id'], record['level']) async for record in tx.execute_and_fetchall(SELECT ..)]
        if isinstance(it, ast.Call) and isinstance(it.func, ast.Attribute) and it.func.attr in ('execute_and_fetchall', 'select_and_fetchall') and isinstance(g.target, ast.Name):
            emb = [x for x in sf.embedded_in(m) if x.call is it]
            if len(emb) != 1 or emb[0].parse_error or len(emb[0].stmts()) != 1:
                raise _Top('query of the comprehension not parsed')
            q = emb[0].stmts()[0]
            bind = _py_binding(emb[0], q)
            if q.kind != 'select' or q.frm is None or [t.lower() for t in sf.table_names(q.frm)] != [CLOSURE] or q.frm.joins or q.group or q.limit is not None or q.distinct:
                raise _Top('query is not a plain read of the closure table')
            pins: Dict[str, str] = {}
            for c in sf.conjuncts(q.where):
                if c.kind == 'bin' and c.op == '=' and c.left.kind == 'col' and c.right.kind == 'param':
                    pins[c.left.parts[-1].lower()] = bind[id(c.right)]
                else:
                    raise _Top(f'query filters the rows by `{text(c)}`')
            if set(pins) != {'batch_id', 'job_group_id'}:
                raise _Top(f'query pins {sorted(pins)}')
            if not isinstance(e.elt, ast.Tuple) or [pf.nsrc(x) for x in e.elt.elts] != [f"{g.target.id}['ancestor_id']", f"{g.target.id}['level']"]:
                raise _Top('comprehension does not build (ancestor_id, level) pairs')
            return {(pins['job_group_id'], 0, True, f'the chain of `{pins["job_group_id"]}` is read from the table')}
        if isinstance(g.target, ast.Tuple) and len(g.target.elts) == 2 and all(isinstance(x, ast.Name) for x in g.target.elts) and isinstance(e.elt, ast.Tuple) and len(e.elt.elts) == 2:
            a_name, l_name = g.target.elts[0].id, g.target.elts[1].id
            k = _shift_of(e.elt.elts[1], l_name)
            if not (isinstance(e.elt.elts[0], ast.Name) and e.elt.elts[0].id == a_name) or k is None:
                raise _Top(f'comprehension `{pf.nsrc(e)[:60]}` does not map (ancestor_id, level) to (ancestor_id, level + k)')
            return {(b, s + k, h, why) for b, s, h, why in _chains(m, fn, it, G, P, depth + 1)}
        raise _Top(f'comprehension `{pf.nsrc(e)[:60]}` not recognised')
    # chain of the parent shifted by one, plus the new group's own row  =  the full chain of the new group
    if isinstance(e, ast.BinOp) and isinstance(e.op, ast.Add):
        for xs, lit in ((e.left, e.right), (e.right, e.left)):
            if isinstance(lit, ast.List) and len(lit.elts) == 1 and isinstance(lit.elts[0], ast.Tuple) and len(lit.elts[0].elts) == 2:
                who, lvl = lit.elts[0].elts
                if pf.nsrc(who) == G and isinstance(lvl, ast.Constant) and lvl.value == 0:
                    out = set()
                    for b, sh, h, why in _chains(m, fn, xs, G, P, depth + 1):
                        if (b, sh, h) == (P, 1, True):
                            out.add((G, 0, True, why))
                        else:
                            out.add((b, sh, h, why))  # a wrong chain stays wrong with one more row
                    return out
        raise _Top(f'list concatenation `{pf.nsrc(e)[:60]}` not recognised')
    # look-up in a per-request cache:  D.get(K) / D[K]
    key = None
    if isinstance(e, ast.Call) and isinstance(e.func, ast.Attribute) and e.func.attr == 'get' and isinstance(e.func.value, ast.Name) and len(e.args) == 1:
        dname, key = e.func.value.id, e.args[0]
    elif isinstance(e, ast.Subscript) and isinstance(e.value, ast.Name):
        dname, key = e.value.id, e.slice
    if key is not None:
        kt = pf.nsrc(key)
        stores = [n for n in pf.walk_shallow(fn) if isinstance(n, ast.Assign) and len(n.targets) == 1 and isinstance(n.targets[0], ast.Subscript) and isinstance(n.targets[0].value, ast.Name)
                  and n.targets[0].value.id == dname]
        other = [n for n in ast.walk(fn) if isinstance(n, ast.Call) and isinstance(n.func, ast.Attribute) and isinstance(n.func.value, ast.Name) and n.func.value.id == dname
                 and n.func.attr in ('update', 'setdefault', 'pop', 'clear', '__setitem__')]
        if other or not stores:
            raise _Top(f'the mapping `{dname}` is filled in a way that is not analysed')
        _need_fresh_mapping(m, fn, dname)
        out = set()
        for s_ in stores:
            sk = pf.nsrc(s_.targets[0].slice)
            for b, sh, h, why in _chains(m, fn, s_.value, G, P, depth + 1):
                # re-key the stored fact relative to the key it is stored under, then instantiate it with the key looked up
                # express the base relative to the key it is stored under (the parent parameter is parent(<group parameter>)), then instantiate
                b2 = b.replace(P, f'parent({G})') if sk == G else b
                if sk not in b2:
                    raise _Top(f'`{dname}[{sk}]` holds the chain of `{b}`')
                nb = b2.replace(sk, kt)
                where = 'was created earlier in the same request' if sk == G else 'was looked up earlier in the same request'
                out.add((nb, sh, h, f'`{kt}` {where} (entry stored by `{pf.nsrc(s_)[:70]}`)'))
        return out
    raise _Top(f'expression `{pf.nsrc(e)[:60]}` not recognised')


def _need_fresh_mapping(m: pf.Module, fn: pf.FuncDef, dname: str) -> None:
    """The mapping is local, or a parameter that every caller in the module binds to a local `{}` it does not fill itself."""
    params = {a.arg for a in fn.args.args + fn.args.kwonlyargs + fn.args.posonlyargs}
    if dname not in params:
        return
    for node in ast.walk(m.tree):
        if isinstance(node, ast.Call) and pf.call_name(node) == fn.name:
            kw = [k for k in node.keywords if k.arg == dname]
            if not kw:
                continue
            caller = m.enclosing_func(node)
            v = kw[0].value
            if caller is None or not isinstance(v, ast.Name):
                raise _Top(f'caller passes `{pf.nsrc(v)}` as {dname}')
            d = pf.single_def(caller, v.id)
            if not (isinstance(d, ast.Dict) and not d.keys):
                raise _Top(f'caller\'s `{v.id}` is not a fresh empty dict')
            if any(isinstance(n, ast.Assign) and any(isinstance(t, ast.Subscript) and isinstance(t.value, ast.Name) and t.value.id == v.id for t in n.targets) for n in ast.walk(caller)):
                raise _Top(f'caller fills `{v.id}` itself')
