"""Facts about the job graph and the job-group bookkeeping (helpers of C05 / C06).

Part 1 - a micro-world interpreter for stored routines.  A handful of tables (jobs, job_parents, job_groups, the tally table, the
          closure table ...) are given a few concrete rows; the *extracted* routine body is interpreted statement by statement over
          them (multi-table UPDATE with joins / derived tables, SELECT .. INTO, cursors, IF / LOOP / CALL, transactions).  Everything
          the model does not determine (unmodelled tables, columns, functions) evaluates to UNKNOWN; a decision that would depend on
          UNKNOWN raises AnalysisError (the caller declines).  Nothing is sent to a database: this is our own evaluator over the
          syntax tree, on a finite domain, so the verdict concerns the COMPOSITE effect of a routine and is insensitive to how the
          effect is split over statements, helper procedures, guards or join shapes.
Part 2 - who-may-write / shape analysis of `job_group_self_and_ancestors` (the closure table every roll-up trusts) and of the staged
          job counts, on the Python side.
"""
from __future__ import annotations

import ast
import copy
from typing import Any, Callable, Dict, Iterable, List, Optional, Sequence, Set, Tuple

from . import pyfacts as pf
from . import sqlfront as sf
from .common import AnalysisError
from .sqlast import N, text
from .sqleval import Unbound, _truth, ev

# ======================================================================================
# Part 1: micro-world interpreter
# ======================================================================================


class _Unknown:
    def __repr__(self) -> str:
        return 'UNKNOWN'


UNK = _Unknown()


class Undecided(Exception):
    """Evaluation needs a value the model does not determine."""


class _Leave(Exception):
    def __init__(self, label: str):
        self.label = label.lower()


class _Iterate(Exception):
    def __init__(self, label: str):
        self.label = label.lower()


class _Abort(Exception):
    """SIGNAL: the statement fails, the open transaction is rolled back by the caller."""


AGGS = ('SUM', 'COUNT', 'MAX', 'MIN')


class Bind:
    """One table reference bound to one row (None = NULL-extended by an outer join; opaque = unmodelled table)."""

    __slots__ = ('alias', 'table', 'row', 'opaque', 'cols')

    def __init__(self, alias: str, table: Optional[str], row: Optional[Dict[str, Any]], cols: Sequence[str], opaque: bool = False):
        self.alias = alias
        self.table = table
        self.row = row
        self.opaque = opaque
        self.cols = list(cols)

    def has_col(self, name: str) -> Optional[bool]:
        if self.opaque and not self.cols:
            return None  # unknown schema
        return name in self.cols

    def value(self, name: str) -> Any:
        if self.opaque:
            raise Undecided(f'{self.alias}.{name} (table not modelled)')
        if self.row is None:
            return None
        if name in self.row:
            v = self.row[name]
            if v is UNK:
                raise Undecided(f'{self.alias}.{name}')
            return v
        if name in self.cols:
            raise Undecided(f'{self.alias}.{name} (column not modelled)')
        raise AnalysisError(f'unknown column {self.alias}.{name}')


class World:
    def __init__(self, schema: Dict[str, List[str]], rows: Dict[str, List[Dict[str, Any]]]):
        self.schema = {t.lower(): [c.lower() for c in cs] for t, cs in schema.items()}
        self.rows = {t.lower(): [dict(r) for r in rs] for t, rs in rows.items()}

    def clone(self) -> 'World':
        return World(self.schema, self.rows)

    def snapshot(self) -> Dict[str, List[Dict[str, Any]]]:
        return {t: [dict(r) for r in rs] for t, rs in self.rows.items()}

    def restore(self, snap: Dict[str, List[Dict[str, Any]]]) -> None:
        # in place: Bind objects of running cursors never outlive a statement, so replacing the lists is safe
        self.rows = {t: [dict(r) for r in rs] for t, rs in snap.items()}

    def modelled(self, table: str) -> bool:
        return table.lower() in self.rows

    def cols_of(self, table: str) -> List[str]:
        t = table.lower()
        cs = list(self.schema.get(t, []))
        for r in self.rows.get(t, [])[:1]:
            for c in r:
                if c not in cs:
                    cs.append(c)
        return cs


class Frame:
    def __init__(self, routine: str):
        self.routine = routine
        self.vars: Dict[str, Any] = {}
        self.cursors: Dict[str, Dict[str, Any]] = {}
        self.handlers: List[N] = []


Scopes = List[List[Bind]]


_STATIC: Dict[Tuple, Any] = {}  # facts about (immutable, cached) syntax trees, keyed by node identity and the set of modelled tables


class Interp:
    """Interprets effective routines of `prog` over `world`.  `log` receives (routine, statement, rows written) for every UPDATE of
    a modelled table, so that a report can name the statements that produced an effect."""

    MAX_ITER = 64

    def __init__(self, prog: sf.SqlProgram, world: World, max_call_depth: int = 3):
        self.prog = prog
        self.world = world
        self.max_call_depth = max_call_depth
        self.uvars: Dict[str, Any] = {}
        self.txn_snapshot = world.snapshot()
        self.writes: List[Tuple[str, N, str, int]] = []  # (routine, statement, table, n rows)
        self._wkey = tuple(sorted(world.rows))

    # -- expressions -----------------------------------------------------------------
    def _lookup(self, n: N, scopes: Scopes, frame: Optional[Frame]) -> Any:
        if n.kind == 'uvar':
            v = self.uvars.get(n.name.lower(), None)
            if v is UNK:
                raise Undecided('@' + n.name)
            return v
        if n.kind != 'col':
            raise Undecided(text(n))
        parts = [p.lower().strip('`') for p in n.parts]
        if len(parts) == 1:
            name = parts[0]
            if frame is not None and name in frame.vars:
                v = frame.vars[name]
                if v is UNK:
                    raise Undecided(name)
                return v
            for level in scopes:
                cands = [b for b in level if b.has_col(name)]
                maybe = [b for b in level if b.has_col(name) is None]
                if maybe:
                    raise Undecided(f'{name} (could belong to unmodelled table {maybe[0].alias})')
                if len(cands) == 1:
                    return cands[0].value(name)
                if len(cands) > 1:
                    raise AnalysisError(f'ambiguous column {name}')
            raise AnalysisError(f'identifier `{name}` is neither a variable nor a column in scope')
        q, name = parts[-2], parts[-1]
        for level in scopes:
            for b in level:
                if b.alias == q:
                    return b.value(name)
        raise AnalysisError(f'unknown qualifier in `{text(n)}`')

    def E(self, e: N, scopes: Scopes, frame: Optional[Frame]) -> Any:
        """Value of an expression; raises Undecided."""
        hs = e.__dict__.get('_jg_has_sub')
        if hs is None:
            hs = any(x.kind in ('subq', 'exists') for x in e.walk())
            e.__dict__['_jg_has_sub'] = hs
        if hs:
            e = self._expand_subqueries(e, scopes, frame)
        try:
            return ev(e, lambda n: self._lookup(n, scopes, frame))
        except Unbound as u:
            raise Undecided(str(u)) from u

    def _expand_subqueries(self, e: N, scopes: Scopes, frame: Optional[Frame]) -> N:
        def repl(n: N) -> Optional[N]:
            if n.kind == 'subq':
                rows = self.run_select(n.select, scopes, frame)
                return N('lit_rows', values=[next(iter(r.values())) if r else None for r in rows])
            if n.kind == 'exists':
                return N('lit', value=1 if self.run_select(n.select, scopes, frame) else 0)
            if n.kind == 'in' and isinstance(n.items, N) and n.items.kind == 'lit_rows':
                return N('in', arg=n.arg, items=[N('lit', value=v) for v in n.items.values], negated=n.negated)
            return None

        out = sf.subst(e, repl)

        def scalar(n: N) -> Optional[N]:
            if n.kind == 'lit_rows':
                if len(n.values) > 1:
                    raise AnalysisError('scalar subquery returns more than one row in the model')
                return N('lit', value=n.values[0] if n.values else None)
            return None
        return sf.subst(out, scalar)

    def truthy(self, e: Optional[N], scopes: Scopes, frame: Optional[Frame]) -> bool:
        if e is None:
            return True
        return bool(_truth(self.E(e, scopes, frame)))

    # -- FROM ------------------------------------------------------------------------
    def _ref_rows(self, ref: N, outer: Scopes, frame: Optional[Frame]) -> List[List[Bind]]:
        if ref.kind == 'table':
            name = ref.name.lower().strip('`')
            alias = (ref.alias or ref.name).lower().strip('`')
            if self.world.modelled(name):
                cols = self.world.cols_of(name)
                return [[Bind(alias, name, r, cols)] for r in self.world.rows[name]]
            return [[Bind(alias, name, None, self.world.schema.get(name, []), opaque=True)]]
        if ref.kind == 'derived':
            if getattr(ref, 'lateral', False):
                raise AnalysisError('LATERAL derived table')
            rows = self.run_select(ref.select, [], frame)
            names = self._select_names(ref.select)
            return [[Bind(ref.alias.lower(), None, r, names)] for r in rows]
        if ref.kind == 'from':
            return self.combos(ref, outer, frame)
        raise AnalysisError(f'table reference kind {ref.kind}')

    def _null_binds(self, ref: N) -> List[Bind]:
        if ref.kind == 'table':
            name = ref.name.lower().strip('`')
            alias = (ref.alias or ref.name).lower().strip('`')
            return [Bind(alias, name, None, self.world.cols_of(name))]
        if ref.kind == 'derived':
            return [Bind(ref.alias.lower(), None, None, self._select_names(ref.select))]
        if ref.kind == 'from':
            out = self._null_binds(ref.first)
            for j in ref.joins:
                out += self._null_binds(j.ref)
            return out
        raise AnalysisError(f'table reference kind {ref.kind}')

    def combos(self, frm: Optional[N], outer: Scopes, frame: Optional[Frame], allow_opaque_left: bool = False) -> List[List[Bind]]:
        if frm is None:
            return [[]]
        out = self._ref_rows(frm.first, outer, frame)
        for j in frm.joins:
            if getattr(j, 'using', None):
                raise AnalysisError('JOIN ... USING')
            right = self._ref_rows(j.ref, outer, frame)
            opaque = any(b.opaque for r in right for b in r)
            new: List[List[Bind]] = []
            if opaque:
                # an unmodelled table: acceptable only as the optional side of a LEFT JOIN in an UPDATE (its columns are never
                # read by the model; at most one matching row is assumed, the row multiplicity of the left side is unchanged)
                if not (allow_opaque_left and j.jtype == 'LEFT'):
                    raise Undecided(f'join with unmodelled table {text(j.ref)[:40]}')
                for c in out:
                    new.append(c + right[0])
                out = new
                continue
            if j.jtype not in ('INNER', 'LEFT', 'CROSS'):
                raise AnalysisError(f'{j.jtype} JOIN')
            for c in out:
                matched = []
                for r in right:
                    cand = c + r
                    if j.on is None or self.truthy(j.on, [cand] + outer, frame):
                        matched.append(cand)
                if j.jtype == 'LEFT' and not matched:
                    matched = [c + self._null_binds(j.ref)]
                new += matched
            out = new
        return out

    # -- SELECT ----------------------------------------------------------------------
    @staticmethod
    def _select_names(sel: N) -> List[str]:
        out = []
        for c, a in sel.cols:
            if a:
                out.append(a.lower().strip('`'))
            elif c.kind == 'col':
                out.append(c.parts[-1].lower().strip('`'))
            else:
                out.append(text(c).lower())
        return out

    def _has_agg(self, e: N) -> bool:
        ha = e.__dict__.get('_jg_has_agg')
        if ha is None:
            ha = any(x.kind == 'func' and x.name in AGGS and not getattr(x, 'over', None) for x in e.walk())
            e.__dict__['_jg_has_agg'] = ha
        return ha

    def _eval_group(self, e: N, group: List[List[Bind]], template: List[Bind], outer: Scopes, frame: Optional[Frame]) -> Any:
        def repl(n: N) -> Optional[N]:
            if n.kind == 'func' and n.name in AGGS:
                if n.name == 'COUNT' and n.args and n.args[0].kind == 'star':
                    return N('lit', value=len(group))
                if len(n.args) != 1:
                    raise AnalysisError(f'aggregate {text(n)[:40]}')
                vals = [self.E(n.args[0], [g] + outer, frame) for g in group]
                vals = [int(v) if isinstance(v, bool) else v for v in vals if v is not None]
                if getattr(n, 'distinct', False):
                    vals = list(dict.fromkeys(vals))
                if n.name == 'COUNT':
                    return N('lit', value=len(vals))
                if not vals:
                    return N('lit', value=None)
                return N('lit', value={'SUM': sum, 'MAX': max, 'MIN': min}[n.name](vals))
            return None
        e2 = sf.subst(e, repl)
        first = group[0] if group else template
        return self.E(e2, [first] + outer, frame)

    def run_select(self, sel: N, outer: Scopes, frame: Optional[Frame]) -> List[Dict[str, Any]]:
        if getattr(sel, 'union', None) or getattr(sel, 'ctes', None):
            raise AnalysisError('UNION / WITH in a modelled select')
        if sel.having is not None:
            raise AnalysisError('HAVING in a modelled select')
        combos = self.combos(sel.frm, outer, frame)
        combos = [c for c in combos if self.truthy(sel.where, [c] + outer, frame)]
        names = self._select_names(sel)
        if any(c.kind == 'star' for c, _ in sel.cols):
            raise AnalysisError('SELECT * in a modelled select')
        rows: List[Tuple[Dict[str, Any], List[Bind]]] = []
        if sel.group or any(self._has_agg(c) for c, _ in sel.cols):
            groups: Dict[Tuple, List[List[Bind]]] = {}
            if sel.group:
                for c in combos:
                    key = tuple(self.E(g, [c] + outer, frame) for g in sel.group)
                    groups.setdefault(key, []).append(c)
            else:
                groups[()] = combos
            template = self._null_binds(sel.frm) if sel.frm is not None else []
            for g in groups.values():
                rows.append(({n: self._cell(lambda c=c, g=g: self._eval_group(c, g, template, outer, frame)) for n, (c, _) in zip(names, sel.cols)}, g[0] if g else template))
        else:
            for cb in combos:
                rows.append(({n: self._cell(lambda c=c, cb=cb: self.E(c, [cb] + outer, frame)) for n, (c, _) in zip(names, sel.cols)}, cb))
        if sel.order and (sel.limit is not None or len(rows) > 1):
            def key(item):
                r, cb = item
                ks = []
                for e, d in sel.order:
                    if e.kind == 'col' and e.parts[-1].lower() in r and len(e.parts) == 1:
                        v = r[e.parts[-1].lower()]
                    else:
                        v = self.E(e, [cb] + outer, frame)
                    if v is UNK:
                        raise Undecided('ORDER BY key')
                    ks.append((v is not None, v if not isinstance(v, bool) else int(v), d))
                return ks
            keyed = [(key(it), it) for it in rows]
            for i in reversed(range(len(sel.order))):
                desc = (sel.order[i][1] or 'ASC').upper() == 'DESC'
                keyed.sort(key=lambda kv: (kv[0][i][0], kv[0][i][1] if kv[0][i][0] else 0), reverse=desc)
            rows = [it for _, it in keyed]
        out = [r for r, _ in rows]
        if sel.distinct:
            seen = []
            for r in out:
                if r not in seen:
                    seen.append(r)
            out = seen
        if sel.limit is not None:
            off = int(self.E(sel.offset, outer, frame)) if getattr(sel, 'offset', None) is not None else 0
            out = out[off:off + int(self.E(sel.limit, outer, frame))]
        return out

    @staticmethod
    def _cell(f: Callable[[], Any]) -> Any:
        try:
            return f()
        except Undecided:
            return UNK

    # -- UPDATE ----------------------------------------------------------------------
    def _tables_of(self, frm: Optional[N]) -> List[str]:
        return [t.name.lower().strip('`') for t in sf.from_tables(frm) if t.kind == 'table']

    def _mentions_modelled(self, node: Any) -> bool:
        if isinstance(node, (list, tuple)):
            return any(self._mentions_modelled(x) for x in node)
        if not isinstance(node, N):
            return False
        key = ('m', id(node), self._wkey)
        r = _STATIC.get(key)
        if r is None:
            r = any(x.kind == 'table' and self.world.modelled(x.name.strip('`')) for x in node.walk())
            _STATIC[key] = r
        return r

    def _written_modelled(self, st: N) -> List[str]:
        key = ('w', id(st), self._wkey)
        r = _STATIC.get(key)
        if r is None:
            r = [t.lower().strip('`') for t, _ in sf.written_tables(st) if self.world.modelled(t.strip('`'))]
            _STATIC[key] = r
        return r

    def exec_update(self, st: N, frame: Frame) -> None:
        if st.limit is not None or getattr(st, 'clause_holes', None):
            raise AnalysisError('UPDATE with LIMIT on a modelled table')
        combos = self.combos(st.frm, [], frame, allow_opaque_left=True)
        combos = [c for c in combos if self.truthy(st.where, [c], frame)]
        done: Dict[int, int] = {}
        counts: Dict[str, int] = {}
        for ci, cb in enumerate(combos):
            real = [b for b in cb if b.table is not None]
            touched: List[Bind] = []
            for c, v in st.sets:
                if c.kind != 'col':
                    raise AnalysisError(f'UPDATE target {text(c)}')
                parts = [p.lower().strip('`') for p in c.parts]
                if len(parts) > 1:
                    tb = [b for b in real if b.alias == parts[-2]]
                else:
                    tb = [b for b in real if b.has_col(parts[-1])]
                    if len(tb) != 1 and len(real) == 1:
                        tb = real
                if len(tb) != 1:
                    raise AnalysisError(f'cannot resolve UPDATE target {text(c)}')
                b = tb[0]
                if b.opaque or not self.world.modelled(b.table or ''):
                    continue
                if b.row is None:
                    continue
                if id(b.row) in done and done[id(b.row)] != ci:
                    raise AnalysisError(f'a row of {b.table} is matched by more than one joined row in `{text(st)[:60]}`: the outcome depends on the execution plan')
                try:
                    val = self.E(v, [cb], frame)
                except Undecided:
                    val = UNK
                b.row[parts[-1]] = val
                if b not in touched:
                    touched.append(b)
            for b in touched:
                done[id(b.row)] = ci
                counts[b.table or ''] = counts.get(b.table or '', 0) + 1
        for t in self._written_modelled(st):
            self.writes.append((frame.routine, st, t, counts.get(t, 0)))

    # -- statements ------------------------------------------------------------------
    def _effectful(self, stmts: Sequence[N], depth: int = 0) -> bool:
        """Could executing these statements change a modelled table (directly, through a called routine, or by undoing the transaction)?"""
        key = ('e', id(stmts), self._wkey, depth)
        r = _STATIC.get(key)
        if r is None:
            r = self._effectful0(stmts, depth)
            if isinstance(stmts, list):
                _STATIC[key] = r
        return r

    def _effectful0(self, stmts: Sequence[N], depth: int = 0) -> bool:
        for st in sf.all_statements(stmts):
            k = st.kind
            if k in ('update', 'insert', 'delete') and self._written_modelled(st):
                return True
            if k == 'signal' or (k == 'txn' and st.what == 'ROLLBACK'):
                return True
            if k == 'call':
                r = self.prog.routines.get(st.name)
                if r is None:
                    return True
                if depth < self.max_call_depth and self._effectful(r.ast.body, depth + 1):
                    return True
        return False

    def _relevant(self, stmts: Sequence[N]) -> bool:
        """Effectful, or changes the control flow of an enclosing interpreted loop / routine."""
        if self._effectful(stmts):
            return True
        return any(st.kind in ('leave', 'iterate', 'return') for st in sf.all_statements(stmts))

    def _havoc(self, stmts: Sequence[N], frame: Frame) -> None:
        for st in sf.all_statements(stmts):
            if st.kind == 'set':
                for t, _ in st.assigns:
                    self._assign(t, UNK, frame)
            elif st.kind in ('select', 'fetch') and getattr(st, 'into', None):
                for t in st.into:
                    self._assign(t, UNK, frame)
            elif st.kind == 'call':
                r = self.prog.routines.get(st.name)
                for i, a in enumerate(st.args):
                    mode = r.ast.params[i][0] if r is not None and i < len(r.ast.params) else 'INOUT'
                    if mode != 'IN' and a.kind in ('col', 'uvar'):
                        self._assign(a, UNK, frame)

    def _assign(self, target: N, val: Any, frame: Frame) -> None:
        if target.kind == 'uvar':
            self.uvars[target.name.lower()] = val
        elif target.kind == 'col' and len(target.parts) == 1:
            frame.vars[target.parts[0].lower()] = val
        else:
            raise AnalysisError(f'assignment target {text(target)}')

    def exec_block(self, stmts: Sequence[N], frame: Frame, depth: int) -> None:
        for st in stmts:
            self.exec_stmt(st, frame, depth)

    def exec_stmt(self, st: N, frame: Frame, depth: int) -> None:
        k = st.kind
        if k == 'declare':
            for n in st.names:
                try:
                    frame.vars[n.lower()] = self.E(st.default, [], frame) if st.default is not None else None
                except Undecided:
                    frame.vars[n.lower()] = UNK
        elif k == 'declare_cursor':
            frame.cursors[st.name.lower()] = {'select': st.select, 'rows': None, 'pos': 0}
        elif k == 'declare_handler':
            frame.handlers.append(st)
        elif k == 'set':
            for t, v in st.assigns:
                try:
                    val = self.E(v, [], frame)
                except Undecided:
                    val = UNK
                self._assign(t, val, frame)
        elif k == 'select':
            self._exec_select(st, frame)
        elif k == 'update':
            if self._written_modelled(st):
                try:
                    self.exec_update(st, frame)
                except Undecided as u:
                    raise AnalysisError(f'{frame.routine}: effect of `{text(st)[:80]}` depends on {u}') from u
        elif k in ('insert', 'delete'):
            if self._written_modelled(st):
                raise AnalysisError(f'{frame.routine}: {k.upper()} on modelled table in `{text(st)[:80]}` is outside the model')
        elif k == 'if':
            self._exec_if(st, frame, depth)
        elif k == 'block':
            try:
                self.exec_block(st.body, frame, depth)
            except _Leave as l:
                if getattr(st, 'label', None) is None or l.label != st.label.lower():
                    raise
        elif k in ('loop', 'while'):
            self._exec_loop(st, frame, depth)
        elif k == 'leave':
            raise _Leave(st.label)
        elif k == 'iterate':
            raise _Iterate(st.label)
        elif k == 'open':
            c = frame.cursors.get(st.name.lower())
            if c is None:
                raise AnalysisError(f'OPEN of undeclared cursor {st.name}')
            if self._mentions_modelled(c['select']):
                try:
                    c['rows'] = self.run_select(c['select'], [], frame)
                except Undecided as u:
                    raise AnalysisError(f'{frame.routine}: cursor {st.name} depends on {u}') from u
            else:
                c['rows'] = None
            c['pos'] = 0
        elif k == 'fetch':
            self._exec_fetch(st, frame, depth)
        elif k == 'close':
            pass
        elif k == 'call':
            self._exec_call(st, frame, depth)
        elif k == 'txn':
            if st.what == 'ROLLBACK':
                self.world.restore(self.txn_snapshot)
            else:
                self.txn_snapshot = self.world.snapshot()
        elif k == 'signal':
            self.world.restore(self.txn_snapshot)
            raise _Abort()
        elif k == 'return':
            raise AnalysisError('RETURN in a modelled routine')
        elif k in ('other',):
            pass
        else:
            raise AnalysisError(f'{frame.routine}: statement kind {k} is outside the model')

    def _exec_select(self, st: N, frame: Frame) -> None:
        if not st.into:
            return
        if not self._mentions_modelled(st):
            if st.frm is None:
                for t, (c, _) in zip(st.into, st.cols):
                    try:
                        self._assign(t, self.E(c, [], frame), frame)
                    except Undecided:
                        self._assign(t, UNK, frame)
                return
            for t in st.into:
                self._assign(t, UNK, frame)
            return
        try:
            rows = self.run_select(st, [], frame)
        except Undecided:
            for t in st.into:
                self._assign(t, UNK, frame)
            return
        if len(rows) > 1:
            raise AnalysisError(f'{frame.routine}: `{text(st)[:80]}` returns {len(rows)} rows in the model')
        if not rows:
            return  # variables keep their values (NOT FOUND warning)
        names = self._select_names(st)
        if len(names) != len(st.into):
            raise AnalysisError(f'SELECT .. INTO arity in `{text(st)[:60]}`')
        for t, n in zip(st.into, names):
            self._assign(t, rows[0][n], frame)

    def _exec_if(self, st: N, frame: Frame, depth: int) -> None:
        for i, (c, body) in enumerate(st.branches):
            try:
                v = self.truthy(c, [], frame)
            except Undecided as u:
                rest = [b for _, b in st.branches[i:]] + ([st.orelse] if st.orelse is not None else [])
                if any(self._relevant(b) for b in rest):
                    raise AnalysisError(f'{frame.routine}: the guard `{text(c)[:80]}` decides whether modelled rows are written, but depends on {u}') from u
                for b in rest:
                    self._havoc(b, frame)
                return
            if v:
                self.exec_block(body, frame, depth)
                return
        if st.orelse is not None:
            self.exec_block(st.orelse, frame, depth)

    def _exec_loop(self, st: N, frame: Frame, depth: int) -> None:
        if not self._effectful(st.body):
            self._havoc(st.body, frame)
            return
        label = (getattr(st, 'label', None) or '').lower()
        for _ in range(self.MAX_ITER):
            if st.kind == 'while':
                try:
                    if not self.truthy(st.cond, [], frame):
                        return
                except Undecided as u:
                    raise AnalysisError(f'{frame.routine}: WHILE condition depends on {u}') from u
            try:
                self.exec_block(st.body, frame, depth)
            except _Leave as l:
                if l.label == label:
                    return
                raise
            except _Iterate as it:
                if it.label != label:
                    raise
        raise AnalysisError(f'{frame.routine}: loop does not terminate within {self.MAX_ITER} iterations in the model')

    def _exec_fetch(self, st: N, frame: Frame, depth: int) -> None:
        c = frame.cursors.get(st.name.lower())
        if c is None:
            raise AnalysisError(f'FETCH from undeclared cursor {st.name}')
        if c['rows'] is None:
            raise AnalysisError(f'{frame.routine}: cursor {st.name} ranges over unmodelled tables')
        if c['pos'] < len(c['rows']):
            row = c['rows'][c['pos']]
            c['pos'] += 1
            names = self._select_names(c['select'])
            if len(names) != len(st.into):
                raise AnalysisError('FETCH arity')
            for t, n in zip(st.into, names):
                self._assign(t, row[n], frame)
            return
        hs = [h for h in frame.handlers if h.condition.replace('  ', ' ') in ('NOT FOUND', "SQLSTATE '02000'")]
        if len(hs) != 1 or hs[0].action != 'CONTINUE':
            raise AnalysisError(f'{frame.routine}: FETCH past the end without a single CONTINUE HANDLER FOR NOT FOUND')
        self.exec_stmt(hs[0].stmt, frame, depth)

    def _exec_call(self, st: N, frame: Frame, depth: int) -> None:
        r = self.prog.routines.get(st.name)
        if r is None:
            raise AnalysisError(f'{frame.routine}: CALL of unknown routine {st.name}')
        a = r.ast
        if depth >= self.max_call_depth or not self._effectful(a.body):
            self._havoc([st], frame)
            return
        if len(a.params) != len(st.args):
            raise AnalysisError(f'CALL {st.name}: arity')
        sub = Frame(r.name)
        for (mode, pname, _), arg in zip(a.params, st.args):
            try:
                sub.vars[pname.lower()] = self.E(arg, [], frame) if mode != 'OUT' else None
            except Undecided:
                sub.vars[pname.lower()] = UNK
        try:
            self.exec_block(a.body, sub, depth + 1)
        except _Leave:
            raise AnalysisError(f'{r.name}: LEAVE escapes the routine body')
        for (mode, pname, _), arg in zip(a.params, st.args):
            if mode != 'IN' and arg.kind in ('col', 'uvar'):
                self._assign(arg, sub.vars.get(pname.lower(), UNK), frame)

    def call(self, name: str, args: Dict[str, Any]) -> str:
        """Run routine `name` with the given parameter values (others UNKNOWN).  Returns 'done' or 'aborted' (SIGNAL)."""
        r = self.prog.routine(name)
        a = r.ast
        fr = Frame(r.name)
        for mode, pname, _ in a.params:
            fr.vars[pname.lower()] = args.get(pname.lower(), UNK)
        self.txn_snapshot = self.world.snapshot()
        try:
            self.exec_block(a.body, fr, 0)
        except _Abort:
            return 'aborted'
        except (_Leave, _Iterate):
            raise AnalysisError(f'{name}: LEAVE / ITERATE escapes the routine body')
        return 'done'


def routine_params(prog: sf.SqlProgram, name: str) -> List[str]:
    return [p[1].lower() for p in prog.routine(name).ast.params]


def full_schema(prog: sf.SqlProgram) -> Dict[str, List[str]]:
    return {t.lower(): [c.lower() for c in cs] for t, cs in prog.tables.items()}


def need_no_trigger_feedback(prog: sf.SqlProgram, tables: Iterable[str]) -> None:
    """The micro-world does not fire triggers: decline if a trigger on a modelled table itself writes a modelled table."""
    ts = {t.lower() for t in tables}
    for r in prog.routines.values():
        if r.kind != 'trigger':
            continue
        a = r.ast
        if a.table.lower() not in ts:
            continue
        for st in sf.all_statements(a.body):
            for t, _ in sf.written_tables(st):
                if t.lower() in ts:
                    raise AnalysisError(f'trigger {r.name} on {a.table} writes {t}: the model of the routine effects does not cover trigger feedback')
            if st.kind == 'set':
                for tg, _ in st.assigns:
                    if tg.kind == 'col' and len(tg.parts) == 2 and tg.parts[0].upper() == 'NEW':
                        raise AnalysisError(f'trigger {r.name} rewrites NEW.{tg.parts[1]} of {a.table}: outside the model')
            if st.kind == 'call':
                cal = prog.routines.get(st.name)
                if cal is None or any(t.lower() in ts for s2 in sf.all_statements(cal.ast.body) for t, _ in sf.written_tables(s2)):
                    raise AnalysisError(f'trigger {r.name} calls {st.name}, which may write modelled tables')


def jobs_writers(it: 'Interp', table: str) -> List[str]:
    """Canonical text (shortened) of the statements that wrote `table` during the last run, in order, without repeats."""
    out: List[str] = []
    for _, st, t, n in it.writes:
        if t == table:
            s = text(st)[:70]
            if s not in out:
                out.append(s)
    return out
