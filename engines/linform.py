"""Linear normal forms of small integer expressions taken from a Python syntax tree.

    lin(e)            ->  Lin  =  sum(c_i * x_i) + c      over named symbols x_i
    same(a, b)        ->  bool (a - b == 0 identically)
    cmp_le0(compare)  ->  Lin L such that, over the integers,   compare  <=>  L <= 0

Symbols: names, dotted attribute chains, subscripts, and calls of a few pure functions (`len`, `bool`, `int`,
`abs`, `min`, `max`, attribute calls without arguments) - each keyed by its normalised source text.  `env` maps a
symbol text to an expression (or a Lin) that is substituted for it (def-use inlining done by the caller).
Anything non-linear raises AnalysisError: the caller cannot decide, it must not alarm.

Nothing is evaluated or imported; the only arithmetic is on the literal integer coefficients.
"""
from __future__ import annotations

import ast
from fractions import Fraction
from typing import Dict, Mapping, Optional, Union

from .common import AnalysisError, norm

Num = Union[int, Fraction]
PURE_CALLS = ('len', 'bool', 'int', 'abs', 'min', 'max')


class Lin:
    __slots__ = ('coef', 'const')

    def __init__(self, coef: Optional[Mapping[str, Num]] = None, const: Num = 0):
        self.coef: Dict[str, Num] = {k: v for k, v in (coef or {}).items() if v != 0}
        self.const: Num = const

    # -- algebra ------------------------------------------------------
    def __add__(self, o: 'Lin') -> 'Lin':
        c = dict(self.coef)
        for k, v in o.coef.items():
            c[k] = c.get(k, 0) + v
        return Lin(c, self.const + o.const)

    def scale(self, k: Num) -> 'Lin':
        return Lin({s: v * k for s, v in self.coef.items()}, self.const * k)

    def __neg__(self) -> 'Lin':
        return self.scale(-1)

    def __sub__(self, o: 'Lin') -> 'Lin':
        return self + (-o)

    def __eq__(self, o: object) -> bool:
        return isinstance(o, Lin) and self.coef == o.coef and self.const == o.const

    def __hash__(self) -> int:  # pragma: no cover - Lin is not used as a key
        return hash((tuple(sorted(self.coef.items())), self.const))

    def is_const(self) -> bool:
        return not self.coef

    def symbols(self):
        return sorted(self.coef)

    def __repr__(self) -> str:
        parts = []
        for s in sorted(self.coef):
            c = self.coef[s]
            if c == 1:
                parts.append(f'+ {s}')
            elif c == -1:
                parts.append(f'- {s}')
            else:
                parts.append(f'{"+" if c > 0 else "-"} {abs(c)}*{s}')
        if self.const != 0 or not parts:
            parts.append(f'{"+" if self.const >= 0 else "-"} {abs(self.const)}')
        t = ' '.join(parts)
        return t[2:] if t.startswith('+ ') else t


def sym(name: str) -> Lin:
    return Lin({name: 1}, 0)


def const(c: Num) -> Lin:
    return Lin({}, c)


def _key(e: ast.AST) -> str:
    return norm(ast.unparse(e))


def _subst(key: str, env: Optional[Mapping[str, Union[ast.AST, Lin]]], depth: int) -> Optional[Lin]:
    if env is None or key not in env:
        return None
    if depth <= 0:
        raise AnalysisError(f'linform: substitution of {key} does not terminate')
    v = env[key]
    if isinstance(v, Lin):
        return v
    return lin(v, env, depth - 1)


def lin(e: ast.AST, env: Optional[Mapping[str, Union[ast.AST, Lin]]] = None, depth: int = 6) -> Lin:
    """Linear normal form of an integer expression (AnalysisError when it is not linear)."""
    if isinstance(e, ast.Constant):
        if isinstance(e.value, bool):
            return const(int(e.value))
        if isinstance(e.value, int):
            return const(e.value)
        raise AnalysisError(f'linform: non-integer literal {e.value!r}')
    if isinstance(e, (ast.Name, ast.Attribute, ast.Subscript)):
        k = _key(e)
        s = _subst(k, env, depth)
        return s if s is not None else sym(k)
    if isinstance(e, ast.UnaryOp):
        if isinstance(e.op, ast.USub):
            return -lin(e.operand, env, depth)
        if isinstance(e.op, ast.UAdd):
            return lin(e.operand, env, depth)
        raise AnalysisError(f'linform: unsupported unary operator in {_key(e)}')
    if isinstance(e, ast.BinOp):
        if isinstance(e.op, ast.Add):
            return lin(e.left, env, depth) + lin(e.right, env, depth)
        if isinstance(e.op, ast.Sub):
            return lin(e.left, env, depth) - lin(e.right, env, depth)
        if isinstance(e.op, ast.Mult):
            a, b = lin(e.left, env, depth), lin(e.right, env, depth)
            if a.is_const():
                return b.scale(a.const)
            if b.is_const():
                return a.scale(b.const)
            raise AnalysisError(f'linform: product of two non-constant terms in {_key(e)}')
        if isinstance(e.op, (ast.Div, ast.FloorDiv)):
            a, b = lin(e.left, env, depth), lin(e.right, env, depth)
            if b.is_const() and b.const != 0:
                q = a.scale(Fraction(1, 1) / Fraction(b.const))
                if isinstance(e.op, ast.FloorDiv) and any(Fraction(v).denominator != 1 for v in list(q.coef.values()) + [q.const]):
                    raise AnalysisError(f'linform: inexact floor division in {_key(e)}')
                return q
            raise AnalysisError(f'linform: division by a non-constant in {_key(e)}')
        raise AnalysisError(f'linform: unsupported operator {type(e.op).__name__} in {_key(e)}')
    if isinstance(e, ast.Call):
        fname = _key(e.func)
        simple = isinstance(e.func, ast.Name) and fname in PURE_CALLS
        getter = isinstance(e.func, ast.Attribute) and not e.args and not e.keywords
        if (simple or getter) and not any(isinstance(a, ast.Starred) for a in e.args):
            k = _key(e)
            s = _subst(k, env, depth)
            return s if s is not None else sym(k)
        raise AnalysisError(f'linform: call {_key(e)} is not a recognised pure symbol')
    if isinstance(e, ast.IfExp):
        a, b = lin(e.body, env, depth), lin(e.orelse, env, depth)
        if a == b:
            return a
    raise AnalysisError(f'linform: unsupported expression {_key(e)}')


def same(a: ast.AST, b: ast.AST, env: Optional[Mapping[str, Union[ast.AST, Lin]]] = None) -> bool:
    return lin(a, env) == lin(b, env)


def cmp_le0(c: ast.AST, env: Optional[Mapping[str, Union[ast.AST, Lin]]] = None) -> Lin:
    """For an integer comparison `a OP b` (OP in < <= > >=) return L with  (a OP b)  <=>  (L <= 0)."""
    if isinstance(c, ast.UnaryOp) and isinstance(c.op, ast.Not):
        # not (L <= 0)  <=>  L >= 1  <=>  1 - L <= 0
        return const(1) - cmp_le0(c.operand, env)
    if not (isinstance(c, ast.Compare) and len(c.ops) == 1):
        raise AnalysisError(f'linform: not a single comparison: {_key(c)}')
    a, b = lin(c.left, env), lin(c.comparators[0], env)
    op = c.ops[0]
    if isinstance(op, ast.LtE):
        return a - b
    if isinstance(op, ast.Lt):
        return a - b + const(1)
    if isinstance(op, ast.GtE):
        return b - a
    if isinstance(op, ast.Gt):
        return b - a + const(1)
    raise AnalysisError(f'linform: comparison operator {type(op).__name__} has no `<= 0` form')
