"""minipy: a small *concrete* interpreter for a Python subset, over syntax trees loaded with engines/pyfacts.

Purpose: enumerate a finite decision table of repository control code (which error class / which destination path for each
combination of a handful of inputs) with OUR evaluator instead of running the code.  Repository modules are parsed with
`ast`, never imported; every library / file-system call the interpreted code makes is answered by a model the caller
supplies (`externals`, `ExtObj` method tables, `stubs`).  Anything outside the supported subset raises `Unsupported`
(an AnalysisError): the caller declines, it never alarms.

Coroutines are modelled with Python generators: `await` of a repository coroutine is `yield from`; the only suspension
points are the modelled events (`asyncio.Event.wait` while the event is not set), which `yield` to the modelled scheduler
(`asyncio.gather`: round-robin until every child finished; no progress in a full round = the children wait for each
other for ever -> Raised(Deadlock)).

Supported: module/class/def lookup through relative imports, closures (nonlocal), instances with attributes, bound /
static methods, default / keyword / star arguments, if / for / async for / while-free bodies, try / except / else / finally,
raise / re-raise, assert, return, tuples / lists / dicts, comparisons, boolean operators, string methods from a whitelist,
slicing, f-strings, list comprehensions, functools.partial.
"""
from __future__ import annotations

import ast
import os
from typing import Any, Callable, Dict, Iterator, List, Optional, Tuple

from . import pyfacts as pf
from .common import AnalysisError, repo_path


class Unsupported(AnalysisError):
    pass


# ------------------------------------------------------------------------------------------------
# values
# ------------------------------------------------------------------------------------------------

EXC_BASE: Dict[str, Optional[str]] = {
    'BaseException': None, 'Exception': 'BaseException', 'OSError': 'Exception', 'FileNotFoundError': 'OSError',
    'IsADirectoryError': 'OSError', 'NotADirectoryError': 'OSError', 'FileExistsError': 'OSError', 'PermissionError': 'OSError',
    'TimeoutError': 'OSError', 'ValueError': 'Exception', 'TypeError': 'Exception', 'KeyError': 'Exception', 'IndexError': 'Exception',
    'AssertionError': 'Exception', 'RuntimeError': 'Exception', 'NotImplementedError': 'RuntimeError', 'StopAsyncIteration': 'Exception',
    'asyncio.TimeoutError': 'TimeoutError', 'asyncio.CancelledError': 'BaseException', 'Deadlock': 'BaseException',
}


class ExcClass:
    def __init__(self, name: str):
        self.name = name

    def __repr__(self) -> str:
        return f'<exc-class {self.name}>'


class ExcV:
    def __init__(self, cls: ExcClass, args: tuple):
        self.cls = cls
        self.args = args

    def __repr__(self) -> str:
        return f'{self.cls.name}{self.args!r}'


class Raised(Exception):
    """An exception raised by interpreted code."""

    def __init__(self, value: ExcV):
        super().__init__(repr(value))
        self.value = value


def exc_is(name: str, ancestor: str) -> bool:
    cur: Optional[str] = name
    seen = 0
    while cur is not None and seen < 20:
        if cur == ancestor:
            return True
        cur = EXC_BASE.get(cur)
        seen += 1
    return False


class ClassV:
    def __init__(self, name: str, node: ast.ClassDef, module: pf.Module):
        self.name = name
        self.node = node
        self.module = module
        self.consts: Dict[str, Any] = {}

    def __repr__(self) -> str:
        return f'<class {self.name}>'


class Obj:
    def __init__(self, cls: ClassV):
        self.cls = cls
        self.attrs: Dict[str, Any] = {}

    def __repr__(self) -> str:
        return f'<{self.cls.name} object>'


class ExtObj:
    """An object of the modelled environment: free-form attributes, methods from a table `name -> f(interp, self, args, kwargs)`."""

    def __init__(self, kind: str, methods: Optional[Dict[str, Callable]] = None, **attrs: Any):
        self.kind = kind
        self.methods = methods or {}
        self.attrs: Dict[str, Any] = dict(attrs)
        self.isa: Tuple[str, ...] = (kind,)
        self.permissive = False  # unknown method calls return None (reports / listeners)

    def __repr__(self) -> str:
        return f'<ext {self.kind}>'


class FuncV:
    def __init__(self, node: pf.FuncDef, module: pf.Module, closure: Optional['Scope'], self_obj: Any = None, qual: str = ''):
        self.node = node
        self.module = module
        self.closure = closure
        self.self_obj = self_obj
        self.qual = qual or node.name
        self.is_async = isinstance(node, ast.AsyncFunctionDef)
        self.cls: Optional[ClassV] = None  # defining class: parameter defaults are evaluated in its scope

    def __repr__(self) -> str:
        return f'<function {self.qual}>'


class ExtFn:
    def __init__(self, name: str, fn: Callable):
        self.name = name
        self.fn = fn  # fn(interp, args, kwargs) -> value (a CoroV for modelled coroutines)

    def __repr__(self) -> str:
        return f'<external {self.name}>'


class PartialV:
    def __init__(self, fn: Any, args: list, kwargs: dict):
        self.fn = fn
        self.args = args
        self.kwargs = kwargs


class CoroV:
    def __init__(self, name: str, start: Callable[[], Iterator]):
        self.name = name
        self.start = start
        self.started = False

    def run(self) -> Iterator:
        if self.started:
            raise Unsupported(f'coroutine {self.name} awaited twice')
        self.started = True
        return self.start()


class TaskV:
    def __init__(self, result: Any = None, exc: Optional[Raised] = None):
        self.result = result
        self.exc = exc


class EventV:
    def __init__(self):
        self.flag = False


class ModuleRef:
    def __init__(self, name: str):
        self.name = name


class AsyncIterV:
    def __init__(self, items: list):
        self.items = list(items)


class Scope:
    def __init__(self, parent: Optional['Scope'], module: pf.Module):
        self.vars: Dict[str, Any] = {}
        self.parent = parent
        self.module = module
        self.nonlocals: set = set()

    def find(self, name: str) -> Optional['Scope']:
        s: Optional[Scope] = self
        while s is not None:
            if name in s.vars:
                return s
            s = s.parent
        return None

    def assign(self, name: str, v: Any) -> None:
        if name in self.nonlocals and self.parent is not None:
            s = self.parent.find(name)
            if s is None:
                raise Unsupported(f'nonlocal {name} not bound')
            s.vars[name] = v
        else:
            self.vars[name] = v


_MISSING = object()
STR_METHODS = ('endswith', 'startswith', 'rstrip', 'lstrip', 'strip', 'removeprefix', 'removesuffix', 'split', 'rsplit', 'lower', 'upper')
LIST_METHODS = ('append', 'extend')


class Interp:
    def __init__(self, externals: Dict[str, Callable], stubs: Optional[Dict[Tuple[str, str], Callable]] = None, max_steps: int = 200000):
        self.externals = dict(externals)
        self.stubs = stubs or {}
        self.steps = 0
        self.max_steps = max_steps
        self.current_exc: Optional[Raised] = None
        self.activity = 0  # bumped when an event is set or a coroutine finishes (deadlock detection)
        self._classes: Dict[Tuple[str, str], ClassV] = {}
        self._globals: Dict[Tuple[str, str], Any] = {}

    # ---- driving --------------------------------------------------------------------------
    def drive(self, gen: Iterator) -> Any:
        """Run a generator to completion at top level; a suspension nobody can resolve is a deadlock."""
        try:
            next(gen)
        except StopIteration as s:
            return s.value
        raise Raised(ExcV(ExcClass('Deadlock'), ('suspended for ever: waits for an event that is never set',)))

    def run_call(self, fn: Any, args: list, kwargs: Optional[dict] = None) -> Any:
        def g():
            v = yield from self.call(fn, list(args), dict(kwargs or {}))
            if isinstance(v, (CoroV, TaskV)):
                v = yield from self.await_value(v)
            return v
        return self.drive(g())

    # ---- module level ---------------------------------------------------------------------
    def class_of(self, module: pf.Module, name: str) -> ClassV:
        key = (module.rel, name)
        if key not in self._classes:
            node = None
            for st in module.tree.body:
                if isinstance(st, ast.ClassDef) and st.name == name:
                    node = st
            if node is None:
                raise Unsupported(f'class {name} not found in {module.rel}')
            self._classes[key] = ClassV(name, node, module)
        return self._classes[key]

    def _follow_import(self, module: pf.Module, level: int, modname: str, name: str, depth: int = 0) -> Any:
        if depth > 6:
            raise Unsupported(f'import chain too deep for {name}')
        base = os.path.dirname(module.rel)
        for _ in range(level - 1):
            base = os.path.dirname(base)
        parts = [p for p in modname.split('.') if p]
        cand = [os.path.join(base, *parts) + '.py', os.path.join(base, *parts, '__init__.py')] if parts else [os.path.join(base, '__init__.py')]
        # `from . import x` may also name a sub-module
        if not parts:
            cand = [os.path.join(base, '__init__.py')]
        for rel in cand:
            if os.path.exists(repo_path(rel)):
                target = pf.load(rel)
                return self.global_lookup(target, name, depth + 1)
        raise Unsupported(f'cannot resolve import of {name} from {"." * level}{modname} in {module.rel}')

    def global_lookup(self, module: pf.Module, name: str, depth: int = 0) -> Any:
        key = (module.rel, name)
        if key in self._globals:
            return self._globals[key]
        val: Any = _MISSING
        for st in module.tree.body:
            if isinstance(st, ast.ClassDef) and st.name == name:
                bases = [pf.dotted(b) for b in st.bases]
                exc_base = next((b for b in bases if b in EXC_BASE), None)
                if exc_base is not None:
                    EXC_BASE.setdefault(name, exc_base)
                    val = ExcClass(name)
                else:
                    val = self.class_of(module, name)
            elif isinstance(st, (ast.FunctionDef, ast.AsyncFunctionDef)) and st.name == name:
                val = FuncV(st, module, None, None, name)
            elif isinstance(st, ast.Assign) and len(st.targets) == 1 and isinstance(st.targets[0], ast.Name) and st.targets[0].id == name:
                val = self.drive(self.ev(st.value, Scope(None, module)))
        if val is _MISSING and name in self.externals:
            val = ExtFn(name, self.externals[name])
        if val is _MISSING:
            for st in module.tree.body:
                if isinstance(st, ast.Import):
                    for a in st.names:
                        if (a.asname or a.name.split('.')[0]) == name:
                            val = ModuleRef(a.name if a.asname else a.name.split('.')[0])
                elif isinstance(st, ast.ImportFrom):
                    for a in st.names:
                        if (a.asname or a.name) == name:
                            if st.level > 0:
                                val = self._follow_import(module, st.level, st.module or '', a.name, depth)
                            else:
                                dn = f'{st.module}.{a.name}'
                                if dn in self.externals:
                                    val = ExtFn(dn, self.externals[dn])
        if val is _MISSING and name in EXC_BASE:
            val = ExcClass(name)
        if val is _MISSING:
            raise Unsupported(f'name {name} cannot be resolved in {module.rel}')
        self._globals[key] = val
        return val

    # ---- attribute access -----------------------------------------------------------------
    def class_attr(self, cls: ClassV, attr: str, inst: Any = None) -> Any:
        if (cls.name, attr) in self.stubs:
            stub = self.stubs[(cls.name, attr)]
            return ExtFn(f'{cls.name}.{attr}', lambda it, a, k, _s=stub, _i=inst: _s(it, _i, a, k))
        for st in cls.node.body:
            if isinstance(st, (ast.FunctionDef, ast.AsyncFunctionDef)) and st.name == attr:
                static = 'staticmethod' in pf.decorator_names(st)
                fv = FuncV(st, cls.module, None, None if static else inst, f'{cls.name}.{attr}')
                fv.cls = cls
                return fv
            if isinstance(st, ast.Assign) and len(st.targets) == 1 and isinstance(st.targets[0], ast.Name) and st.targets[0].id == attr:
                if attr not in cls.consts:
                    sc = Scope(None, cls.module)
                    sc.vars.update(cls.consts)
                    cls.consts[attr] = self.drive(self.ev(st.value, sc))
                return cls.consts[attr]
            if isinstance(st, ast.AnnAssign) and isinstance(st.target, ast.Name) and st.target.id == attr and st.value is not None:
                if attr not in cls.consts:
                    cls.consts[attr] = self.drive(self.ev(st.value, Scope(None, cls.module)))
                return cls.consts[attr]
        for b in cls.node.bases:
            bn = pf.dotted(b)
            if bn and bn not in ('object', 'abc.ABC'):
                try:
                    bv = self.global_lookup(cls.module, bn.split('.')[0])
                except Unsupported:
                    continue
                if isinstance(bv, ClassV):
                    try:
                        return self.class_attr(bv, attr, inst)
                    except Unsupported:
                        pass
        raise Unsupported(f'{cls.name} has no attribute {attr}')

    def getattr(self, v: Any, attr: str) -> Any:
        if isinstance(v, Obj):
            if attr in v.attrs:
                return v.attrs[attr]
            return self.class_attr(v.cls, attr, v)
        if isinstance(v, ClassV):
            return self.class_attr(v, attr, None)
        if isinstance(v, ExtObj):
            if attr in v.attrs:
                return v.attrs[attr]
            if attr in v.methods:
                m = v.methods[attr]
                return ExtFn(f'{v.kind}.{attr}', lambda it, a, k, _m=m, _o=v: _m(it, _o, a, k))
            if v.permissive:
                return ExtFn(f'{v.kind}.{attr}', lambda it, a, k: None)
            raise Unsupported(f'modelled object {v.kind} has no attribute {attr}')
        if isinstance(v, ModuleRef):
            dn = f'{v.name}.{attr}'
            if dn in self.externals:
                return ExtFn(dn, self.externals[dn])
            if dn in EXC_BASE:
                return ExcClass(dn)
            return ModuleRef(dn)
        if isinstance(v, str) and attr in STR_METHODS:
            return ExtFn(f'str.{attr}', lambda it, a, k, _s=v, _n=attr: getattr(_s, _n)(*a, **k))
        if isinstance(v, list) and attr in LIST_METHODS:
            return ExtFn(f'list.{attr}', lambda it, a, k, _l=v, _n=attr: getattr(_l, _n)(*a, **k))
        if isinstance(v, EventV):
            if attr == 'set':
                def _set(it, a, k, _e=v):
                    _e.flag = True
                    it.activity += 1
                return ExtFn('Event.set', _set)
            if attr == 'is_set':
                return ExtFn('Event.is_set', lambda it, a, k, _e=v: _e.flag)
            if attr == 'wait':
                def _wait(it, a, k, _e=v):
                    def g():
                        while not _e.flag:
                            yield 'blocked'
                        return True
                    return CoroV('Event.wait', g)
                return ExtFn('Event.wait', _wait)
        if isinstance(v, ExcV) and attr == 'args':
            return v.args
        raise Unsupported(f'attribute {attr} of {type(v).__name__} value')

    def setattr(self, v: Any, attr: str, val: Any) -> None:
        if isinstance(v, (Obj, ExtObj)):
            v.attrs[attr] = val
        else:
            raise Unsupported(f'attribute store on {type(v).__name__}')

    # ---- calls ------------------------------------------------------------------------------
    def await_value(self, v: Any) -> Iterator:
        if isinstance(v, CoroV):
            r = yield from v.run()
            return r
        if isinstance(v, TaskV):
            if v.exc is not None:
                raise v.exc
            return v.result
        raise Unsupported(f'await of a {type(v).__name__} value')

    def call(self, fn: Any, args: list, kwargs: dict) -> Iterator:
        if isinstance(fn, ExtFn):
            return fn.fn(self, args, kwargs)
        if isinstance(fn, PartialV):
            r = yield from self.call(fn.fn, list(fn.args) + args, {**fn.kwargs, **kwargs})
            return r
        if isinstance(fn, ExcClass):
            return ExcV(fn, tuple(args))
        if isinstance(fn, ClassV):
            o = Obj(fn)
            try:
                init = self.class_attr(fn, '__init__', o)
            except Unsupported:
                init = None
            if init is not None:
                yield from self.call(init, args, kwargs)
            elif args or kwargs:
                raise Unsupported(f'{fn.name}() takes no arguments')
            return o
        if isinstance(fn, FuncV):
            scope = self._bind(fn, args, kwargs)
            if fn.is_async:
                def start(_fn=fn, _sc=scope):
                    sig = yield from self.exec_block(_fn.node.body, _sc)
                    self.activity += 1
                    return sig[1] if sig is not None and sig[0] == 'return' else None
                return CoroV(fn.qual, start)
            sig = yield from self.exec_block(fn.node.body, scope)
            return sig[1] if sig is not None and sig[0] == 'return' else None
        raise Unsupported(f'call of a {type(fn).__name__} value')
        yield  # pragma: no cover

    def _default_scope(self, fn: FuncV) -> Scope:
        sc = Scope(fn.closure, fn.module)
        if fn.cls is not None:
            for st in fn.cls.node.body:
                if isinstance(st, ast.Assign) and len(st.targets) == 1 and isinstance(st.targets[0], ast.Name):
                    try:
                        sc.vars[st.targets[0].id] = self.class_attr(fn.cls, st.targets[0].id, None)
                    except Unsupported:
                        pass
        return sc

    def _bind(self, fn: FuncV, args: list, kwargs: dict) -> Scope:
        a = fn.node.args
        scope = Scope(fn.closure, fn.module)
        pos = [x.arg for x in a.posonlyargs + a.args]
        args = list(args)
        if fn.self_obj is not None:
            args = [fn.self_obj] + args
        kwargs = dict(kwargs)
        defaults = dict(zip(pos[len(pos) - len(a.defaults):], a.defaults))
        for i, name in enumerate(pos):
            if i < len(args):
                if name in kwargs:
                    raise Unsupported(f'{fn.qual}: multiple values for {name}')
                scope.vars[name] = args[i]
            elif name in kwargs:
                scope.vars[name] = kwargs.pop(name)
            elif name in defaults:
                scope.vars[name] = self.drive(self.ev(defaults[name], self._default_scope(fn)))
            else:
                raise Raised(ExcV(ExcClass('TypeError'), (f'{fn.qual}() missing argument {name}',)))
        extra = args[len(pos):]
        if a.vararg is not None:
            scope.vars[a.vararg.arg] = tuple(extra)
        elif extra:
            raise Raised(ExcV(ExcClass('TypeError'), (f'{fn.qual}() takes {len(pos)} positional arguments but {len(args)} were given',)))
        for ka, kd in zip(a.kwonlyargs, a.kw_defaults):
            if ka.arg in kwargs:
                scope.vars[ka.arg] = kwargs.pop(ka.arg)
            elif kd is not None:
                scope.vars[ka.arg] = self.drive(self.ev(kd, self._default_scope(fn)))
            else:
                raise Raised(ExcV(ExcClass('TypeError'), (f'{fn.qual}() missing keyword argument {ka.arg}',)))
        if a.kwarg is not None:
            scope.vars[a.kwarg.arg] = kwargs
        elif kwargs:
            raise Raised(ExcV(ExcClass('TypeError'), (f'{fn.qual}() got unexpected keyword {sorted(kwargs)}',)))
        return scope

    # ---- expressions -----------------------------------------------------------------------
    def truth(self, v: Any) -> bool:
        if v is None or isinstance(v, (bool, int, str, list, tuple, dict)):
            return bool(v)
        return True

    def lookup(self, name: str, env: Scope) -> Any:
        s = env.find(name)
        if s is not None:
            return s.vars[name]
        return self.global_lookup(env.module, name)

    def ev(self, e: ast.AST, env: Scope) -> Iterator:
        if isinstance(e, ast.Constant):
            return e.value
        if isinstance(e, ast.Name):
            return self.lookup(e.id, env)
        if isinstance(e, ast.Attribute):
            v = yield from self.ev(e.value, env)
            return self.getattr(v, e.attr)
        if isinstance(e, ast.Await):
            v = yield from self.ev(e.value, env)
            r = yield from self.await_value(v)
            return r
        if isinstance(e, ast.Call):
            fn = yield from self.ev(e.func, env)
            args: list = []
            for a in e.args:
                if isinstance(a, ast.Starred):
                    seq = yield from self.ev(a.value, env)
                    if not isinstance(seq, (list, tuple)):
                        raise Unsupported('star-argument is not a list')
                    args.extend(seq)
                else:
                    args.append((yield from self.ev(a, env)))
            kwargs: dict = {}
            for k in e.keywords:
                v = yield from self.ev(k.value, env)
                if k.arg is None:
                    if not isinstance(v, dict):
                        raise Unsupported('** argument is not a dict')
                    kwargs.update(v)
                else:
                    kwargs[k.arg] = v
            r = yield from self._call_any(fn, args, kwargs)
            return r
        if isinstance(e, ast.BoolOp):
            v = None
            for x in e.values:
                v = yield from self.ev(x, env)
                if isinstance(e.op, ast.And) and not self.truth(v):
                    return v
                if isinstance(e.op, ast.Or) and self.truth(v):
                    return v
            return v
        if isinstance(e, ast.UnaryOp):
            v = yield from self.ev(e.operand, env)
            if isinstance(e.op, ast.Not):
                return not self.truth(v)
            if isinstance(e.op, ast.USub) and isinstance(v, int):
                return -v
            raise Unsupported(f'unary operator in {pf.nsrc(e)}')
        if isinstance(e, ast.Compare):
            left = yield from self.ev(e.left, env)
            for op, c in zip(e.ops, e.comparators):
                right = yield from self.ev(c, env)
                if not self._cmp(op, left, right):
                    return False
                left = right
            return True
        if isinstance(e, ast.BinOp):
            a = yield from self.ev(e.left, env)
            b = yield from self.ev(e.right, env)
            ok = (isinstance(a, int) and isinstance(b, int)) or (isinstance(a, str) and isinstance(b, str) and isinstance(e.op, ast.Add)) \
                or (isinstance(a, list) and isinstance(b, list) and isinstance(e.op, ast.Add))
            if not ok:
                raise Unsupported(f'operands of {pf.nsrc(e)}')
            if isinstance(e.op, ast.Add):
                return a + b
            if isinstance(e.op, ast.Sub):
                return a - b
            if isinstance(e.op, ast.Mult):
                return a * b
            if isinstance(e.op, ast.FloorDiv) and b != 0:
                return a // b
            raise Unsupported(f'operator in {pf.nsrc(e)}')
        if isinstance(e, ast.IfExp):
            t = yield from self.ev(e.test, env)
            r = yield from self.ev(e.body if self.truth(t) else e.orelse, env)
            return r
        if isinstance(e, (ast.Tuple, ast.List)):
            out = []
            for x in e.elts:
                if isinstance(x, ast.Starred):
                    out.extend((yield from self.ev(x.value, env)))
                else:
                    out.append((yield from self.ev(x, env)))
            return tuple(out) if isinstance(e, ast.Tuple) else out
        if isinstance(e, ast.Dict):
            d = {}
            for k, v in zip(e.keys, e.values):
                if k is None:
                    raise Unsupported('dict unpacking')
                d[(yield from self.ev(k, env))] = yield from self.ev(v, env)
            return d
        if isinstance(e, ast.Subscript):
            v = yield from self.ev(e.value, env)
            if isinstance(e.slice, ast.Slice):
                lo = (yield from self.ev(e.slice.lower, env)) if e.slice.lower is not None else None
                hi = (yield from self.ev(e.slice.upper, env)) if e.slice.upper is not None else None
                if e.slice.step is not None or not isinstance(v, (str, list, tuple)):
                    raise Unsupported(f'slice {pf.nsrc(e)}')
                return v[lo:hi]
            i = yield from self.ev(e.slice, env)
            if isinstance(v, (str, list, tuple)) and isinstance(i, int):
                if not -len(v) <= i < len(v):
                    raise Raised(ExcV(ExcClass('IndexError'), ()))
                return v[i]
            if isinstance(v, dict):
                if i not in v:
                    raise Raised(ExcV(ExcClass('KeyError'), (i,)))
                return v[i]
            raise Unsupported(f'subscript {pf.nsrc(e)}')
        if isinstance(e, ast.JoinedStr):
            parts = []
            for x in e.values:
                if isinstance(x, ast.Constant):
                    parts.append(str(x.value))
                elif isinstance(x, ast.FormattedValue):
                    parts.append(str((yield from self.ev(x.value, env))))
            return ''.join(parts)
        if isinstance(e, ast.ListComp):
            out = []
            yield from self._comp(e.elt, e.generators, 0, env, out)
            return out
        raise Unsupported(f'expression {type(e).__name__}: {pf.nsrc(e)[:80]}')

    def _comp(self, elt: ast.expr, gens: List[ast.comprehension], i: int, env: Scope, out: list) -> Iterator:
        if i == len(gens):
            out.append((yield from self.ev(elt, env)))
            return
        g = gens[i]
        if g.is_async:
            raise Unsupported('async comprehension')
        seq = yield from self.ev(g.iter, env)
        if not isinstance(seq, (list, tuple)):
            raise Unsupported('comprehension over a non-list')
        for item in seq:
            sc = Scope(env, env.module)
            self._assign_target(g.target, item, sc)
            ok = True
            for c in g.ifs:
                if not self.truth((yield from self.ev(c, sc))):
                    ok = False
                    break
            if ok:
                yield from self._comp(elt, gens, i + 1, sc, out)

    def _call_any(self, fn: Any, args: list, kwargs: dict) -> Iterator:
        r = self.call(fn, args, kwargs)
        if hasattr(r, '__next__'):
            r = yield from r
        return r

    def _cmp(self, op: ast.cmpop, a: Any, b: Any) -> bool:
        if isinstance(op, ast.Is):
            return a is b if not isinstance(a, (bool, int, str)) else (type(a) is type(b) and a == b)
        if isinstance(op, ast.IsNot):
            return not self._cmp(ast.Is(), a, b)
        if isinstance(op, ast.Eq):
            return self._eq(a, b)
        if isinstance(op, ast.NotEq):
            return not self._eq(a, b)
        if isinstance(op, (ast.In, ast.NotIn)):
            if not isinstance(b, (list, tuple, dict, str)):
                raise Unsupported('membership in a non-container')
            r = any(self._eq(a, x) for x in b) if not isinstance(b, str) else (isinstance(a, str) and a in b)
            return r if isinstance(op, ast.In) else not r
        if isinstance(a, (int, str)) and type(a) is type(b) or (isinstance(a, int) and isinstance(b, int)):
            if isinstance(op, ast.Lt):
                return a < b
            if isinstance(op, ast.LtE):
                return a <= b
            if isinstance(op, ast.Gt):
                return a > b
            if isinstance(op, ast.GtE):
                return a >= b
        raise Unsupported('comparison of unsupported values')

    @staticmethod
    def _eq(a: Any, b: Any) -> bool:
        simple = (type(None), bool, int, str, tuple, list, dict)
        if isinstance(a, simple) and isinstance(b, simple):
            return a == b
        return a is b

    # ---- statements ------------------------------------------------------------------------
    def _assign_target(self, t: ast.AST, v: Any, env: Scope) -> None:
        if isinstance(t, ast.Name):
            env.assign(t.id, v)
        elif isinstance(t, (ast.Tuple, ast.List)):
            if not isinstance(v, (tuple, list)) or len(v) != len(t.elts):
                raise Unsupported(f'cannot unpack into {pf.nsrc(t)}')
            for x, y in zip(t.elts, v):
                self._assign_target(x, y, env)
        else:
            raise Unsupported(f'assignment target {pf.nsrc(t)}')

    def _store(self, t: ast.AST, v: Any, env: Scope) -> Iterator:
        if isinstance(t, ast.Attribute):
            o = yield from self.ev(t.value, env)
            self.setattr(o, t.attr, v)
        else:
            self._assign_target(t, v, env)

    def exec_block(self, stmts: List[ast.stmt], env: Scope) -> Iterator:
        for st in stmts:
            sig = yield from self.exec_stmt(st, env)
            if sig is not None:
                return sig
        return None

    def exec_stmt(self, st: ast.stmt, env: Scope) -> Iterator:
        self.steps += 1
        if self.steps > self.max_steps:
            raise Unsupported('step budget exhausted (unbounded loop?)')
        if isinstance(st, ast.Expr):
            if not isinstance(st.value, ast.Constant):
                yield from self.ev(st.value, env)
            return None
        if isinstance(st, ast.Assign):
            v = yield from self.ev(st.value, env)
            for t in st.targets:
                yield from self._store(t, v, env)
            return None
        if isinstance(st, ast.AnnAssign):
            if st.value is not None:
                v = yield from self.ev(st.value, env)
                yield from self._store(st.target, v, env)
            return None
        if isinstance(st, ast.AugAssign):
            cur = yield from self.ev(ast.copy_location(_as_load(st.target), st.target), env)
            v = yield from self.ev(st.value, env)
            ok = (isinstance(cur, int) and isinstance(v, int)) or (isinstance(cur, str) and isinstance(v, str) and isinstance(st.op, ast.Add))
            if not ok:
                raise Unsupported(f'augmented assignment {pf.nsrc(st)}')
            if isinstance(st.op, ast.Add):
                new = cur + v
            elif isinstance(st.op, ast.Sub):
                new = cur - v
            else:
                raise Unsupported(f'augmented assignment {pf.nsrc(st)}')
            yield from self._store(st.target, new, env)
            return None
        if isinstance(st, ast.If):
            t = yield from self.ev(st.test, env)
            r = yield from self.exec_block(st.body if self.truth(t) else st.orelse, env)
            return r
        if isinstance(st, ast.Return):
            v = (yield from self.ev(st.value, env)) if st.value is not None else None
            return ('return', v)
        if isinstance(st, ast.Raise):
            if st.exc is None:
                if self.current_exc is None:
                    raise Unsupported('bare raise outside a handler')
                raise self.current_exc
            v = yield from self.ev(st.exc, env)
            if isinstance(v, ExcClass):
                v = ExcV(v, ())
            if not isinstance(v, ExcV):
                raise Unsupported(f'raise of a non-exception: {pf.nsrc(st)}')
            raise Raised(v)
        if isinstance(st, ast.Assert):
            t = yield from self.ev(st.test, env)
            if not self.truth(t):
                raise Raised(ExcV(ExcClass('AssertionError'), (pf.nsrc(st.test),)))
            return None
        if isinstance(st, ast.Pass):
            return None
        if isinstance(st, (ast.FunctionDef, ast.AsyncFunctionDef)):
            env.assign(st.name, FuncV(st, env.module, env, None, st.name))
            return None
        if isinstance(st, ast.Nonlocal):
            env.nonlocals.update(st.names)
            return None
        if isinstance(st, (ast.For, ast.AsyncFor)):
            seq = yield from self.ev(st.iter, env)
            if isinstance(st, ast.AsyncFor):
                if not isinstance(seq, AsyncIterV):
                    raise Unsupported('async for over a non-modelled iterator')
                items = seq.items
            else:
                if not isinstance(seq, (list, tuple)):
                    raise Unsupported('for over a non-list')
                items = list(seq)
            broke = False
            for item in items:
                self._assign_target(st.target, item, env)
                sig = yield from self.exec_block(st.body, env)
                if sig is not None:
                    if sig[0] == 'break':
                        broke = True
                        break
                    if sig[0] == 'continue':
                        continue
                    return sig
            if st.orelse and not broke:
                r = yield from self.exec_block(st.orelse, env)
                return r
            return None
        if isinstance(st, ast.Break):
            return ('break',)
        if isinstance(st, ast.Continue):
            return ('continue',)
        if isinstance(st, ast.Try):
            r = yield from self._exec_try(st, env)
            return r
        raise Unsupported(f'statement {type(st).__name__} at line {st.lineno}')

    def _matches(self, r: Raised, t: Any) -> bool:
        if isinstance(t, (tuple, list)):
            return any(self._matches(r, x) for x in t)
        if isinstance(t, ExcClass):
            return exc_is(r.value.cls.name, t.name)
        raise Unsupported('except clause does not name an exception class')

    def _exec_try(self, st: ast.Try, env: Scope) -> Iterator:
        pending: Optional[Raised] = None
        sig = None
        try:
            try:
                sig = yield from self.exec_block(st.body, env)
            except Raised as r:
                if r.value.cls.name == 'Deadlock':
                    raise
                handler = None
                for h in st.handlers:
                    if h.type is None:
                        handler = h
                        break
                    t = yield from self.ev(h.type, env)
                    if self._matches(r, t):
                        handler = h
                        break
                if handler is None:
                    raise
                if handler.name:
                    env.assign(handler.name, r.value)
                prev = self.current_exc
                self.current_exc = r
                try:
                    sig = yield from self.exec_block(handler.body, env)
                finally:
                    self.current_exc = prev
            else:
                if st.orelse and sig is None:
                    sig = yield from self.exec_block(st.orelse, env)
        except Raised as r2:
            pending = r2
        if st.finalbody:
            fsig = yield from self.exec_block(st.finalbody, env)
            if fsig is not None:
                return fsig
        if pending is not None:
            raise pending
        return sig


def _as_load(t: ast.AST) -> ast.AST:
    if isinstance(t, ast.Name):
        return ast.Name(id=t.id, ctx=ast.Load())
    if isinstance(t, ast.Attribute):
        return ast.Attribute(value=t.value, attr=t.attr, ctx=ast.Load())
    raise Unsupported('augmented assignment target')


# ------------------------------------------------------------------------------------------------
# models of the asyncio / functools pieces the copy path uses
# ------------------------------------------------------------------------------------------------


def _coro_of(it: Interp, v: Any, what: str) -> CoroV:
    if isinstance(v, CoroV):
        return v
    raise Unsupported(f'{what}: argument is not a coroutine')


def model_gather(it: Interp, args: list, kwargs: dict) -> CoroV:
    """asyncio.gather: children advance round-robin; a round without progress while some child is suspended is propagated
    upwards as a suspension (an outer sibling may still set the event); at top level that is a deadlock."""
    return_exceptions = bool(kwargs.get('return_exceptions', False))

    def g():
        gens = [_coro_of(it, a, 'asyncio.gather').run() for a in args]
        results: list = [_MISSING] * len(gens)
        first_exc: Optional[Raised] = None
        while any(r is _MISSING for r in results):
            before = it.activity
            for i, gen in enumerate(gens):
                if results[i] is not _MISSING:
                    continue
                try:
                    next(gen)
                except StopIteration as s:
                    results[i] = s.value
                    it.activity += 1
                except Raised as r:
                    if r.value.cls.name == 'Deadlock':
                        raise
                    results[i] = r.value
                    it.activity += 1
                    if first_exc is None:
                        first_exc = r
            if any(r is _MISSING for r in results) and it.activity == before:
                yield 'blocked'  # at top level nobody else can run: Interp.drive reports the deadlock
        if not return_exceptions and first_exc is not None:
            raise first_exc
        return list(results)
    return CoroV('asyncio.gather', g)


def model_create_task(it: Interp, args: list, kwargs: dict) -> TaskV:
    c = _coro_of(it, args[0], 'asyncio.create_task')
    try:
        gen = c.run()
        try:
            next(gen)
        except StopIteration as s:
            return TaskV(result=s.value)
        raise Unsupported('a task suspends on an event (not modelled)')
    except Raised as r:
        return TaskV(exc=r)


def model_wait(it: Interp, args: list, kwargs: dict) -> CoroV:
    def g():
        return (set(args[0]) if all(isinstance(x, TaskV) for x in args[0]) else set(), set())
        yield  # pragma: no cover
    return CoroV('asyncio.wait', g)


def model_partial(it: Interp, args: list, kwargs: dict) -> PartialV:
    return PartialV(args[0], list(args[1:]), dict(kwargs))


def model_call_then_await(name: str, skip: int = 0) -> Callable:
    """f(<skip leading args>, fn, *args, **kwargs): call fn and await its result (retry_transient_errors with no failure)."""
    def m(it: Interp, args: list, kwargs: dict) -> CoroV:
        def g():
            v = yield from it._call_any(args[skip], list(args[skip + 1:]), dict(kwargs))
            if isinstance(v, (CoroV, TaskV)):
                v = yield from it.await_value(v)
            return v
        return CoroV(name, g)
    return m


def model_bounded_gather2(it: Interp, args: list, kwargs: dict) -> CoroV:
    """bounded_gather2(sema, *pfs, return_exceptions=False, cancel_on_error=False): thunks run one after the other (they are
    independent in the analysed code); the first exception is raised unless return_exceptions."""
    rex = bool(kwargs.get('return_exceptions', False))

    def g():
        out = []
        for pf_ in args[1:]:
            try:
                v = yield from it._call_any(pf_, [], {})
                if isinstance(v, (CoroV, TaskV)):
                    v = yield from it.await_value(v)
                out.append((v, None) if rex else v)
            except Raised as r:
                if not rex or r.value.cls.name == 'Deadlock':
                    raise
                out.append((None, r.value))
        return out
    return CoroV('bounded_gather2', g)


def model_isinstance(it: Interp, args: list, kwargs: dict) -> bool:
    v, t = args
    ts = t if isinstance(t, (tuple, list)) else [t]
    for x in ts:
        if isinstance(x, ExcClass):
            if isinstance(v, ExcV) and exc_is(v.cls.name, x.name):
                return True
        elif isinstance(x, ClassV):
            if isinstance(v, Obj) and v.cls.name == x.name:
                return True
            if isinstance(v, ExtObj) and x.name in v.isa:
                return True
        elif isinstance(x, ExtFn) and x.name in ('str', 'list', 'bool', 'int', 'tuple', 'dict'):
            py = {'str': str, 'list': list, 'bool': bool, 'int': int, 'tuple': tuple, 'dict': dict}[x.name]
            if isinstance(v, py):
                return True
        else:
            raise Unsupported('isinstance against an unmodelled type')
    return False


def _builtin_type(name: str) -> Callable:
    def m(it: Interp, args: list, kwargs: dict):
        raise Unsupported(f'call of builtin {name}')
    return m


def model_zip(it: Interp, args: list, kwargs: dict) -> list:
    if not all(isinstance(a, (list, tuple)) for a in args):
        raise Unsupported('zip of non-lists')
    return [tuple(x) for x in zip(*args)]


def model_len(it: Interp, args: list, kwargs: dict) -> int:
    if not isinstance(args[0], (str, list, tuple, dict)):
        raise Unsupported('len of an unmodelled value')
    return len(args[0])


BASE_EXTERNALS: Dict[str, Callable] = {
    'asyncio.gather': model_gather,
    'asyncio.create_task': model_create_task,
    'asyncio.ensure_future': model_create_task,
    'asyncio.wait': model_wait,
    'asyncio.Event': lambda it, a, k: EventV(),
    'functools.partial': model_partial,
    'isinstance': model_isinstance,
    'zip': model_zip,
    'len': model_len,
    'repr': lambda it, a, k: repr(a[0]),
    'str': _builtin_type('str'), 'list': _builtin_type('list'), 'bool': _builtin_type('bool'), 'int': _builtin_type('int'),
    'tuple': _builtin_type('tuple'), 'dict': _builtin_type('dict'),
}
