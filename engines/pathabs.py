"""pathabs: predicate abstraction + path enumeration over extracted syntax trees, with inter-method composition.

For ONE valuation of a finite set of atoms (the row of a decision table) `PathAbs` walks the statement trees of the analysed
methods and computes the abstract OUTCOME of the row: the error class that is raised (a name) or the calls that are recorded,
with their arguments as *terms* over opaque input names.  Nothing is run and no concrete input exists:

  * values are abstract: literal constants that occur in the source (enum members, None, True/False, small ints), opaque symbols
    (`Sym('dest')`), uninterpreted constructor terms (`url_join(dest, url_basename(rstrip(src, '/')))`, `slice_from(x, len(y))`),
    abstract objects (class + field map), closures, exception values (class names), lists whose elements are either known values
    or ONE generic element standing for all (`Each`);
  * a branch test is decided by the abstract value when that is a constant, otherwise it is an ATOM and is looked up, by its
    normalised text, in the valuation; an atom that is not in the valuation raises AnalysisError - the caller declines;
  * calls of the environment (file-system queries) are not modelled operationally: their outcome (a result term or an error
    class) is part of the row (`oracles`);
  * a call of an analysed method/closure is composed by evaluating the callee under the same valuation (= substituting the
    callee's row at the call site); a comprehension / loop over an unknown collection is evaluated once for a generic element;
  * `asyncio.gather` of coroutines that synchronise on a barrier is NOT scheduled: each coroutine body is split at its top-level
    `await <...>.wait()` statement into a part before and a part after, all "before" parts are composed first, then the "after"
    parts.  That this split is faithful (every path releases the barrier exactly once before waiting, and on every exit) is a
    separate structural obligation on the CFG, checked by the caller with `barrier_discipline`.

try / except / else / finally, return-in-finally, raise / re-raise, closures with nonlocal, keyword / default / star arguments,
functools.partial are followed; anything else raises AnalysisError (decline, never an alarm).
"""
from __future__ import annotations

import ast
from typing import Any, Callable, Dict, List, Optional, Sequence, Tuple

from . import pyfacts as pf
from .common import AnalysisError

EXC_BASE: Dict[str, Optional[str]] = {
    'BaseException': None, 'Exception': 'BaseException', 'OSError': 'Exception', 'FileNotFoundError': 'OSError', 'IsADirectoryError': 'OSError',
    'NotADirectoryError': 'OSError', 'FileExistsError': 'OSError', 'ValueError': 'Exception', 'TypeError': 'Exception', 'KeyError': 'Exception',
    'AssertionError': 'Exception', 'RuntimeError': 'Exception',
}


def exc_is(name: str, ancestor: str) -> bool:
    cur: Optional[str] = name
    for _ in range(20):
        if cur is None:
            return False
        if cur == ancestor:
            return True
        cur = EXC_BASE.get(cur)
    return False


class Const:
    def __init__(self, value: Any):
        self.value = value


class Sym:
    def __init__(self, name: str):
        self.name = name


class Term:
    def __init__(self, op: str, args: Sequence[Any]):
        self.op = op
        self.args = tuple(args)


class AObj:
    def __init__(self, cls: str):
        self.cls = cls
        self.fields: Dict[str, Any] = {}


class ExcCls:
    def __init__(self, name: str):
        self.name = name


class Exc:
    def __init__(self, name: str, args: Sequence[Any] = ()):
        self.name = name
        self.args = tuple(args)


class Clo:
    def __init__(self, fn: pf.FuncDef, env: Optional['Scope'], self_obj: Any = None, cls: Optional[str] = None, module: Optional[pf.Module] = None):
        self.fn = fn
        self.env = env
        self.self_obj = self_obj
        self.cls = cls
        self.module = module


class Partial:
    def __init__(self, fn: Any, args: list, kwargs: dict):
        self.fn, self.args, self.kwargs = fn, args, kwargs


class Coro:
    def __init__(self, clo: Clo, scope: 'Scope'):
        self.clo, self.scope = clo, scope


class Task:
    def __init__(self, result: Any = None, exc: Optional['AbsRaise'] = None):
        self.result, self.exc = result, exc


class AList:
    def __init__(self, items: Optional[list] = None):
        self.items: list = list(items or [])


class Each:
    """One generic element standing for every element of an unknown collection."""

    def __init__(self, payload: Any):
        self.payload = payload


class ClassRef:
    def __init__(self, name: str, module: pf.Module, node: ast.ClassDef):
        self.name, self.module, self.node = name, module, node


class AbsRaise(Exception):
    def __init__(self, exc: Exc):
        super().__init__(exc.name)
        self.exc = exc


class Scope:
    def __init__(self, parent: Optional['Scope']):
        self.vars: Dict[str, Any] = {}
        self.parent = parent
        self.nonlocals: set = set()

    def find(self, name: str) -> Optional['Scope']:
        s: Optional[Scope] = self
        while s is not None:
            if name in s.vars:
                return s
            s = s.parent
        return None

    def assign(self, name: str, v: Any) -> None:
        if name in self.nonlocals and self.parent is not None:
            s = self.parent.find(name)
            if s is None:
                raise AnalysisError(f'pathabs: nonlocal {name} is not bound')
            s.vars[name] = v
        else:
            self.vars[name] = v


def key(v: Any) -> str:
    """Normalised text of an abstract value (atom keys, outcome rows)."""
    if isinstance(v, Const):
        return repr(v.value)
    if isinstance(v, Sym):
        return v.name
    if isinstance(v, Term):
        return f'{v.op}({", ".join(key(a) for a in v.args)})'
    if isinstance(v, AObj):
        return f'<{v.cls}>'
    if isinstance(v, Exc):
        return f'{v.name}()'
    if isinstance(v, ExcCls):
        return v.name
    if isinstance(v, ClassRef):
        return v.name
    if isinstance(v, tuple):
        return '(' + ', '.join(key(x) for x in v) + ')'
    if isinstance(v, AList):
        return '[' + ', '.join(key(x) for x in v.items) + ']'
    if isinstance(v, Each):
        return f'each {key(v.payload)}'
    return f'<{type(v).__name__}>'


STR_OPS = ('endswith', 'startswith', 'rstrip', 'lstrip', 'strip')
NONNULL_OPS = ('listing', 'statfile', 'concat', 'url_join', 'url_basename', 'elem', 'entry_url', 'slice_from')


class PathAbs:
    def __init__(self, classes: Dict[str, Tuple[pf.Module, ast.ClassDef]], valuation: Dict[str, bool],
                 oracles: Optional[Dict[str, Callable[[List[Any], Dict[str, Any]], Any]]] = None,
                 stubs: Optional[Dict[str, Callable[[Any, Dict[str, Any]], Any]]] = None,
                 noop_methods: Sequence[str] = (), url_aliases: Optional[Dict[str, str]] = None, exceptions: Optional[Dict[str, str]] = None):
        for n_, b_ in (exceptions or {}).items():  # exception classes defined by the analysed program: name -> base name
            EXC_BASE.setdefault(n_, b_)
        self.classes = classes
        self.val = valuation
        self.oracles = oracles or {}
        self.stubs = stubs or {}
        self.noop = set(noop_methods)
        self.aliases = url_aliases or {}
        self.current: Optional[AbsRaise] = None
        self.steps = 0
        self.used_atoms: set = set()

    # ---- terms ------------------------------------------------------------------------------
    def mk(self, op: str, args: Sequence[Any]) -> Any:
        op = self.aliases.get(op, op)
        a = list(args)
        if op == 'endswith' and len(a) == 2 and isinstance(a[0], Term) and a[0].op == 'concat' and isinstance(a[1], Const) \
                and isinstance(a[0].args[1], Const) and a[0].args[1].value == a[1].value:
            return Const(True)
        if op in ('rstrip', 'strip') and len(a) == 2 and isinstance(a[1], Const):
            k = key(Term('endswith', [a[0], a[1]]))
            if self.val.get(k) is False and op == 'rstrip':
                return a[0]  # nothing to strip in this row
        return Term(op, a)

    def atom(self, v: Any, what: str) -> bool:
        k = key(v)
        if k not in self.val:
            raise AnalysisError(f'pathabs: the code tests `{what}` (atom {k}) which is not a column of the decision table')
        self.used_atoms.add(k)
        return self.val[k]

    def truth(self, v: Any, what: str = '') -> bool:
        if isinstance(v, Const):
            return bool(v.value)
        if isinstance(v, (AObj, Exc, ExcCls, Clo, Partial, Coro, Task, ClassRef)):
            return True
        if isinstance(v, tuple):
            return len(v) > 0
        if isinstance(v, AList):
            if any(isinstance(x, Each) for x in v.items):
                raise AnalysisError(f'pathabs: emptiness of a collection of unknown size is tested in `{what}`')
            return len(v.items) > 0
        return self.atom(v, what or key(v))

    # ---- lookup -----------------------------------------------------------------------------
    def class_ref(self, name: str) -> Optional[ClassRef]:
        if name in self.classes:
            m, node = self.classes[name]
            return ClassRef(name, m, node)
        return None

    def class_attr(self, c: ClassRef, attr: str, inst: Any) -> Any:
        if attr in self.stubs and inst is not None:
            stub = self.stubs[attr]
            sig = next((st for st in c.node.body if isinstance(st, (ast.FunctionDef, ast.AsyncFunctionDef)) and st.name == attr), None)
            if sig is not None:
                return ('stub', stub, sig)
        for st in c.node.body:
            if isinstance(st, (ast.FunctionDef, ast.AsyncFunctionDef)) and st.name == attr:
                static = 'staticmethod' in pf.decorator_names(st)
                return Clo(st, None, None if static else inst, c.name, c.module)
            if isinstance(st, ast.Assign) and len(st.targets) == 1 and isinstance(st.targets[0], ast.Name) and st.targets[0].id == attr:
                return self.ev(st.value, Scope(None), c.module)
        raise AnalysisError(f'pathabs: class {c.name} has no attribute {attr}')

    def lookup(self, name: str, env: Scope, module: pf.Module) -> Any:
        s = env.find(name)
        if s is not None:
            return s.vars[name]
        c = self.class_ref(name)
        if c is not None:
            return c
        for st in module.tree.body:
            if isinstance(st, (ast.FunctionDef, ast.AsyncFunctionDef)) and st.name == name:
                return Clo(st, None, None, None, module)
        if name in EXC_BASE:
            return ExcCls(name)
        return Sym(name)

    # ---- expressions ------------------------------------------------------------------------
    def ev(self, e: ast.AST, env: Scope, module: pf.Module) -> Any:
        if isinstance(e, ast.Constant):
            return Const(e.value)
        if isinstance(e, ast.Name):
            return self.lookup(e.id, env, module)
        if isinstance(e, ast.Await):
            return self.await_(self.ev(e.value, env, module))
        if isinstance(e, ast.Attribute):
            v = self.ev(e.value, env, module)
            return self.getattr(v, e.attr)
        if isinstance(e, ast.Call):
            return self.ev_call(e, env, module)
        if isinstance(e, ast.BoolOp):
            v: Any = Const(None)
            for x in e.values:
                v = self.ev(x, env, module)
                t = self.truth(v, pf.nsrc(x))
                if isinstance(e.op, ast.And) and not t:
                    return v if isinstance(v, Const) else Const(False)
                if isinstance(e.op, ast.Or) and t:
                    return v if isinstance(v, Const) else Const(True)
            return v if isinstance(v, Const) else Const(self.truth(v, pf.nsrc(e)))
        if isinstance(e, ast.UnaryOp) and isinstance(e.op, ast.Not):
            return Const(not self.truth(self.ev(e.operand, env, module), pf.nsrc(e.operand)))
        if isinstance(e, ast.Compare):
            left = self.ev(e.left, env, module)
            for op, c in zip(e.ops, e.comparators):
                right = self.ev(c, env, module)
                if not self.compare(op, left, right, pf.nsrc(e)):
                    return Const(False)
                left = right
            return Const(True)
        if isinstance(e, ast.IfExp):
            return self.ev(e.body if self.truth(self.ev(e.test, env, module), pf.nsrc(e.test)) else e.orelse, env, module)
        if isinstance(e, ast.Tuple):
            return tuple(self.ev(x, env, module) for x in e.elts)
        if isinstance(e, ast.List):
            return AList([self.ev(x, env, module) for x in e.elts])
        if isinstance(e, ast.BinOp):
            a, b = self.ev(e.left, env, module), self.ev(e.right, env, module)
            if isinstance(a, Const) and isinstance(b, Const) and isinstance(a.value, int) and isinstance(b.value, int):
                if isinstance(e.op, ast.Add):
                    return Const(a.value + b.value)
                if isinstance(e.op, ast.Sub):
                    return Const(a.value - b.value)
            if isinstance(e.op, ast.Add):
                return self.mk('concat', [a, b])
            return Term('binop', [a, b])
        if isinstance(e, ast.Subscript):
            v = self.ev(e.value, env, module)
            if isinstance(e.slice, ast.Slice):
                if e.slice.upper is not None or e.slice.step is not None or e.slice.lower is None:
                    raise AnalysisError(f'pathabs: slice `{pf.nsrc(e)}` not recognised')
                return self.mk('slice_from', [v, self.ev(e.slice.lower, env, module)])
            i = self.ev(e.slice, env, module)
            if isinstance(v, (tuple, AList)) and isinstance(i, Const) and isinstance(i.value, int):
                seq = v if isinstance(v, tuple) else v.items
                return seq[i.value]
            return self.mk('getitem', [v, i])
        if isinstance(e, ast.JoinedStr):
            return Sym('<text>')
        if isinstance(e, ast.ListComp):
            return self.comp(e, env, module)
        raise AnalysisError(f'pathabs: expression `{pf.nsrc(e)[:80]}` ({type(e).__name__}) not supported')

    def compare(self, op: ast.cmpop, a: Any, b: Any, what: str) -> bool:
        neg = isinstance(op, (ast.NotEq, ast.IsNot, ast.NotIn))
        if isinstance(op, (ast.In, ast.NotIn)):
            if isinstance(b, (tuple, AList)) and isinstance(a, Const):
                items = b if isinstance(b, tuple) else b.items
                if all(isinstance(x, Const) for x in items):
                    r = any(x.value == a.value and type(x.value) is type(a.value) for x in items)
                    return r != neg
            r = self.atom(Term('in', [a, b]), what)
            return r != neg
        if isinstance(op, (ast.Eq, ast.NotEq, ast.Is, ast.IsNot)):
            if isinstance(a, Const) and isinstance(b, Const):
                r = a.value == b.value and type(a.value) is type(b.value)
                return r != neg
            for x, y in ((a, b), (b, a)):
                if isinstance(x, Const) and x.value is None and (isinstance(y, (AObj, Exc, Task, Clo, Partial, tuple, AList))
                                                                 or (isinstance(y, Term) and y.op in NONNULL_OPS)):
                    return neg  # a known non-None value
                if isinstance(x, Const) and isinstance(x.value, bool) and isinstance(y, (Sym, Term)) and isinstance(op, (ast.Eq, ast.NotEq)):
                    return (x.value == self.atom(y, what)) != neg
            if isinstance(a, Const) or isinstance(b, Const):
                r = self.atom(Term('eq', sorted([a, b], key=key)), what)
                return r != neg
        raise AnalysisError(f'pathabs: comparison `{what}` is not decided by the abstraction')

    def comp(self, e: ast.ListComp, env: Scope, module: pf.Module) -> AList:
        if len(e.generators) != 1 or e.generators[0].ifs or e.generators[0].is_async:
            raise AnalysisError(f'pathabs: comprehension `{pf.nsrc(e)[:80]}` not recognised')
        g = e.generators[0]
        it = self.ev(g.iter, env, module)
        out = AList()
        for elem, generic in self.elements(it, pf.nsrc(g.iter)):
            sc = Scope(env)
            self.bind(g.target, elem, sc, module)
            v = self.ev(e.elt, sc, module)
            out.items.append(Each(v) if generic else v)
        return out

    def elements(self, it: Any, what: str) -> List[Tuple[Any, bool]]:
        """(element, is-generic) pairs of an abstract collection."""
        if isinstance(it, tuple):
            return [(x, False) for x in it]
        if isinstance(it, AList):
            return [((x.payload, True) if isinstance(x, Each) else (x, False)) for x in it.items]
        if isinstance(it, Term) and it.op == 'zip':
            return [(tuple(self.mk('elem', [a]) for a in it.args), True)]
        if isinstance(it, (Sym, Term)):
            return [(self.mk('elem', [it]), True)]
        raise AnalysisError(f'pathabs: cannot iterate over `{what}`')

    def getattr(self, v: Any, attr: str) -> Any:
        if isinstance(v, AObj):
            if attr in v.fields:
                return v.fields[attr]
            c = self.class_ref(v.cls)
            if c is None:
                raise AnalysisError(f'pathabs: unknown class {v.cls}')
            return self.class_attr(c, attr, v)
        if isinstance(v, ClassRef):
            return self.class_attr(v, attr, None)
        if isinstance(v, (Sym, Term)):
            return Term('attr', [v, Const(attr)])
        if isinstance(v, Exc) and attr == 'args':
            return tuple(v.args)
        raise AnalysisError(f'pathabs: attribute {attr} of a {type(v).__name__}')

    def await_(self, v: Any) -> Any:
        if isinstance(v, Coro):
            return self.run_body(v.clo.fn.body, v.scope, v.clo.module)
        if isinstance(v, Task):
            if v.exc is not None:
                raise v.exc
            return v.result
        return v

    def run_body(self, body: Sequence[ast.stmt], scope: Scope, module: pf.Module) -> Any:
        sig = self.block(body, scope, module)
        return sig[1] if sig is not None and sig[0] == 'return' else Const(None)

    def ev_call(self, e: ast.Call, env: Scope, module: pf.Module) -> Any:
        args: List[Any] = []
        for a in e.args:
            if isinstance(a, ast.Starred):
                seq = self.ev(a.value, env, module)
                if isinstance(seq, tuple):
                    args.extend(seq)
                elif isinstance(seq, AList):
                    args.extend(seq.items)
                else:
                    raise AnalysisError(f'pathabs: star-argument `{pf.nsrc(a)}` is not a known list')
            else:
                args.append(self.ev(a, env, module))
        kwargs: Dict[str, Any] = {}
        for k in e.keywords:
            if k.arg is None:
                raise AnalysisError('pathabs: ** argument')
            kwargs[k.arg] = self.ev(k.value, env, module)
        name = pf.dotted(e.func)
        m = getattr(self, 'model_' + (name or '').replace('.', '_'), None)
        if m is not None and (name or '').split('.')[0] not in self._bound_names(env):
            return m(args, kwargs, e)
        if isinstance(e.func, ast.Attribute):
            recv = self.ev(e.func.value, env, module)
            attr = e.func.attr
            if isinstance(recv, (Sym, Term)):
                if attr in self.oracles and key(recv) in self.oracle_receivers:
                    return self.oracles[attr](args, kwargs)
                if attr in STR_OPS:
                    return self.mk(attr, [recv] + args)
                return self.mk('m:' + attr, [recv] + args)
            if isinstance(recv, AList) and attr == 'append' and len(args) == 1:
                recv.items.append(Each(args[0]) if self.generic_depth else args[0])
                return Const(None)
            if isinstance(recv, AObj) and attr in self.noop:
                return Const(None)
            fn = self.getattr(recv, attr)
        else:
            fn = self.ev(e.func, env, module)
        return self.call(fn, args, kwargs, pf.nsrc(e))

    oracle_receivers: Tuple[str, ...] = ()
    generic_depth = 0

    def _bound_names(self, env: Scope) -> set:
        out: set = set()
        s: Optional[Scope] = env
        while s is not None:
            out |= set(s.vars)
            s = s.parent
        return out

    def call(self, fn: Any, args: List[Any], kwargs: Dict[str, Any], what: str) -> Any:
        if isinstance(fn, tuple) and fn and fn[0] == 'stub':
            _, stub, sig = fn
            params = [a.arg for a in sig.args.args][1:]
            bound = dict(zip(params, args))
            bound.update(kwargs)
            return stub(bound)
        if isinstance(fn, Partial):
            return self.call(fn.fn, list(fn.args) + args, {**fn.kwargs, **kwargs}, what)
        if isinstance(fn, ExcCls):
            return Exc(fn.name, args)
        if isinstance(fn, ClassRef):
            o = AObj(fn.name)
            init = self.class_attr(fn, '__init__', o)
            self.call(init, args, kwargs, what)
            return o
        if isinstance(fn, Clo):
            scope = self.bind_params(fn, args, kwargs)
            if isinstance(fn.fn, ast.AsyncFunctionDef):
                return Coro(fn, scope)
            return self.run_body(fn.fn.body, scope, fn.module)  # type: ignore[arg-type]
        if isinstance(fn, (Sym, Term)):
            return self.mk('call', [fn] + args)
        raise AnalysisError(f'pathabs: call `{what[:80]}` of a {type(fn).__name__}')

    def bind_params(self, fn: Clo, args: List[Any], kwargs: Dict[str, Any]) -> Scope:
        a = fn.fn.args
        scope = Scope(fn.env)
        pos = [x.arg for x in a.posonlyargs + a.args]
        args = ([fn.self_obj] if fn.self_obj is not None else []) + list(args)
        kwargs = dict(kwargs)
        defaults = dict(zip(pos[len(pos) - len(a.defaults):], a.defaults))
        dscope = Scope(None)
        if fn.cls is not None and fn.cls in self.classes:
            cm, cn = self.classes[fn.cls]
            for st in cn.body:
                if isinstance(st, ast.Assign) and len(st.targets) == 1 and isinstance(st.targets[0], ast.Name):
                    dscope.vars[st.targets[0].id] = self.ev(st.value, Scope(None), cm)
        for i, name in enumerate(pos):
            if i < len(args):
                scope.vars[name] = args[i]
            elif name in kwargs:
                scope.vars[name] = kwargs.pop(name)
            elif name in defaults:
                scope.vars[name] = self.ev(defaults[name], dscope, fn.module)  # type: ignore[arg-type]
            else:
                raise AnalysisError(f'pathabs: {fn.fn.name}() is called without argument {name}')
        if len(args) > len(pos):
            if a.vararg is None:
                raise AnalysisError(f'pathabs: {fn.fn.name}() is called with too many arguments')
            scope.vars[a.vararg.arg] = tuple(args[len(pos):])
        for ka, kd in zip(a.kwonlyargs, a.kw_defaults):
            if ka.arg in kwargs:
                scope.vars[ka.arg] = kwargs.pop(ka.arg)
            elif kd is not None:
                scope.vars[ka.arg] = self.ev(kd, dscope, fn.module)  # type: ignore[arg-type]
            else:
                raise AnalysisError(f'pathabs: {fn.fn.name}() is called without keyword {ka.arg}')
        if kwargs and a.kwarg is None:
            raise AnalysisError(f'pathabs: {fn.fn.name}() got unexpected keywords {sorted(kwargs)}')
        return scope

    # ---- library models (abstract) --------------------------------------------------------------
    def model_isinstance(self, args: List[Any], kwargs: Dict[str, Any], e: ast.Call) -> Any:
        v, t = args
        ts = list(t) if isinstance(t, tuple) else [t]
        for x in ts:
            if isinstance(x, ExcCls):
                if isinstance(v, Exc):
                    if exc_is(v.name, x.name):
                        return Const(True)
                    continue
                if isinstance(v, (Const, AObj, tuple, AList)):
                    continue
            if isinstance(x, ClassRef) and isinstance(v, AObj):
                if v.cls == x.name:
                    return Const(True)
                continue
            if isinstance(v, Const) and isinstance(x, Sym) and x.name in ('str', 'list', 'bool', 'int'):
                if isinstance(v.value, {'str': str, 'list': list, 'bool': bool, 'int': int}[x.name]):
                    return Const(True)
                continue
            if self.atom(Term('isinstance', [v, x]), pf.nsrc(e)):
                return Const(True)
        return Const(False)

    def model_len(self, args: List[Any], kwargs: Dict[str, Any], e: ast.Call) -> Any:
        return self.mk('len', args)

    def model_repr(self, args: List[Any], kwargs: Dict[str, Any], e: ast.Call) -> Any:
        return Sym('<text>')

    def model_zip(self, args: List[Any], kwargs: Dict[str, Any], e: ast.Call) -> Any:
        return Term('zip', args)

    def model_functools_partial(self, args: List[Any], kwargs: Dict[str, Any], e: ast.Call) -> Any:
        return Partial(args[0], list(args[1:]), dict(kwargs))

    def model_url_join(self, args: List[Any], kwargs: Dict[str, Any], e: ast.Call) -> Any:
        return self.mk('url_join', args)

    def model_url_basename(self, args: List[Any], kwargs: Dict[str, Any], e: ast.Call) -> Any:
        return self.mk('url_basename', args)

    def model_asyncio_Event(self, args: List[Any], kwargs: Dict[str, Any], e: ast.Call) -> Any:
        return Sym('<event>')

    def model_asyncio_wait(self, args: List[Any], kwargs: Dict[str, Any], e: ast.Call) -> Any:
        return Const(None)

    def model_asyncio_create_task(self, args: List[Any], kwargs: Dict[str, Any], e: ast.Call) -> Any:
        try:
            return Task(result=self.await_(args[0]))
        except AbsRaise as r:
            return Task(exc=r)

    def model_retry_transient_errors(self, args: List[Any], kwargs: Dict[str, Any], e: ast.Call) -> Any:
        return self.await_(self.call(args[0], list(args[1:]), kwargs, pf.nsrc(e)))

    def model_bounded_gather2(self, args: List[Any], kwargs: Dict[str, Any], e: ast.Call) -> Any:
        rex = kwargs.get('return_exceptions', Const(False))
        if not (isinstance(rex, Const) and rex.value is False):
            raise AnalysisError('pathabs: bounded_gather2 with return_exceptions not false')
        out = []
        for t in args[1:]:
            generic = isinstance(t, Each)
            self.generic_depth += 1 if generic else 0
            try:
                out.append(self.await_(self.call(t.payload if generic else t, [], {}, pf.nsrc(e))))
            finally:
                self.generic_depth -= 1 if generic else 0
        return AList(out)

    def model_asyncio_gather(self, args: List[Any], kwargs: Dict[str, Any], e: ast.Call) -> Any:
        """Barrier split: all parts before the top-level `await <x>.wait()` first, then the parts after it (see module docstring)."""
        rex = kwargs.get('return_exceptions', Const(False))
        if not (isinstance(rex, Const) and isinstance(rex.value, bool)):
            raise AnalysisError('pathabs: asyncio.gather return_exceptions is not a constant')
        if not all(isinstance(c, Coro) for c in args):
            raise AnalysisError('pathabs: asyncio.gather of something that is not a coroutine of an analysed method')
        results: List[Any] = [None] * len(args)
        rest: Dict[int, Sequence[ast.stmt]] = {}
        first: Optional[AbsRaise] = None

        def phase(i: int, c: Coro, body: Sequence[ast.stmt]) -> None:
            nonlocal first
            try:
                results[i] = self.run_body(body, c.scope, c.clo.module)  # type: ignore[arg-type]
            except AbsRaise as r:
                results[i] = r.exc
                if first is None:
                    first = r
        for i, c in enumerate(args):
            body = c.clo.fn.body
            idx = [j for j, st in enumerate(body) if is_wait_stmt(st)]
            if len(idx) > 1:
                raise AnalysisError(f'pathabs: {c.clo.fn.name} waits more than once')
            if idx:
                sig = None
                try:
                    sig = self.block(body[:idx[0]], c.scope, c.clo.module)  # type: ignore[arg-type]
                except AbsRaise as r:
                    results[i] = r.exc
                    if first is None:
                        first = r
                    continue
                if sig is not None and sig[0] == 'return':
                    results[i] = sig[1]
                else:
                    rest[i] = body[idx[0] + 1:]
            else:
                phase(i, c, body)
        for i in sorted(rest):
            phase(i, args[i], rest[i])
        if not rex.value and first is not None:
            raise first
        return AList(results)

    # ---- statements -------------------------------------------------------------------------
    def bind(self, t: ast.AST, v: Any, env: Scope, module: pf.Module) -> None:
        if isinstance(t, ast.Name):
            env.assign(t.id, v)
        elif isinstance(t, (ast.Tuple, ast.List)):
            if not isinstance(v, tuple) or len(v) != len(t.elts):
                raise AnalysisError(f'pathabs: cannot unpack into `{pf.nsrc(t)}`')
            for x, y in zip(t.elts, v):
                self.bind(x, y, env, module)
        elif isinstance(t, ast.Attribute):
            o = self.ev(t.value, env, module)
            if isinstance(o, AObj):
                o.fields[t.attr] = v
            elif not isinstance(o, (Sym, Term)):
                raise AnalysisError(f'pathabs: attribute store `{pf.nsrc(t)}`')
        else:
            raise AnalysisError(f'pathabs: assignment target `{pf.nsrc(t)}`')

    def block(self, stmts: Sequence[ast.stmt], env: Scope, module: pf.Module) -> Optional[tuple]:
        for st in stmts:
            sig = self.stmt(st, env, module)
            if sig is not None:
                return sig
        return None

    def stmt(self, st: ast.stmt, env: Scope, module: pf.Module) -> Optional[tuple]:
        self.steps += 1
        if self.steps > 20000:
            raise AnalysisError('pathabs: path too long')
        if isinstance(st, ast.Expr):
            if not isinstance(st.value, ast.Constant):
                self.ev(st.value, env, module)
            return None
        if isinstance(st, ast.Assign):
            v = self.ev(st.value, env, module)
            for t in st.targets:
                self.bind(t, v, env, module)
            return None
        if isinstance(st, ast.AnnAssign):
            if st.value is not None:
                self.bind(st.target, self.ev(st.value, env, module), env, module)
            return None
        if isinstance(st, ast.AugAssign):
            load = ast.Name(id=st.target.id, ctx=ast.Load()) if isinstance(st.target, ast.Name) else \
                (ast.Attribute(value=st.target.value, attr=st.target.attr, ctx=ast.Load()) if isinstance(st.target, ast.Attribute) else None)
            if load is None:
                raise AnalysisError(f'pathabs: `{pf.nsrc(st)}`')
            cur, v = self.ev(load, env, module), self.ev(st.value, env, module)
            if isinstance(cur, Const) and isinstance(v, Const) and isinstance(cur.value, int) and isinstance(v.value, int) and isinstance(st.op, (ast.Add, ast.Sub)):
                new: Any = Const(cur.value + v.value if isinstance(st.op, ast.Add) else cur.value - v.value)
            else:
                new = Term('aug', [cur, v])
            self.bind(st.target, new, env, module)
            return None
        if isinstance(st, ast.If):
            t = self.truth(self.ev(st.test, env, module), pf.nsrc(st.test))
            return self.block(st.body if t else st.orelse, env, module)
        if isinstance(st, ast.Return):
            return ('return', self.ev(st.value, env, module) if st.value is not None else Const(None))
        if isinstance(st, ast.Raise):
            if st.exc is None:
                if self.current is None:
                    raise AnalysisError('pathabs: bare raise outside a handler')
                raise self.current
            v = self.ev(st.exc, env, module)
            if isinstance(v, ExcCls):
                v = Exc(v.name)
            if not isinstance(v, Exc):
                raise AnalysisError(f'pathabs: `{pf.nsrc(st)}` does not raise a known exception value')
            raise AbsRaise(v)
        if isinstance(st, ast.Assert):
            try:
                v = self.ev(st.test, env, module)
            except AnalysisError:
                return None  # an assertion about something outside the table: assumed to hold
            if isinstance(v, Const) and not v.value:
                raise AbsRaise(Exc('AssertionError', [Const(pf.nsrc(st.test))]))
            return None
        if isinstance(st, (ast.Pass, ast.Import, ast.ImportFrom)):
            return None
        if isinstance(st, (ast.FunctionDef, ast.AsyncFunctionDef)):
            env.assign(st.name, Clo(st, env, None, None, module))
            return None
        if isinstance(st, ast.Nonlocal):
            env.nonlocals.update(st.names)
            return None
        if isinstance(st, (ast.For, ast.AsyncFor)):
            it = self.ev(st.iter, env, module)
            for elem, generic in self.elements(it, pf.nsrc(st.iter)):
                self.bind(st.target, elem, env, module)
                self.generic_depth += 1 if generic else 0
                try:
                    sig = self.block(st.body, env, module)
                finally:
                    self.generic_depth -= 1 if generic else 0
                if sig is not None:
                    if generic:
                        raise AnalysisError('pathabs: a loop over an unknown collection is left early')
                    if sig[0] == 'break':
                        return None
                    if sig[0] != 'continue':
                        return sig
            if st.orelse:
                return self.block(st.orelse, env, module)
            return None
        if isinstance(st, ast.Break):
            return ('break',)
        if isinstance(st, ast.Continue):
            return ('continue',)
        if isinstance(st, ast.Try):
            return self.try_(st, env, module)
        raise AnalysisError(f'pathabs: statement {type(st).__name__} at line {st.lineno} not supported')

    def try_(self, st: ast.Try, env: Scope, module: pf.Module) -> Optional[tuple]:
        pending: Optional[AbsRaise] = None
        sig: Optional[tuple] = None
        try:
            try:
                sig = self.block(st.body, env, module)
            except AbsRaise as r:
                handler = None
                for h in st.handlers:
                    if h.type is None:
                        handler = h
                        break
                    t = self.ev(h.type, env, module)
                    ts = list(t) if isinstance(t, tuple) else [t]
                    if not all(isinstance(x, ExcCls) for x in ts):
                        raise AnalysisError(f'pathabs: except clause `{pf.nsrc(h.type)}` does not name known exception classes')
                    if any(exc_is(r.exc.name, x.name) for x in ts):
                        handler = h
                        break
                if handler is None:
                    raise
                if handler.name:
                    env.assign(handler.name, r.exc)
                prev, self.current = self.current, r
                try:
                    sig = self.block(handler.body, env, module)
                finally:
                    self.current = prev
            else:
                if st.orelse and sig is None:
                    sig = self.block(st.orelse, env, module)
        except AbsRaise as r2:
            pending = r2
        if st.finalbody:
            fsig = self.block(st.finalbody, env, module)
            if fsig is not None:
                return fsig
        if pending is not None:
            raise pending
        return sig


def is_wait_stmt(st: ast.stmt) -> bool:
    return isinstance(st, ast.Expr) and isinstance(st.value, ast.Await) and isinstance(st.value.value, ast.Call) \
        and isinstance(st.value.value.func, ast.Attribute) and st.value.value.func.attr == 'wait'


def barrier_discipline(fn: pf.FuncDef, release: str) -> Optional[str]:
    """Structural obligation behind the barrier split: the function has exactly one top-level `await <x>.wait()`; on the CFG every path
    from entry to that wait, and every path from entry to an exit (normal or exceptional), passes a call of `release`, and no path
    passes two of them.  Returns None when it holds, else a description of the offending path."""
    waits = [st for st in fn.body if is_wait_stmt(st)]
    deep = [n for n in ast.walk(fn) if isinstance(n, ast.stmt) and is_wait_stmt(n)]
    if len(waits) != 1 or len(deep) != 1:
        raise AnalysisError(f'{fn.name}: expected exactly one top-level `await <barrier>.wait()` statement, found {len(waits)} / {len(deep)} nested')
    cfg = pf.cfg(fn)
    W = [n for n in cfg.nodes if n.ast is waits[0]]
    if len(W) != 1:
        raise AnalysisError(f'{fn.name}: wait statement not found on the CFG')

    def rel(n: pf.Node) -> bool:
        return n.ast is not None and any(pf.dotted(c.func) == release for c in pf.node_calls(n))
    R = [n for n in cfg.nodes if rel(n)]
    if not R:
        return f'`{release}()` is never called'
    p = cfg.path_avoiding(cfg.entry, lambda n: n is W[0], rel)
    if p is not None:
        return 'the wait can be reached without releasing the barrier first (via ' + ' -> '.join(x.text()[:40] for x in p[-3:]) + ')'
    p = cfg.path_avoiding(cfg.entry, lambda n: n is cfg.exit or n is cfg.raise_exit, rel)
    if p is not None:
        kind = 'returns' if p[-1] is cfg.exit else 'raises'
        return (f'a path {kind} without releasing the barrier (via ' + ' -> '.join(x.text()[:40] for x in p[-4:-1])
                + '): the sibling coroutine waits at the barrier for ever')
    for r in R:
        p = cfg.path_avoiding(r, rel, lambda n: False)
        if p is not None:
            return f'the barrier is released twice on one path (`{r.text()[:50]}` ... `{p[-1].text()[:50]}`)'
    return None
