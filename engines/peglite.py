"""peglite - reader and interpreter for parsimonious-style PEG grammars given as TEXT (used by C31 on type_grammar_str).

Our own parser for the grammar notation (rules `name = expr`, sequences by juxtaposition, ordered choice `/` between terms, grouping,
`? * +`, string literals, `~"regex"` terminals, `!`/`&` look-ahead) and our own packrat interpreter with PEG semantics (ordered choice
commits to the first success, repetition is greedy and never backtracks).  Regex terminals are matched with engines/relang DFAs as
"longest prefix in the language", which coincides with the backtracking engine's choice only for patterns that are single-character items
followed by one greedy repetition of one character class, or whose language is prefix-free; any other terminal -> AnalysisError.

The strict notation is accepted only: an alternation's members are single terms (parenthesise sequences), as in every parsimonious
release; `a b / c` (legal only from 0.10 on) is declined.
Nothing of the repository is imported; the third-party parsimonious package is not needed.
"""
from __future__ import annotations

import ast
from typing import Dict, List, Optional, Tuple

from . import relang as R
from .common import AnalysisError

# expression nodes: ('lit', str) ('re', pattern, flags_text) ('ref', name) ('seq', [..]) ('alt', [..]) ('opt', e) ('star', e) ('plus', e)
#                   ('not', e) ('and', e)
Expr = tuple


class Grammar:
    def __init__(self, rules: Dict[str, Expr], order: List[str], where: str):
        self.rules = rules
        self.order = order
        self.where = where
        self.default = order[0]
        self._dfa: Dict[Tuple[str, str], R.DFA] = {}
        for name, e in rules.items():
            for ref in _refs(e):
                if ref not in rules:
                    raise AnalysisError(f'{where}: rule {name} refers to the undefined rule {ref}')

    # ---- regex terminals
    def regex_dfa(self, pattern: str, flags: str) -> R.DFA:
        key = (pattern, flags)
        d = self._dfa.get(key)
        if d is None:
            if flags:
                raise AnalysisError(f'{self.where}: regex flags {flags!r} on a terminal are not supported')
            if not longest_match_safe(pattern):
                raise AnalysisError(f'{self.where}: regex terminal {pattern!r} is neither a single greedy class repetition nor prefix-free; '
                                    'longest-match evaluation would not be faithful')
            L = R.from_regex(pattern, 0, 'fullmatch')
            d = R.to_dfa(L, R.alphabet_for([L]))
            self._dfa[key] = d
        return d

    def regex_language(self, rule: str) -> Tuple[str, R.Lang]:
        """(pattern, fullmatch language) of a rule that is exactly one regex terminal."""
        e = self.rules.get(rule)
        if e is None:
            raise AnalysisError(f'{self.where}: rule {rule} vanished')
        if e[0] != 're' or e[2]:
            raise AnalysisError(f'{self.where}: rule {rule} is not a plain regex terminal')
        return e[1], R.from_regex(e[1], 0, 'fullmatch')

    # ---- interpretation
    def parse(self, text: str, rule: Optional[str] = None) -> 'Node':
        """Full parse (the whole text must be consumed), else ParseFailure."""
        rule = rule or self.default
        memo: Dict[Tuple[int, int], Optional[Node]] = {}
        far = [0]
        node = self._match(('ref', rule), text, 0, memo, far)
        if node is None or node.end != len(text):
            pos = far[0] if node is None else max(far[0], node.end)
            raise ParseFailure(text, pos)
        return node

    def _match(self, e: Expr, text: str, pos: int, memo: dict, far: List[int]) -> Optional['Node']:
        key = (id(e), pos)
        if key in memo:
            return memo[key]
        k = e[0]
        res: Optional[Node] = None
        if k == 'lit':
            if text.startswith(e[1], pos):
                res = Node('lit', e[1], pos, pos + len(e[1]), [])
        elif k == 're':
            end = R.longest_prefix_match(self.regex_dfa(e[1], e[2]), text, pos)
            if end is not None:
                res = Node('re', e[1], pos, end, [])
        elif k == 'ref':
            sub = self._match(self.rules[e[1]], text, pos, memo, far)
            if sub is not None:
                res = Node('rule', e[1], pos, sub.end, [sub])
        elif k == 'seq':
            cur = pos
            kids: List[Node] = []
            for x in e[1]:
                sub = self._match(x, text, cur, memo, far)
                if sub is None:
                    kids = []
                    break
                kids.append(sub)
                cur = sub.end
            else:
                res = Node('seq', '', pos, cur, kids)
        elif k == 'alt':
            for i, x in enumerate(e[1]):
                sub = self._match(x, text, pos, memo, far)
                if sub is not None:
                    res = Node('alt', str(i), pos, sub.end, [sub])
                    break
        elif k == 'opt':
            sub = self._match(e[1], text, pos, memo, far)
            res = Node('opt', '', pos, sub.end if sub else pos, [sub] if sub else [])
        elif k in ('star', 'plus'):
            cur = pos
            kids = []
            while True:
                sub = self._match(e[1], text, cur, memo, far)
                if sub is None or sub.end == cur:
                    break
                kids.append(sub)
                cur = sub.end
            if k == 'star' or kids:
                res = Node(k, '', pos, cur, kids)
        elif k == 'not':
            if self._match(e[1], text, pos, memo, far) is None:
                res = Node('not', '', pos, pos, [])
        elif k == 'and':
            if self._match(e[1], text, pos, memo, far) is not None:
                res = Node('and', '', pos, pos, [])
        else:
            raise AnalysisError(f'peglite: bad node {k}')
        if res is None:
            if pos > far[0]:
                far[0] = pos
        memo[key] = res
        return res


class ParseFailure(Exception):
    def __init__(self, text: str, pos: int):
        super().__init__(f'no parse; furthest position {pos}: {text[:pos]!r} >>> {text[pos:pos + 20]!r}')
        self.text = text
        self.pos = pos


class Node:
    __slots__ = ('kind', 'label', 'start', 'end', 'children')

    def __init__(self, kind: str, label: str, start: int, end: int, children: List['Node']):
        self.kind = kind
        self.label = label
        self.start = start
        self.end = end
        self.children = children

    def first_rule_below(self, skip: Tuple[str, ...] = ('_',)) -> Optional['Node']:
        """First rule node (pre-order) strictly below this node whose name is not in `skip`."""
        stack = list(reversed(self.children))
        while stack:
            n = stack.pop()
            if n.kind == 'rule' and n.label not in skip:
                return n
            if not (n.kind == 'rule' and n.label in skip):
                stack.extend(reversed(n.children))
        return None

    def find_rules(self, name: str) -> List['Node']:
        out = []
        stack = [self]
        while stack:
            n = stack.pop()
            if n.kind == 'rule' and n.label == name:
                out.append(n)
            stack.extend(reversed(n.children))
        return out


def _refs(e: Expr) -> List[str]:
    k = e[0]
    if k == 'ref':
        return [e[1]]
    if k in ('seq', 'alt'):
        return [r for x in e[1] for r in _refs(x)]
    if k in ('opt', 'star', 'plus', 'not', 'and'):
        return _refs(e[1])
    return []


def longest_match_safe(pattern: str) -> bool:
    """True when the backtracking engine's match at a position is the longest prefix in the language: the pattern is one greedy
    repetition of a single character class / literal, or its language is prefix-free (at most one prefix can match)."""
    r = R.regex_to_re(pattern, 0)
    # single greedy repetition?  (lazy repetition parses to the same Re, so look at the platform parse tree)
    try:
        import re._constants as sc
        import re._parser as spr
    except ImportError:  # pragma: no cover
        import sre_constants as sc  # type: ignore
        import sre_parse as spr  # type: ignore
    parsed = spr.parse(pattern)
    items = list(parsed)
    single = (sc.IN, sc.LITERAL, sc.NOT_LITERAL, sc.ANY)
    # a fixed-length prefix of single-character items followed by ONE greedy repetition of a single-character item: the only freedom is
    # the repetition count and the greedy engine takes the maximum, i.e. the longest prefix in the language
    if items and items[-1][0] is sc.MAX_REPEAT and all(it_[0] in single for it_ in items[:-1]):
        _lo, _hi, sub = items[-1][1]
        subitems = list(sub)
        if len(subitems) == 1 and subitems[0][0] in single:
            return True
    return R.prefix_free(R.lang(r, pattern)) is None


# --------------------------------------------------------------------------------------
# grammar text -> rules
# --------------------------------------------------------------------------------------


class _P:
    def __init__(self, text: str, where: str):
        self.t = text
        self.i = 0
        self.where = where

    def err(self, msg: str):
        line = self.t.count('\n', 0, self.i) + 1
        raise AnalysisError(f'{self.where}: grammar text line {line}: {msg} near {self.t[self.i:self.i + 30]!r}')

    def ws(self) -> None:
        t = self.t
        while self.i < len(t):
            if t[self.i] in ' \t\r\n':
                self.i += 1
            elif t[self.i] == '#':
                while self.i < len(t) and t[self.i] != '\n':
                    self.i += 1
            else:
                break

    def label(self) -> Optional[str]:
        t, i = self.t, self.i
        j = i
        if j < len(t) and (t[j].isalpha() and t[j].isascii() or t[j] == '_'):
            j += 1
            while j < len(t) and (t[j].isascii() and t[j].isalnum() or t[j] == '_'):
                j += 1
            self.i = j
            name = t[i:j]
            self.ws()
            return name
        return None

    def string(self) -> Optional[str]:
        """A Python-style string literal (optional u/r prefix); returns its VALUE."""
        t, i = self.t, self.i
        j = i
        while j < len(t) and t[j] in 'urUR' and j - i < 2:
            j += 1
        if j >= len(t) or t[j] not in '"\'':
            return None
        q = t[j]
        k = j + 1
        while k < len(t) and t[k] != q:
            if t[k] == '\\':
                k += 1
            if k < len(t) and t[k] == '\n':
                self.err('newline in string literal')
            k += 1
        if k >= len(t):
            self.err('unterminated string literal')
        lit = t[i:k + 1]
        try:
            val = ast.literal_eval(lit)
        except (SyntaxError, ValueError) as ex:
            self.err(f'bad string literal {lit!r}: {ex}')
        if not isinstance(val, str):
            self.err('bytes literal not supported')
        self.i = k + 1
        return val

    def atom(self) -> Optional[Expr]:
        t = self.t
        if self.i >= len(t):
            return None
        c = t[self.i]
        if c == '(':
            self.i += 1
            self.ws()
            e = self.expression()
            if e is None:
                self.err('empty parentheses')
            if self.i >= len(t) or t[self.i] != ')':
                self.err('missing )')
            self.i += 1
            self.ws()
            return e
        if c == '~':
            self.i += 1
            pat = self.string()
            if pat is None:
                self.err('~ must be followed by a string literal')
            j = self.i
            while j < len(t) and t[j].isalpha() and t[j].lower() in 'ilmsuxa':
                j += 1
            flags = t[self.i:j]
            self.i = j
            self.ws()
            return ('re', pat, flags)
        s = self.string()
        if s is not None:
            self.ws()
            return ('lit', s)
        save = self.i
        name = self.label()
        if name is not None:
            if self.i < len(t) and t[self.i] == '=':  # that was the label of the next rule
                self.i = save
                return None
            return ('ref', name)
        return None

    def term(self) -> Optional[Expr]:
        t = self.t
        if self.i < len(t) and t[self.i] in '!&':
            op = t[self.i]
            self.i += 1
            inner = self.term()
            if inner is None:
                self.err('look-ahead without a term')
            return ('not' if op == '!' else 'and', inner)
        a = self.atom()
        if a is None:
            return None
        if self.i < len(t) and t[self.i] in '?*+':
            q = t[self.i]
            self.i += 1
            self.ws()
            return ({'?': 'opt', '*': 'star', '+': 'plus'}[q], a)
        if self.i < len(t) and t[self.i] == '{':
            self.err('{n,m} repetition is not supported')
        return a

    def expression(self) -> Optional[Expr]:
        first = self.term()
        if first is None:
            return None
        terms = [first]
        alts: List[Expr] = []
        saw_slash = False
        while True:
            if self.i < len(self.t) and self.t[self.i] == '/':
                self.i += 1
                self.ws()
                nxt = self.term()
                if nxt is None:
                    self.err('`/` without a term')
                if len(terms) > 1:
                    self.err('a sequence inside an alternation must be parenthesised (meaning differs between parsimonious releases)')
                if not saw_slash:
                    alts = [terms[0]]
                saw_slash = True
                alts.append(nxt)
                terms = [nxt]
                continue
            nxt = self.term()
            if nxt is None:
                break
            if saw_slash:
                self.err('a sequence inside an alternation must be parenthesised (meaning differs between parsimonious releases)')
            terms.append(nxt)
        if saw_slash:
            return ('alt', alts)
        return terms[0] if len(terms) == 1 else ('seq', terms)


def parse_grammar(text: str, where: str = 'grammar') -> Grammar:
    p = _P(text, where)
    p.ws()
    rules: Dict[str, Expr] = {}
    order: List[str] = []
    while p.i < len(p.t):
        name = p.label()
        if name is None:
            p.err('expected a rule name')
        if p.i >= len(p.t) or p.t[p.i] != '=':
            p.err(f'expected `=` after rule name {name}')
        p.i += 1
        p.ws()
        e = p.expression()
        if e is None:
            p.err(f'rule {name} has no expression')
        if name in rules:
            p.err(f'rule {name} defined twice')
        rules[name] = e  # type: ignore[index,assignment]
        order.append(name)  # type: ignore[arg-type]
    if not order:
        raise AnalysisError(f'{where}: no rules in the grammar text')
    return Grammar(rules, order, where)


def top_sequence_arity(g: Grammar, rule: str) -> Optional[int]:
    """Number of members parsimonious passes as visited_children for the rule: members of a top-level sequence; 1 for an alternation;
    None for terminals / references (children depend on the expression kind)."""
    e = g.rules[rule]
    if e[0] == 'seq':
        return len(e[1])
    if e[0] == 'alt':
        return 1
    if e[0] in ('opt', 'star', 'plus'):
        return None
    return None


# --------------------------------------------------------------------------------------
# parsimonious-shaped trees (what a NodeVisitor sees)
# --------------------------------------------------------------------------------------


class PNode:
    """A node as parsimonious builds it: `expr_name` is the rule name for the node of a rule's own expression ('' for anonymous
    sub-expressions), `children` follow the expression kind (sequence: one per member; ordered choice: the matched alternative only;
    optional / repetition: the matches; literal / regex / look-ahead: none)."""
    __slots__ = ('expr_name', 'full_text', 'start', 'end', 'children')

    def __init__(self, expr_name: str, full_text: str, start: int, end: int, children: List['PNode']):
        self.expr_name = expr_name
        self.full_text = full_text
        self.start = start
        self.end = end
        self.children = children

    @property
    def text(self) -> str:
        return self.full_text[self.start:self.end]


def parsimonious_tree(g: Grammar, text: str, rule: Optional[str] = None) -> PNode:
    """Full parse of `text` and conversion to the node shapes parsimonious hands to NodeVisitor.visit (ParseFailure if no parse)."""
    rule = rule or g.default
    node = g.parse(text, rule)
    for name, e in g.rules.items():
        if e[0] == 'ref':
            raise AnalysisError(f'{g.where}: rule {name} is a bare alias of {e[1]}; its node name differs between parsimonious releases')
        for sub in _subexprs(e):
            if sub[0] in ('star', 'plus') and _nullable(g, sub[1], set()):
                raise AnalysisError(f'{g.where}: rule {name} repeats an expression that can match the empty string; parsimonious releases '
                                    'differ on the children of such a node')

    def conv(n: Node, name: str) -> PNode:
        if n.kind == 'rule':
            if name:
                raise AnalysisError(f'{g.where}: alias chain at rule {name}')
            return conv(n.children[0], n.label)
        if n.kind in ('lit', 're', 'not', 'and'):
            return PNode(name, text, n.start, n.end, [])
        return PNode(name, text, n.start, n.end, [conv(c, '') for c in n.children])
    return conv(node, '')


def _subexprs(e: Expr) -> List[Expr]:
    out = [e]
    if e[0] in ('seq', 'alt'):
        for x in e[1]:
            out += _subexprs(x)
    elif e[0] in ('opt', 'star', 'plus', 'not', 'and'):
        out += _subexprs(e[1])
    return out


def _nullable(g: Grammar, e: Expr, seen: set) -> bool:
    k = e[0]
    if k == 'lit':
        return e[1] == ''
    if k == 're':
        return R.accepts(R.from_regex(e[1], 0, 'fullmatch'), '')
    if k == 'ref':
        if e[1] in seen:
            return False
        return _nullable(g, g.rules[e[1]], seen | {e[1]})
    if k == 'seq':
        return all(_nullable(g, x, seen) for x in e[1])
    if k == 'alt':
        return any(_nullable(g, x, seen) for x in e[1])
    if k in ('opt', 'star', 'not', 'and'):
        return True
    if k == 'plus':
        return _nullable(g, e[1], seen)
    return False
