"""Polynomial normal forms over NON-NEGATIVE integer unknowns, with sign decision by coefficient inspection.

Used for the finite case analysis of integer arithmetic taken from a syntax tree (part sizes, offsets, byte counters):
a case such as "rem > 0 and part_size > rem" is expressed by *substitution* with slack unknowns that range over the
naturals (rem = 1 + r, part_size = rem + 1 + s), never by side conditions.  Then

    P == 0 identically            <=>  P has no terms
    every coefficient of P >= 0   ==>  P >= 0 for every value of the unknowns      (and > 0 when the constant term is > 0)
    every coefficient of P <= 0   ==>  P <= 0                                       (and < 0 when the constant term is < 0)

anything else is *undecided* (None): the caller must decline, it must not alarm.  A refutation is only ever reported
with a concrete witness (`Poly.at(point)`), which is an ordinary integer evaluation of the normal form.

No solver, no search: ring operations on dictionaries of integer coefficients.  Nothing from the repository is run.
"""
from __future__ import annotations

import itertools
from typing import Dict, Iterable, Iterator, Mapping, Optional, Tuple

Mono = Tuple[str, ...]  # sorted tuple of unknown names, with repetition; () is the constant monomial


class Poly:
    __slots__ = ('t',)

    def __init__(self, terms: Optional[Mapping[Mono, int]] = None):
        self.t: Dict[Mono, int] = {m: c for m, c in (terms or {}).items() if c != 0}

    # -- constructors ---------------------------------------------------------
    @staticmethod
    def const(c: int) -> 'Poly':
        return Poly({(): int(c)})

    @staticmethod
    def var(name: str) -> 'Poly':
        return Poly({(name,): 1})

    # -- ring -----------------------------------------------------------------
    def __add__(self, o: 'Poly') -> 'Poly':
        t = dict(self.t)
        for m, c in o.t.items():
            t[m] = t.get(m, 0) + c
        return Poly(t)

    def __neg__(self) -> 'Poly':
        return Poly({m: -c for m, c in self.t.items()})

    def __sub__(self, o: 'Poly') -> 'Poly':
        return self + (-o)

    def __mul__(self, o: 'Poly') -> 'Poly':
        t: Dict[Mono, int] = {}
        for m1, c1 in self.t.items():
            for m2, c2 in o.t.items():
                m = tuple(sorted(m1 + m2))
                t[m] = t.get(m, 0) + c1 * c2
        return Poly(t)

    def __eq__(self, o: object) -> bool:
        return isinstance(o, Poly) and self.t == o.t

    def __hash__(self) -> int:  # pragma: no cover
        return hash(tuple(sorted(self.t.items())))

    # -- queries --------------------------------------------------------------
    def is_zero(self) -> bool:
        return not self.t

    def is_const(self) -> bool:
        return all(m == () for m in self.t)

    def const_value(self) -> int:
        return self.t.get((), 0)

    def unknowns(self) -> Tuple[str, ...]:
        return tuple(sorted({v for m in self.t for v in m}))

    def subst(self, sub: Mapping[str, 'Poly']) -> 'Poly':
        out = Poly()
        for m, c in self.t.items():
            term = Poly.const(c)
            for v in m:
                term = term * (sub[v] if v in sub else Poly.var(v))
            out = out + term
        return out

    def at(self, point: Mapping[str, int], default: int = 0) -> int:
        total = 0
        for m, c in self.t.items():
            x = c
            for v in m:
                x *= point.get(v, default)
            total += x
        return total

    def sign(self) -> Optional[str]:
        """'0' | '>0' | '>=0' | '<0' | '<=0' | None (undecided), all unknowns ranging over the naturals."""
        if not self.t:
            return '0'
        cs = list(self.t.values())
        if all(c > 0 for c in cs):
            return '>0' if self.t.get((), 0) > 0 else '>=0'
        if all(c < 0 for c in cs):
            return '<0' if self.t.get((), 0) < 0 else '<=0'
        return None

    def __repr__(self) -> str:
        if not self.t:
            return '0'
        parts = []
        for m in sorted(self.t, key=lambda k: (len(k), k)):
            c = self.t[m]
            body = '*'.join(m)
            if not m:
                s = str(abs(c))
            elif abs(c) == 1:
                s = body
            else:
                s = f'{abs(c)}*{body}'
            parts.append(('-' if c < 0 else '+') + ' ' + s)
        text = ' '.join(parts)
        return text[2:] if text.startswith('+ ') else text


ZERO = Poly()
ONE = Poly.const(1)


def decide(op: str, a: Poly, b: Poly) -> Optional[bool]:
    """Truth of `a op b` for every value of the (non-negative) unknowns, or None when it is not uniform / not decided."""
    s = (a - b).sign()
    if s is None:
        return None
    table = {
        '==': {'0': True, '>0': False, '<0': False},
        '!=': {'0': False, '>0': True, '<0': True},
        '<': {'<0': True, '0': False, '>0': False, '>=0': False},
        '<=': {'<0': True, '<=0': True, '0': True, '>0': False},
        '>': {'>0': True, '0': False, '<0': False, '<=0': False},
        '>=': {'>0': True, '>=0': True, '0': True, '<0': False},
    }
    return table[op].get(s)


def witnesses(unknowns: Iterable[str], values: Tuple[int, ...] = (0, 1, 2), limit: int = 243) -> Iterator[Dict[str, int]]:
    """Small points of N^k (all-zero first): every one is a legal valuation of slack unknowns."""
    us = sorted(set(unknowns))
    n = 0
    for combo in sorted(itertools.product(values, repeat=len(us)), key=lambda c: (sum(c), c)):
        yield dict(zip(us, combo))
        n += 1
        if n >= limit:
            return
