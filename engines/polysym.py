"""Path-wise abstract execution (symbolic transfer functions) of a small loop body over polynomial normal forms (serves C11).

A loop body made of assignments to locals, `if` tests, calls that mutate *named ordered sets* (`S.add(x)`, `S.remove(x)`),
calls of one *named local helper*, `continue` / `break` is executed once per branch combination.  Values are

    Poly            polynomial with rational coefficients over named symbols (start-of-iteration quantities)
    NONE            the literal None
    Elem(S, i)      the element S[i] of an ordered set (i == 0: its head)
    Quot / Rnd      p / q + c   and   int()/round()/floor()/ceil() of such a quotient
    Mix             polynomial +/- one rounded (or exact) quotient

Every `if` atom becomes a *constraint* (emptiness of a set, sign of a polynomial difference) recorded on the path together with
the truth value chosen, so that a caller can enumerate finite scenarios (order relation x emptiness) and find the unique path each
scenario takes.  Nothing is imported, run or sampled; the only arithmetic is on literal coefficients.  Anything outside this
fragment raises AnalysisError (the caller declines, it never alarms).
"""
from __future__ import annotations

import ast
from fractions import Fraction
from typing import Dict, List, Optional, Sequence, Tuple

from . import pyfacts as pf
from .common import AnalysisError

# --------------------------------------------------------------------------------------
# polynomials
# --------------------------------------------------------------------------------------

Mono = Tuple[str, ...]


class Poly:
    __slots__ = ('t',)

    def __init__(self, terms: Optional[Dict[Mono, Fraction]] = None):
        self.t: Dict[Mono, Fraction] = {k: Fraction(v) for k, v in (terms or {}).items() if v != 0}

    @staticmethod
    def const(c) -> 'Poly':
        return Poly({(): Fraction(c)})

    @staticmethod
    def sym(s: str) -> 'Poly':
        return Poly({(s,): Fraction(1)})

    def __add__(self, o: 'Poly') -> 'Poly':
        t = dict(self.t)
        for k, v in o.t.items():
            t[k] = t.get(k, Fraction(0)) + v
        return Poly(t)

    def __neg__(self) -> 'Poly':
        return Poly({k: -v for k, v in self.t.items()})

    def __sub__(self, o: 'Poly') -> 'Poly':
        return self + (-o)

    def __mul__(self, o: 'Poly') -> 'Poly':
        t: Dict[Mono, Fraction] = {}
        for k1, v1 in self.t.items():
            for k2, v2 in o.t.items():
                k = tuple(sorted(k1 + k2))
                t[k] = t.get(k, Fraction(0)) + v1 * v2
        return Poly(t)

    def scale(self, c) -> 'Poly':
        return Poly({k: v * Fraction(c) for k, v in self.t.items()})

    def __eq__(self, o: object) -> bool:
        return isinstance(o, Poly) and self.t == o.t

    def __hash__(self) -> int:
        return hash(tuple(sorted(self.t.items())))

    def is_const(self) -> bool:
        return all(k == () for k in self.t)

    def const_value(self) -> Fraction:
        return self.t.get((), Fraction(0))

    def symbols(self) -> List[str]:
        return sorted({s for k in self.t for s in k})

    def integral(self) -> bool:
        return all(v.denominator == 1 for v in self.t.values())

    def coef(self, *mono: str) -> Fraction:
        return self.t.get(tuple(sorted(mono)), Fraction(0))

    def __repr__(self) -> str:
        if not self.t:
            return '0'
        parts = []
        for k in sorted(self.t, key=lambda m: (len(m), m)):
            v = self.t[k]
            c = str(v.numerator) if v.denominator == 1 else str(float(v))
            if not k:
                parts.append(c)
            elif v == 1:
                parts.append('*'.join(k))
            elif v == -1:
                parts.append('-' + '*'.join(k))
            else:
                parts.append(c + '*' + '*'.join(k))
        return ' + '.join(parts).replace('+ -', '- ')


class _NoneT:
    def __repr__(self) -> str:
        return 'None'


NONE = _NoneT()


class Elem:
    def __init__(self, s: str, idx: int):
        self.set = s
        self.idx = idx

    def __eq__(self, o: object) -> bool:
        return isinstance(o, Elem) and (self.set, self.idx) == (o.set, o.idx)

    def __hash__(self) -> int:
        return hash((self.set, self.idx))

    def __repr__(self) -> str:
        return f'{self.set}[{self.idx}]'


class SetRef:
    def __init__(self, name: str):
        self.name = name


class DictRef:
    def __init__(self, name: str):
        self.name = name


class UserVar:
    def __init__(self, name: str):
        self.name = name

    def __eq__(self, o: object) -> bool:
        return isinstance(o, UserVar) and self.name == o.name

    def __hash__(self) -> int:
        return hash(('uv', self.name))

    def __repr__(self) -> str:
        return self.name


class Quot:
    """num / den + off"""

    def __init__(self, num: Poly, den: Poly, off: Fraction = Fraction(0)):
        self.num, self.den, self.off = num, den, Fraction(off)

    def __repr__(self) -> str:
        o = '' if self.off == 0 else f' + {float(self.off)}'
        return f'({self.num}) / ({self.den}){o}'


class Rnd:
    """mode(quot); mode in trunc | round | floor | ceil | exact (no rounding)"""

    def __init__(self, q: Quot, mode: str):
        self.q, self.mode = q, mode

    def __repr__(self) -> str:
        return f'{self.mode}({self.q})' if self.mode != 'exact' else repr(self.q)


class Mix:
    """poly + sign * rnd"""

    def __init__(self, poly: Poly, rnd: Rnd, sign: int):
        self.poly, self.rnd, self.sign = poly, rnd, sign

    def __repr__(self) -> str:
        return f'{self.poly} {"+" if self.sign > 0 else "-"} {self.rnd}'


class Trunc:
    """mode(poly) of a polynomial with non-integral coefficients (e.g. int(x - y + 0.5))"""

    def __init__(self, poly: Poly, mode: str):
        self.poly, self.mode = poly, mode

    def __repr__(self) -> str:
        return f'{self.mode}({self.poly})'


def as_poly(v):
    """A rounded polynomial whose non-constant coefficients are integral, read over integer symbols and a non-negative value:
    only the constant is rounded (int(F + 0.5) == F).  Anything else is returned unchanged."""
    import math
    if isinstance(v, Trunc) and all(c.denominator == 1 for k, c in v.poly.t.items() if k):
        c = v.poly.const_value()
        r = {'trunc': math.floor(c), 'floor': math.floor(c), 'ceil': math.ceil(c), 'round': math.floor(c + Fraction(1, 2))}[v.mode]
        return v.poly - Poly.const(c) + Poly.const(r)
    return v


ROUNDERS = {'int': 'trunc', 'round': 'round', 'math.floor': 'floor', 'math.ceil': 'ceil', 'floor': 'floor', 'ceil': 'ceil'}

# --------------------------------------------------------------------------------------
# constraints / paths
# --------------------------------------------------------------------------------------


class Constraint:
    """kind 'ne'   : set `set` is non-empty (polarity pol: the atom is true iff nonempty == pol)
       kind 'cmp'  : diff <op> 0
       kind 'head' : the path reads set[idx] (always true; a crash if the set is empty)"""

    def __init__(self, kind: str, src: str, set_: str = '', pol: bool = True, diff: Optional[Poly] = None, op: str = ''):
        self.kind, self.src, self.set, self.pol, self.diff, self.op = kind, src, set_, pol, diff, op

    def __repr__(self) -> str:
        return f'<{self.kind} {self.src}>'


class Path:
    def __init__(self, env: Dict[str, object]):
        self.env = dict(env)
        self.eff: List[tuple] = []          # ('remove'|'add'|'discard', set, value, lineno) | ('alloc', user, mark, lineno)
        self.cons: List[Tuple[Constraint, bool]] = []
        self.outcome = 'fall'
        self.err: Optional[str] = None
        self.touched: set = set()           # sets mutated so far on this path

    def fork(self) -> 'Path':
        p = Path(self.env)
        p.eff = list(self.eff)
        p.cons = list(self.cons)
        p.outcome = self.outcome
        p.err = self.err
        p.touched = set(self.touched)
        return p


OPN = {ast.Lt: '<', ast.LtE: '<=', ast.Gt: '>', ast.GtE: '>=', ast.Eq: '==', ast.NotEq: '!='}


def cmp0(v, op: str) -> bool:
    return {'<': v < 0, '<=': v <= 0, '>': v > 0, '>=': v >= 0, '==': v == 0, '!=': v != 0}[op]


class SymExec:
    def __init__(self, sets: Sequence[str], dicts: Sequence[str], helper: Optional[str], where: str, noop_calls: Sequence[str] = ('log.',)):
        self.sets = list(sets)
        self.dicts = list(dicts)
        self.helper = helper
        self.where = where
        self.noop_calls = tuple(noop_calls)
        self.valsyms: Dict[str, Tuple[str, object, Optional[int]]] = {}   # symbol -> (dict, set | 'user', idx)
        self.lensyms: Dict[str, str] = {}                                # symbol -> set
        self.aggs: Dict[str, Tuple[str, List[Poly]]] = {}                # symbol -> ('min'|'max', candidates)

    def err(self, msg: str) -> AnalysisError:
        return AnalysisError(f'{self.where}: {msg}')

    # ---- expressions ------------------------------------------------------------------
    def ev(self, e: ast.AST, p: Path):
        if isinstance(e, ast.Constant):
            if e.value is None:
                return NONE
            if isinstance(e.value, bool) or not isinstance(e.value, (int, float)):
                raise self.err(f'literal {e.value!r} is not a number')
            return Poly.const(Fraction(e.value))
        if isinstance(e, ast.Name):
            if e.id in p.env:
                return p.env[e.id]
            if e.id in self.sets:
                return SetRef(e.id)
            if e.id in self.dicts:
                return DictRef(e.id)
            raise self.err(f'`{e.id}` is read before it is assigned in this iteration')
        if isinstance(e, ast.Subscript):
            base = self.ev(e.value, p)
            if isinstance(base, SetRef):
                idx = None
                if isinstance(e.slice, ast.Constant) and isinstance(e.slice.value, int):
                    idx = e.slice.value
                elif isinstance(e.slice, ast.UnaryOp) and isinstance(e.slice.op, ast.USub) and isinstance(e.slice.operand, ast.Constant):
                    idx = -e.slice.operand.value
                if idx is None:
                    raise self.err(f'`{pf.nsrc(e)}` indexes an ordered set with a non-literal')
                if base.name in p.touched:
                    raise self.err(f'`{pf.nsrc(e)}` is read after {base.name} was modified in the same iteration')
                p.cons.append((Constraint('head', pf.nsrc(e), set_=base.name), True))
                return Elem(base.name, idx)
            if isinstance(base, DictRef):
                k = self.ev(e.slice, p)
                if isinstance(k, Elem):
                    s = f'{base.name}[{k.set}[{k.idx}]]'
                    self.valsyms[s] = (base.name, k.set, k.idx)
                    return Poly.sym(s)
                if isinstance(k, UserVar):
                    s = f'{base.name}[{k.name}]'
                    self.valsyms[s] = (base.name, 'user', None)
                    return Poly.sym(s)
                raise self.err(f'`{pf.nsrc(e)}` looks up a key that is not an element of one of the ordered sets')
            raise self.err(f'unsupported subscript `{pf.nsrc(e)}`')
        if isinstance(e, ast.UnaryOp) and isinstance(e.op, (ast.USub, ast.UAdd)):
            v = self.ev(e.operand, p)
            if not isinstance(v, Poly):
                raise self.err(f'unsupported operand in `{pf.nsrc(e)}`')
            return -v if isinstance(e.op, ast.USub) else v
        if isinstance(e, ast.BinOp):
            return self.binop(e, self.ev(e.left, p), self.ev(e.right, p))
        if isinstance(e, ast.Call):
            return self.call(e, p)
        raise self.err(f'unsupported expression `{pf.nsrc(e)}`')

    def binop(self, e: ast.BinOp, a, b):
        op = e.op
        a, b = as_poly(a), as_poly(b)
        if isinstance(op, (ast.Add, ast.Sub)):
            sg = 1 if isinstance(op, ast.Add) else -1
            if isinstance(a, Poly) and isinstance(b, Poly):
                return a + b if sg > 0 else a - b
            if isinstance(a, Quot) and isinstance(b, Poly) and b.is_const():
                return Quot(a.num, a.den, a.off + sg * b.const_value())
            if isinstance(a, Poly) and a.is_const() and isinstance(b, Quot) and sg > 0:
                return Quot(b.num, b.den, b.off + a.const_value())
            if isinstance(b, Quot):
                b = Rnd(b, 'exact')
            if isinstance(a, Quot):
                a = Rnd(a, 'exact')
            if isinstance(a, Poly) and isinstance(b, Rnd):
                return Mix(a, b, sg)
            if isinstance(a, Rnd) and isinstance(b, Poly) and sg > 0:
                return Mix(b, a, 1)
            if isinstance(a, Rnd) and isinstance(b, Poly):
                return Mix(-b, a, 1)
            if isinstance(a, Mix) and isinstance(b, Poly):
                return Mix(a.poly + b if sg > 0 else a.poly - b, a.rnd, a.sign)
        if isinstance(op, ast.Mult) and isinstance(a, Poly) and isinstance(b, Poly):
            return a * b
        if isinstance(op, ast.Div) and isinstance(a, Poly) and isinstance(b, Poly):
            if b.is_const():
                if b.const_value() == 0:
                    raise self.err(f'`{pf.nsrc(e)}` divides by the literal 0')
                return a.scale(1 / b.const_value())
            return Quot(a, b)
        if isinstance(op, ast.FloorDiv) and isinstance(a, Poly) and isinstance(b, Poly) and not b.is_const():
            return Rnd(Quot(a, b), 'floor')
        raise self.err(f'unsupported arithmetic `{pf.nsrc(e)}`')

    def call(self, e: ast.Call, p: Path):
        name = pf.dotted(e.func) or ''
        if name == 'len' and len(e.args) == 1 and not e.keywords and isinstance(e.args[0], ast.Name) and e.args[0].id not in p.env \
                and e.args[0].id not in self.sets:
            # size of some other container of the enclosing function: an opaque quantity (never equal to a set size by form)
            s = f'len({e.args[0].id})'
            self.lensyms[s] = e.args[0].id
            return Poly.sym(s)
        if name == 'len' and len(e.args) == 1 and not e.keywords:
            v = self.ev(e.args[0], p)
            if isinstance(v, SetRef):
                if v.name in p.touched:
                    raise self.err(f'`{pf.nsrc(e)}` is read after {v.name} was modified in the same iteration')
                s = f'len({v.name})'
                self.lensyms[s] = v.name
                return Poly.sym(s)
            raise self.err(f'`{pf.nsrc(e)}`: len of something that is not one of the ordered sets')
        if name in ROUNDERS and len(e.args) == 1 and not e.keywords:
            v = self.ev(e.args[0], p)
            mode = ROUNDERS[name]
            if isinstance(v, Poly):
                return v if v.integral() else Trunc(v, mode)
            if isinstance(v, Quot):
                return Rnd(v, mode)
            if isinstance(v, Rnd) and v.mode != 'exact':
                return v
            raise self.err(f'unsupported rounding `{pf.nsrc(e)}`')
        if name in ('min', 'max') and not e.keywords:
            cands: List[object] = []
            filtered = False
            if len(e.args) == 1 and isinstance(e.args[0], (ast.GeneratorExp, ast.ListComp)):
                g = e.args[0]
                if len(g.generators) != 1 or g.generators[0].is_async or not isinstance(g.generators[0].target, ast.Name) \
                        or not (isinstance(g.elt, ast.Name) and g.elt.id == g.generators[0].target.id) \
                        or not isinstance(g.generators[0].iter, (ast.List, ast.Tuple)):
                    raise self.err(f'unrecognised {name}() argument `{pf.nsrc(g)}`')
                tv = g.generators[0].target.id
                for cond in g.generators[0].ifs:
                    ok = isinstance(cond, ast.Compare) and len(cond.ops) == 1 and isinstance(cond.ops[0], ast.IsNot) \
                        and isinstance(cond.left, ast.Name) and cond.left.id == tv \
                        and isinstance(cond.comparators[0], ast.Constant) and cond.comparators[0].value is None
                    if not ok:
                        raise self.err(f'unrecognised filter `{pf.nsrc(cond)}` in {name}()')
                    filtered = True
                cands = [self.ev(x, p) for x in g.generators[0].iter.elts]
            elif len(e.args) == 1 and isinstance(e.args[0], (ast.List, ast.Tuple)):
                cands = [self.ev(x, p) for x in e.args[0].elts]
            elif len(e.args) >= 2:
                cands = [self.ev(x, p) for x in e.args]
            else:
                raise self.err(f'unrecognised call `{pf.nsrc(e)}`')
            if any(c is NONE for c in cands):
                if not filtered:
                    raise self.err(f'`{pf.nsrc(e)}` compares None on this path (TypeError at run time)')
                cands = [c for c in cands if c is not NONE]
            if not all(isinstance(c, Poly) for c in cands):
                raise self.err(f'`{pf.nsrc(e)}` ranges over non-numeric values')
            uniq: List[Poly] = []
            for c in cands:
                if c not in uniq:
                    uniq.append(c)  # type: ignore[arg-type]
            if not uniq:
                raise self.err(f'`{pf.nsrc(e)}` is taken over an empty sequence on this path (ValueError at run time)')
            if len(uniq) == 1:
                return uniq[0]
            s = f'{name}(' + ', '.join(sorted(repr(c) for c in uniq)) + ')'
            self.aggs[s] = (name, uniq)
            return Poly.sym(s)
        raise self.err(f'unrecognised call `{pf.nsrc(e)}`')

    # ---- tests ------------------------------------------------------------------------
    def atom(self, a: ast.AST, p: Path):
        """bool (decided) or Constraint."""
        src = pf.nsrc(a)
        if isinstance(a, ast.Name) and a.id in self.sets and a.id not in p.env:
            return self._ne(a.id, True, src, p)
        if isinstance(a, ast.Call) and pf.dotted(a.func) in ('bool', 'len') and len(a.args) == 1 and isinstance(a.args[0], ast.Name) \
                and a.args[0].id in self.sets:
            return self._ne(a.args[0].id, True, src, p)
        if isinstance(a, ast.Compare) and len(a.ops) == 1:
            op = a.ops[0]
            if isinstance(op, (ast.Is, ast.IsNot)):
                l, r = self.ev(a.left, p), self.ev(a.comparators[0], p)
                if r is NONE or l is NONE:
                    same = (l is NONE) and (r is NONE)
                    return same if isinstance(op, ast.Is) else not same
                raise self.err(f'unrecognised identity test `{src}`')
            if type(op) not in OPN:
                raise self.err(f'unrecognised comparison `{src}`')
            l, r = self.ev(a.left, p), self.ev(a.comparators[0], p)
            if not (isinstance(l, Poly) and isinstance(r, Poly)):
                raise self.err(f'`{src}` compares values that are not polynomial in the loop quantities ({l!r}, {r!r})')
            d = l - r
            o = OPN[type(op)]
            if d.is_const():
                return cmp0(d.const_value(), o)
            syms = d.symbols()
            if len(syms) == 1 and syms[0] in self.lensyms and d.coef(syms[0]) != 0 and all(len(k) <= 1 for k in d.t):
                # len(S) against a literal: decidable from emptiness only for thresholds around 0/1
                c1, c0 = d.coef(syms[0]), d.const_value()
                e_val = cmp0(c0, o)
                ne_vals = {cmp0(c1 * n + c0, o) for n in (1, 2, 10 ** 9)}
                if len(ne_vals) != 1:
                    raise self.err(f'`{src}` depends on the exact size of {self.lensyms[syms[0]]}')
                nv = ne_vals.pop()
                if nv == e_val:
                    return nv
                return self._ne(self.lensyms[syms[0]], nv, src, p)
            return Constraint('cmp', src, diff=d, op=o)
        raise self.err(f'unrecognised test atom `{src}`')

    def _ne(self, s: str, pol: bool, src: str, p: Path) -> Constraint:
        if s in p.touched:
            raise self.err(f'`{src}` tests {s} after it was modified in the same iteration')
        return Constraint('ne', src, set_=s, pol=pol)

    def branch(self, test: ast.AST, p: Path) -> List[Tuple[Path, bool]]:
        if isinstance(test, ast.BoolOp):
            is_and = isinstance(test.op, ast.And)
            res: List[Tuple[Path, bool]] = [(p, is_and)]
            for v in test.values:
                nxt: List[Tuple[Path, bool]] = []
                for q, b in res:
                    if b != is_and:
                        nxt.append((q, b))      # short-circuited
                    else:
                        nxt.extend(self.branch(v, q))
                res = nxt
            return res
        if isinstance(test, ast.UnaryOp) and isinstance(test.op, ast.Not):
            return [(q, not b) for q, b in self.branch(test.operand, p)]
        if isinstance(test, ast.Constant):
            return [(p, bool(test.value))]
        c = self.atom(test, p)
        if isinstance(c, bool):
            return [(p, c)]
        out = []
        for val in (True, False):
            q = p.fork()
            q.cons.append((c, val))
            out.append((q, val))
        return out

    # ---- statements -------------------------------------------------------------------
    def block(self, stmts: Sequence[ast.stmt], p: Path) -> List[Path]:
        live = [p]
        done: List[Path] = []
        for st in stmts:
            nxt: List[Path] = []
            for q in live:
                for r in self.stmt(st, q):
                    (nxt if r.outcome == 'fall' and r.err is None else done).append(r)
            live = nxt
            if len(live) + len(done) > 512:
                raise self.err('too many paths through the loop body')
        return done + live

    def stmt(self, st: ast.stmt, p: Path) -> List[Path]:
        try:
            return self._stmt(st, p)
        except AnalysisError as e:
            q = p.fork()
            q.err = str(e)
            q.outcome = 'error'
            return [q]

    def _assign(self, name: str, v, p: Path) -> None:
        if name in self.sets or name in self.dicts:
            raise self.err(f'`{name}` is rebound inside the loop')
        p.env[name] = v

    def _stmt(self, st: ast.stmt, p: Path) -> List[Path]:
        if isinstance(st, ast.Pass):
            return [p]
        if isinstance(st, ast.Continue):
            p.outcome = 'continue'
            return [p]
        if isinstance(st, ast.Break):
            p.outcome = 'break'
            return [p]
        if isinstance(st, ast.Assign) and len(st.targets) == 1 and isinstance(st.targets[0], ast.Name):
            self._assign(st.targets[0].id, self.ev(st.value, p), p)
            return [p]
        if isinstance(st, ast.AnnAssign) and isinstance(st.target, ast.Name) and st.value is not None:
            self._assign(st.target.id, self.ev(st.value, p), p)
            return [p]
        if isinstance(st, ast.AugAssign) and isinstance(st.target, ast.Name):
            cur = self.ev(ast.Name(id=st.target.id, ctx=ast.Load()), p)
            fake = ast.BinOp(left=st.target, op=st.op, right=st.value)
            ast.copy_location(fake, st)
            self._assign(st.target.id, self.binop(fake, cur, self.ev(st.value, p)), p)
            return [p]
        if isinstance(st, ast.Expr) and isinstance(st.value, ast.Call):
            c = st.value
            name = pf.dotted(c.func) or ''
            if isinstance(c.func, ast.Attribute) and isinstance(c.func.value, ast.Name) and c.func.value.id in self.sets \
                    and c.func.attr in ('add', 'remove', 'discard') and len(c.args) == 1 and not c.keywords:
                v = self.ev(c.args[0], p)
                p.eff.append((c.func.attr if c.func.attr != 'discard' else 'remove', c.func.value.id, v, st.lineno))
                p.touched.add(c.func.value.id)
                return [p]
            if self.helper and name == self.helper and len(c.args) == 2 and not c.keywords:
                p.eff.append(('alloc', self.ev(c.args[0], p), self.ev(c.args[1], p), st.lineno))
                return [p]
            if name.startswith(self.noop_calls):
                return [p]
            raise self.err(f'unrecognised effect `{pf.nsrc(st)}`')
        if isinstance(st, ast.Expr) and isinstance(st.value, ast.Constant):
            return [p]
        if isinstance(st, ast.If):
            out: List[Path] = []
            for q, b in self.branch(st.test, p):
                out.extend(self.block(st.body if b else st.orelse, q))
            return out
        raise self.err(f'unsupported statement `{pf.nsrc(st)[:80]}` in the loop body')
