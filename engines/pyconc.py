"""pyconc - a small synchronous CONCRETE evaluator for a Python subset, over syntax trees loaded with engines/pyfacts.

Purpose (C31): evaluate the Hail type printers (`__str__`, `pretty`, `_parsable_string`), `hl.dtype` and the parsimonious visitor on
SAMPLE values with OUR evaluator, so that `dtype(str(t)) == t` can be decided per sample without importing or running the
repository.  Repository modules are parsed with `ast`, never imported; module-level names are evaluated lazily on first use; every
third-party object (parsimonious Grammar / NodeVisitor, reference genomes, ...) is a model supplied by the caller (`externals`,
`ExtObj`).  Platform functions on OUR OWN values (str / bytes / dict methods, `re`) are executed natively - that is the trusted
platform, not repository code.  Anything outside the subset raises `Unsupported` (an AnalysisError): the caller declines.

Differences from engines/minipy.py: synchronous (no coroutines), properties / classmethods / super(), generator expressions, dict and
set comprehensions, eager generators, `%` / `.format` formatting with interpreted `__str__`, interpreted `__eq__`, try/except over native
errors, typecheck-decorator coercions supplied by the caller.
"""
from __future__ import annotations

import ast
import builtins as _bi
import os
import re as _re
from typing import Any, Callable, Dict, List, Optional, Tuple

from . import pyfacts as pf
from .common import AnalysisError, repo_path


class Unsupported(AnalysisError):
    pass


class PyRaise(Exception):
    """An exception raised by interpreted code (or by a native operation on its behalf)."""

    def __init__(self, name: str, args: tuple = (), cls: Any = None):
        super().__init__(f'{name}{args!r}')
        self.name = name
        self.pargs = args
        self.cls = cls  # ClassRef for repository-defined exception classes


class _Return(Exception):
    def __init__(self, v: Any):
        self.v = v


class _Break(Exception):
    pass


class _Continue(Exception):
    pass


_NATIVE_ERRORS = (KeyError, IndexError, ValueError, TypeError, AttributeError, UnicodeError, ZeroDivisionError, StopIteration, OverflowError)


# ------------------------------------------------------------------------------------------------
# values
# ------------------------------------------------------------------------------------------------


class Mod:
    def __init__(self, pm: pf.Module):
        self.pm = pm
        self.rel = pm.rel
        self.cache: Dict[str, Any] = {}
        self.busy: set = set()

    def __repr__(self) -> str:
        return f'<module {self.rel}>'


class ClassRef:
    def __init__(self, mod: Mod, node: ast.ClassDef):
        self.mod = mod
        self.node = node
        self.name = node.name
        self.consts: Dict[str, Any] = {}
        self._mro: Optional[List['ClassRef']] = None
        self.ext_bases: List[str] = []

    def __repr__(self) -> str:
        return f'<class {self.name}>'


class Inst:
    def __init__(self, cls: ClassRef):
        self.cls = cls
        self.attrs: Dict[str, Any] = {}

    def __repr__(self) -> str:
        return f'<{self.cls.name} instance>'


class Func:
    def __init__(self, node: Any, mod: Mod, closure: Optional['Env'], cls: Optional[ClassRef], qual: str):
        self.node = node
        self.mod = mod
        self.closure = closure
        self.cls = cls
        self.qual = qual
        self.kind = 'plain'  # plain | property | cached_property | static | class
        self.checkers: Dict[str, ast.expr] = {}
        self.unknown_decorator: Optional[str] = None
        self.defaults: Optional[Dict[str, Any]] = None
        self.is_gen = False

    def __repr__(self) -> str:
        return f'<function {self.qual}>'


class Bound:
    def __init__(self, func: Any, self_obj: Any):
        self.func = func
        self.self_obj = self_obj


class Builtin:
    def __init__(self, name: str, fn: Callable):
        self.name = name
        self.fn = fn  # fn(interp, args, kwargs)

    def __repr__(self) -> str:
        return f'<builtin {self.name}>'


class ExtRef:
    """A dotted name outside the repository (module or member) that has no model (yet): calling it is Unsupported unless
    `externals` has an entry."""

    def __init__(self, name: str):
        self.name = name

    def __repr__(self) -> str:
        return f'<external {self.name}>'


class ExtObj:
    """Base class of modelled third-party objects.  Subclasses override the py_* hooks they support."""
    kind = 'object'

    def py_getattr(self, it: 'Interp', name: str) -> Any:
        raise Unsupported(f'modelled {self.kind} has no attribute {name}')

    def py_iter(self, it: 'Interp') -> list:
        raise Unsupported(f'modelled {self.kind} is not iterable')

    def py_len(self, it: 'Interp') -> int:
        raise Unsupported(f'modelled {self.kind} has no len()')

    def py_bool(self, it: 'Interp') -> bool:
        return True

    def py_eq(self, it: 'Interp', other: Any) -> bool:
        return self is other

    def py_str(self, it: 'Interp') -> str:
        raise Unsupported(f'modelled {self.kind} has no str()')

    def py_isinstance(self, it: 'Interp', cls: Any) -> Optional[bool]:
        return None


class SuperProxy:
    def __init__(self, inst: Inst, after: ClassRef):
        self.inst = inst
        self.after = after


class Env:
    def __init__(self, parent: Optional['Env'], mod: Mod):
        self.vars: Dict[str, Any] = {}
        self.parent = parent
        self.mod = mod
        self.globals_decl: set = set()
        self.nonlocals: set = set()
        self.yields: Optional[list] = None
        self.cls: Optional[ClassRef] = None  # class whose method body this is (for zero-argument super())
        self.self_obj: Any = None

    def find(self, name: str) -> Optional['Env']:
        e: Optional[Env] = self
        while e is not None:
            if name in e.vars:
                return e
            e = e.parent
        return None


_MISSING = object()

_NATIVE_TYPES = {'int': int, 'str': str, 'bool': bool, 'float': float, 'bytes': bytes, 'tuple': tuple, 'list': list, 'dict': dict,
                 'set': set, 'frozenset': frozenset, 'object': object}

_STR_METHODS = {
    'strip', 'lstrip', 'rstrip', 'lower', 'upper', 'casefold', 'swapcase', 'title', 'capitalize', 'replace', 'split', 'rsplit', 'splitlines',
    'join', 'startswith', 'endswith', 'find', 'rfind', 'index', 'rindex', 'count', 'encode', 'format', 'isidentifier', 'isalnum', 'isalpha',
    'isdigit', 'isdecimal', 'isnumeric', 'isspace', 'isascii', 'islower', 'isupper', 'isprintable', 'partition', 'rpartition', 'zfill', 'ljust',
    'rjust', 'center', 'expandtabs', 'translate', 'removeprefix', 'removesuffix', 'format_map'}
_BYTES_METHODS = {'decode', 'replace', 'startswith', 'endswith', 'strip', 'split', 'join', 'hex', 'lower', 'upper', 'find', 'count'}
_LIST_METHODS = {'append', 'extend', 'insert', 'pop', 'remove', 'clear', 'copy', 'index', 'count', 'reverse', 'sort'}
_TUPLE_METHODS = {'index', 'count'}
_DICT_METHODS = {'get', 'setdefault', 'pop', 'popitem', 'clear', 'copy', 'update', 'items', 'keys', 'values', 'move_to_end', 'fromkeys'}
_SET_METHODS = {'add', 'discard', 'remove', 'clear', 'copy', 'union', 'intersection', 'difference', 'issubset', 'issuperset', 'update', 'pop',
                'isdisjoint', 'symmetric_difference'}
_INT_METHODS = {'bit_length', 'to_bytes'}
_PATTERN_METHODS = {'fullmatch', 'match', 'search', 'sub', 'subn', 'split', 'findall'}
_MATCH_METHODS = {'group', 'groups', 'start', 'end', 'span', 'groupdict'}


def _native_ok(v: Any, depth: int = 0) -> bool:
    """A value made of platform data only (safe to hand to a native method)."""
    if v is None or isinstance(v, (bool, int, float, str, bytes, _re.Pattern, _re.Match)):
        return True
    if depth > 6:
        return False
    if isinstance(v, (list, tuple, set, frozenset)):
        return all(_native_ok(x, depth + 1) for x in v)
    if isinstance(v, dict):
        return all(_native_ok(k, depth + 1) and _native_ok(x, depth + 1) for k, x in v.items())
    return False


class Interp:
    def __init__(self, externals: Optional[Dict[str, Any]] = None, package_roots: Optional[Dict[str, str]] = None,
                 coercers: Optional[Dict[str, Callable]] = None, ext_class_methods: Optional[Dict[str, Dict[str, Callable]]] = None,
                 max_steps: int = 3_000_000):
        self.externals: Dict[str, Any] = dict(DEFAULT_EXTERNALS)
        self.externals.update(externals or {})
        self.roots = package_roots or {}
        self.coercers = coercers or {}
        self.ext_class_methods = ext_class_methods or {}
        self.mods: Dict[str, Mod] = {}
        self.steps = 0
        self.max_steps = max_steps
        self.current_exc: Optional[PyRaise] = None
        self.trace: List[str] = []
        self._cm: Dict[tuple, Tuple[Any, Optional[ClassRef]]] = {}

    # ---- modules ------------------------------------------------------------------------------
    def module(self, rel: str) -> Mod:
        m = self.mods.get(rel)
        if m is None:
            m = Mod(pf.load(rel))
            self.mods[rel] = m
        return m

    def _rel_of_dotted(self, dotted: str) -> Optional[str]:
        for prefix, root in self.roots.items():
            if dotted == prefix or dotted.startswith(prefix + '.'):
                rest = dotted[len(prefix):].lstrip('.')
                base = root + ('/' + rest.replace('.', '/') if rest else '')
                for cand in (base + '.py', base + '/__init__.py'):
                    if os.path.exists(repo_path(cand)):
                        return cand
        return None

    def _import_from(self, mod: Mod, st: ast.ImportFrom, name: str) -> Any:
        if st.level > 0:
            base = os.path.dirname(mod.rel)
            for _ in range(st.level - 1):
                base = os.path.dirname(base)
            parts = [p for p in (st.module or '').split('.') if p]
            stem = os.path.join(base, *parts) if parts else base
            cands = [stem + '.py', os.path.join(stem, '__init__.py')] if parts else [os.path.join(stem, '__init__.py')]
            # `from . import x` / `from .pkg import submodule`
            sub = [os.path.join(stem, name + '.py'), os.path.join(stem, name, '__init__.py')]
            for rel in cands:
                if os.path.exists(repo_path(rel)):
                    target = self.module(rel)
                    try:
                        return self.global_lookup(target, name)
                    except Unsupported:
                        break
            for rel in sub:
                if os.path.exists(repo_path(rel)):
                    return self.module(rel)
            raise Unsupported(f'cannot resolve `from {"." * st.level}{st.module or ""} import {name}` in {mod.rel}')
        dn = f'{st.module}.{name}'
        if dn in self.externals:
            return self.externals[dn]
        rel2 = self._rel_of_dotted(st.module or '')
        if rel2 is not None:
            try:
                return self.global_lookup(self.module(rel2), name)
            except Unsupported:
                rel3 = self._rel_of_dotted(dn)
                if rel3 is not None:
                    return self.module(rel3)
                raise
        return ExtRef(dn)

    def global_lookup(self, mod: Mod, name: str) -> Any:
        if name in mod.cache:
            return mod.cache[name]
        if name in mod.busy:
            raise Unsupported(f'cyclic module-level definition of {name} in {mod.rel}')
        mod.busy.add(name)
        try:
            val: Any = _MISSING
            for st in self._top_level(mod.pm.tree.body):
                if isinstance(st, ast.ClassDef) and st.name == name:
                    val = self.make_class(mod, st)
                elif isinstance(st, (ast.FunctionDef, ast.AsyncFunctionDef)) and st.name == name:
                    if isinstance(st, ast.AsyncFunctionDef):
                        raise Unsupported(f'async function {name}')
                    val = self.make_function(st, mod, None, None, name)
                elif isinstance(st, ast.Assign):
                    for t in st.targets:
                        if isinstance(t, ast.Name) and t.id == name:
                            val = ('expr', st.value)
                        elif isinstance(t, (ast.Tuple, ast.List)) and any(isinstance(x, ast.Name) and x.id == name for x in ast.walk(t)):
                            raise Unsupported(f'module-level unpacking assignment of {name} in {mod.rel}')
                elif isinstance(st, ast.AnnAssign) and isinstance(st.target, ast.Name) and st.target.id == name and st.value is not None:
                    val = ('expr', st.value)
                elif isinstance(st, ast.AugAssign) and isinstance(st.target, ast.Name) and st.target.id == name:
                    raise Unsupported(f'module-level augmented assignment of {name} in {mod.rel}')
                elif isinstance(st, ast.Import):
                    for a in st.names:
                        local = a.asname or a.name.split('.')[0]
                        if local == name:
                            full = a.name if a.asname else a.name.split('.')[0]
                            if full in self.externals:
                                val = self.externals[full]
                            else:
                                rel2 = self._rel_of_dotted(full)
                                val = self.module(rel2) if rel2 is not None else ExtRef(full)
                elif isinstance(st, ast.ImportFrom):
                    for a in st.names:
                        if (a.asname or a.name) == name:
                            val = ('import', st, a.name)
            if isinstance(val, tuple) and val and val[0] == 'expr':
                val = self.ev(val[1], Env(None, mod))
            elif isinstance(val, tuple) and val and val[0] == 'import':
                val = self._import_from(mod, val[1], val[2])
            if val is _MISSING:
                if name in BUILTINS:
                    val = BUILTINS[name]
                elif name in _NATIVE_TYPES:
                    val = _NATIVE_TYPES[name]
                elif name in EXC_NAMES:
                    val = ExcName(name)
                else:
                    raise Unsupported(f'name {name} cannot be resolved in {mod.rel}')
            mod.cache[name] = val
            return val
        finally:
            mod.busy.discard(name)

    @staticmethod
    def _top_level(stmts: List[ast.stmt]):
        for st in stmts:
            if isinstance(st, (ast.If, ast.Try)):
                # definitions under `if TYPE_CHECKING:` / try-import blocks: first branch only
                yield from Interp._top_level(st.body)
            else:
                yield st

    def set_global(self, mod: Mod, name: str, v: Any) -> None:
        mod.cache[name] = v

    # ---- classes / functions ----------------------------------------------------------------
    def make_class(self, mod: Mod, node: ast.ClassDef) -> ClassRef:
        key = f'class:{id(node)}'
        c = mod.cache.get(key)
        if c is None:
            c = ClassRef(mod, node)
            mod.cache[key] = c
        return c

    def bases(self, c: ClassRef) -> List[Any]:
        out = []
        for b in c.node.bases:
            d = pf.dotted(b)
            if d is None:
                raise Unsupported(f'base class expression `{pf.nsrc(b)}` of {c.name}')
            if d in ('object',):
                continue
            head = d.split('.')[0]
            try:
                v = self.global_lookup(c.mod, head)
            except Unsupported:
                out.append(ExtRef(d))
                continue
            for part in d.split('.')[1:]:
                v = self.getattr(v, part)
            out.append(v)
        return out

    def mro(self, c: ClassRef) -> List[ClassRef]:
        if c._mro is None:
            seq: List[ClassRef] = [c]
            c.ext_bases = []
            for b in self.bases(c):
                if isinstance(b, ClassRef):
                    for x in self.mro(b):
                        if x in seq:
                            seq.remove(x)
                        seq.append(x)
                    c.ext_bases += [e for e in b.ext_bases if e not in c.ext_bases]
                elif isinstance(b, ExtRef):
                    c.ext_bases.append(b.name)
                elif isinstance(b, ExcName):
                    c.ext_bases.append('exc:' + b.name)
                elif b is object or isinstance(b, type):
                    continue
                else:
                    raise Unsupported(f'base {b!r} of class {c.name}')
            c._mro = seq
        return c._mro

    def make_function(self, node: Any, mod: Mod, closure: Optional[Env], cls: Optional[ClassRef], qual: str) -> Func:
        f = Func(node, mod, closure, cls, qual)
        if isinstance(node, ast.Lambda):
            return f
        f.is_gen = any(isinstance(n, (ast.Yield, ast.YieldFrom)) for n in pf.walk_shallow(node))
        for d in node.decorator_list:
            call = d.func if isinstance(d, ast.Call) else d
            dn = pf.dotted(call) or pf.nsrc(call)
            last = dn.split('.')[-1]
            if last == 'property' and dn in ('property', 'builtins.property'):
                f.kind = 'property'
            elif last == 'cached_property':
                f.kind = 'cached_property'
            elif dn == 'staticmethod':
                f.kind = 'static'
            elif dn == 'classmethod':
                f.kind = 'class'
            elif last in ('abstractmethod', 'override', 'final', 'wraps'):
                pass
            elif last in ('lru_cache', 'cache') and dn in ('lru_cache', 'cache', 'functools.lru_cache', 'functools.cache'):
                pass  # a memo keyed by the (hashable, here: platform) arguments themselves is transparent for a deterministic function
            elif last in ('typecheck', 'typecheck_method') and isinstance(d, ast.Call) and not d.args:
                for k in d.keywords:
                    if k.arg is None:
                        f.unknown_decorator = pf.nsrc(d)
                    else:
                        f.checkers[k.arg] = k.value
            else:
                f.unknown_decorator = pf.nsrc(d)
        return f

    def class_member(self, c: ClassRef, attr: str, start_after: Optional[ClassRef] = None) -> Tuple[Any, Optional[ClassRef]]:
        """Raw class-level member (Func or evaluated constant) found along the MRO, with its owner; (_MISSING, None) if absent."""
        ck = (c, attr, start_after)
        hit0 = self._cm.get(ck)
        if hit0 is not None:
            return hit0
        r = self._class_member(c, attr, start_after)
        self._cm[ck] = r
        return r

    def _class_member(self, c: ClassRef, attr: str, start_after: Optional[ClassRef]) -> Tuple[Any, Optional[ClassRef]]:
        chain = self.mro(c)
        if start_after is not None:
            chain = chain[chain.index(start_after) + 1:] if start_after in chain else []
        for k in chain:
            hit: Any = _MISSING
            for st in k.node.body:
                if isinstance(st, (ast.FunctionDef, ast.AsyncFunctionDef)) and st.name == attr:
                    if isinstance(st, ast.AsyncFunctionDef):
                        raise Unsupported(f'async method {k.name}.{attr}')
                    key = f'fn:{id(st)}'
                    fn = k.consts.get(key)
                    if fn is None:
                        fn = self.make_function(st, k.mod, None, k, f'{k.name}.{attr}')
                        k.consts[key] = fn
                    hit = fn
                elif isinstance(st, ast.Assign) and any(isinstance(t, ast.Name) and t.id == attr for t in st.targets):
                    hit = ('expr', st.value)
                elif isinstance(st, ast.AnnAssign) and isinstance(st.target, ast.Name) and st.target.id == attr and st.value is not None:
                    hit = ('expr', st.value)
            if hit is not _MISSING:
                if isinstance(hit, tuple):
                    if attr not in k.consts:
                        env = Env(None, k.mod)
                        env.vars.update({n: v for n, v in k.consts.items() if not n.startswith('fn:')})
                        k.consts[attr] = self.ev(hit[1], env)
                    return k.consts[attr], k
                return hit, k
        return _MISSING, None

    def _ext_method(self, c: ClassRef, attr: str) -> Optional[Callable]:
        self.mro(c)
        for e in c.ext_bases:
            tbl = self.ext_class_methods.get(e)
            if tbl is None:
                tbl = self.ext_class_methods.get(e.split('.')[-1])
            if tbl and attr in tbl:
                return tbl[attr]
        return None

    # ---- attribute access -------------------------------------------------------------------
    def getattr(self, v: Any, attr: str) -> Any:
        if isinstance(v, Inst):
            if attr in v.attrs:
                return v.attrs[attr]
            if attr == '__class__':
                return v.cls
            m, owner = self.class_member(v.cls, attr)
            if m is not _MISSING:
                return self._bind_member(m, v, attr)
            em = self._ext_method(v.cls, attr)
            if em is not None:
                return Builtin(f'{v.cls.name}.{attr}', lambda it, a, k, _m=em, _o=v: _m(it, _o, a, k))
            raise PyRaise('AttributeError', (f'{v.cls.name} object has no attribute {attr}',))
        if isinstance(v, SuperProxy):
            m, owner = self.class_member(v.inst.cls, attr, v.after)
            if m is not _MISSING:
                return self._bind_member(m, v.inst, attr)
            em = self._ext_method(v.inst.cls, attr)
            if em is not None:
                return Builtin(f'super.{attr}', lambda it, a, k, _m=em, _o=v.inst: _m(it, _o, a, k))
            if attr == '__init__':
                return Builtin('object.__init__', lambda it, a, k: None)
            raise Unsupported(f'super().{attr} not found')
        if isinstance(v, ClassRef):
            if attr == '__name__':
                return v.name
            m, owner = self.class_member(v, attr)
            if m is _MISSING:
                raise PyRaise('AttributeError', (f'class {v.name} has no attribute {attr}',))
            if isinstance(m, Func):
                if m.kind == 'class':
                    return Bound(m, v)
                return m
            return m
        if isinstance(v, Mod):
            return self.global_lookup(v, attr)
        if isinstance(v, ExtRef):
            dn = f'{v.name}.{attr}'
            if dn in self.externals:
                return self.externals[dn]
            return ExtRef(dn)
        if isinstance(v, ExtObj):
            return v.py_getattr(self, attr)
        if isinstance(v, Func) and attr in ('__name__', '__qualname__'):
            return v.qual.split('.')[-1]
        if isinstance(v, Func):
            fa = getattr(v, 'fattrs', None)
            if fa is None:
                fa = v.fattrs = {}  # type: ignore[attr-defined]
            if attr not in fa and isinstance(v.node, ast.FunctionDef) and v.cls is None and v.closure is None:
                # `f.attr = <expr>` at module level (function attributes used as state), evaluated on first use
                for st in self._top_level(v.mod.pm.tree.body):
                    if isinstance(st, ast.Assign) and len(st.targets) == 1 and isinstance(st.targets[0], ast.Attribute) and st.targets[0].attr == attr \
                            and isinstance(st.targets[0].value, ast.Name) and st.targets[0].value.id == v.node.name:
                        fa[attr] = self.ev(st.value, Env(None, v.mod))
            if attr in fa:
                return fa[attr]
            raise PyRaise('AttributeError', (f'function has no attribute {attr}',))
        tables = ((str, _STR_METHODS), (bytes, _BYTES_METHODS), (list, _LIST_METHODS), (tuple, _TUPLE_METHODS), (dict, _DICT_METHODS),
                  (set, _SET_METHODS), (frozenset, _SET_METHODS), (bool, set()), (int, _INT_METHODS), (_re.Pattern, _PATTERN_METHODS),
                  (_re.Match, _MATCH_METHODS))
        for ty, names in tables:
            if isinstance(v, ty):
                if attr in names:
                    return Builtin(f'{ty.__name__}.{attr}', lambda it, a, k, _v=v, _n=attr: it.native_method(_v, _n, a, k))
                if ty is _re.Pattern and attr in ('pattern', 'flags'):
                    return getattr(v, attr)
                break
        if isinstance(v, ExcValue) and attr == 'args':
            return v.args
        raise Unsupported(f'attribute {attr} of a {type(v).__name__} value')

    def _bind_member(self, m: Any, inst: Inst, attr: str) -> Any:
        if isinstance(m, Func):
            if m.kind == 'property':
                return self.call_function(m, [inst], {})
            if m.kind == 'cached_property':
                r = self.call_function(m, [inst], {})
                inst.attrs[attr] = r
                return r
            if m.kind == 'static':
                return m
            if m.kind == 'class':
                return Bound(m, inst.cls)
            return Bound(m, inst)
        return m

    def setattr(self, v: Any, attr: str, val: Any) -> None:
        if isinstance(v, Inst):
            m, _o = self.class_member(v.cls, attr)
            if isinstance(m, Func) and m.kind in ('property',):
                raise Unsupported(f'assignment to property {v.cls.name}.{attr}')
            v.attrs[attr] = val
        elif isinstance(v, ClassRef):
            v.consts[attr] = val
            self._cm.clear()
            # the owner along the MRO may differ; only direct class attributes are modelled
            if not any((isinstance(st, ast.Assign) and any(isinstance(t, ast.Name) and t.id == attr for t in st.targets))
                       or (isinstance(st, ast.AnnAssign) and isinstance(st.target, ast.Name) and st.target.id == attr) for st in v.node.body):
                raise Unsupported(f'new class attribute {v.name}.{attr}')
        elif isinstance(v, Func):
            if not hasattr(v, 'fattrs'):
                v.fattrs = {}  # type: ignore[attr-defined]
            v.fattrs[attr] = val  # type: ignore[attr-defined]
        else:
            raise Unsupported(f'attribute store on a {type(v).__name__} value')

    def native_method(self, v: Any, name: str, args: list, kwargs: dict) -> Any:
        if isinstance(v, str) and name in ('format', 'format_map'):
            args = [self._fmt_arg(a) for a in args]
            kwargs = {k: self._fmt_arg(a) for k, a in kwargs.items()}
        elif isinstance(v, (list, dict, set)) and name in ('append', 'insert', 'extend', 'setdefault', 'update', 'add', 'get', 'pop', 'remove', 'index', 'count', 'discard'):
            # containers may hold interpreted objects as VALUES; keys must be platform data
            if isinstance(v, dict) and name in ('setdefault', 'get', 'pop') and args:
                self._check_key(args[0])
            elif isinstance(v, dict) and name == 'update':
                for a in args:
                    if isinstance(a, dict):
                        for k in a:
                            self._check_key(k)
                    else:
                        raise Unsupported('dict.update with a non-dict')
            elif isinstance(v, set):
                for a in args:
                    self._check_key(a)
            elif isinstance(v, list) and name in ('remove', 'index', 'count'):
                if not _native_ok(args) or not _native_ok(v):
                    raise Unsupported(f'list.{name} over interpreted objects')
        elif isinstance(v, list) and name == 'sort':
            if kwargs or not _native_ok(v):
                raise Unsupported('list.sort with a key / over interpreted objects')
        elif not (_native_ok(args) and _native_ok(kwargs)):
            raise Unsupported(f'{type(v).__name__}.{name} with interpreted objects as arguments')
        try:
            r = getattr(v, name)(*args, **kwargs)
        except _NATIVE_ERRORS as e:
            raise PyRaise(type(e).__name__ if not isinstance(e, UnicodeError) else type(e).__name__, tuple(map(str, e.args))) from None
        except _re.error as e:
            raise PyRaise('re.error', (str(e),)) from None
        if isinstance(v, dict) and name in ('items', 'keys', 'values'):
            return list(r)
        return r

    def _fmt_arg(self, a: Any) -> Any:
        if isinstance(a, (Inst, ExtObj)):
            return self.to_str(a)
        if isinstance(a, (list, tuple, dict)) and not _native_ok(a):
            return self.to_repr(a)
        return a

    def _check_key(self, k: Any) -> None:
        if _native_ok(k):
            return
        if isinstance(k, tuple):
            for x in k:
                self._check_key(x)
            return
        if isinstance(k, Inst):
            if self.class_member(k.cls, '__eq__')[0] is _MISSING and self.class_member(k.cls, '__hash__')[0] is _MISSING:
                return
        raise Unsupported(f'a {type(k).__name__} value with its own __eq__/__hash__ used as a dict key / set member')

    # ---- conversions ---------------------------------------------------------------------------
    def to_str(self, v: Any) -> str:
        if isinstance(v, Inst):
            m, _o = self.class_member(v.cls, '__str__')
            if m is _MISSING:
                m, _o = self.class_member(v.cls, '__repr__')
            if m is _MISSING:
                raise Unsupported(f'str() of a {v.cls.name} without __str__')
            r = self.call_function(m, [v], {})
            if not isinstance(r, str):
                raise PyRaise('TypeError', ('__str__ returned non-string',))
            return r
        if isinstance(v, ExtObj):
            return v.py_str(self)
        if _native_ok(v):
            return str(v)
        if isinstance(v, (list, tuple, dict)):
            return self.to_repr(v)
        raise Unsupported(f'str() of a {type(v).__name__} value')

    def to_repr(self, v: Any) -> str:
        if isinstance(v, Inst):
            m, _o = self.class_member(v.cls, '__repr__')
            if m is _MISSING:
                raise Unsupported(f'repr() of a {v.cls.name} without __repr__')
            return self.call_function(m, [v], {})
        if _native_ok(v):
            return repr(v)
        if isinstance(v, list):
            return '[' + ', '.join(self.to_repr(x) for x in v) + ']'
        if isinstance(v, tuple):
            return '(' + ', '.join(self.to_repr(x) for x in v) + (',)' if len(v) == 1 else ')')
        if isinstance(v, dict):
            return '{' + ', '.join(f'{self.to_repr(k)}: {self.to_repr(x)}' for k, x in v.items()) + '}'
        raise Unsupported(f'repr() of a {type(v).__name__} value')

    def truth(self, v: Any) -> bool:
        if isinstance(v, Inst):
            m, _o = self.class_member(v.cls, '__bool__')
            if m is not _MISSING:
                return bool(self.call_function(m, [v], {}))
            m, _o = self.class_member(v.cls, '__len__')
            if m is not _MISSING:
                return self.call_function(m, [v], {}) != 0
            return True
        if isinstance(v, ExtObj):
            return v.py_bool(self)
        if isinstance(v, (Func, Bound, Builtin, ClassRef, Mod, ExtRef, ExcName, ExcValue, type)):
            return True
        return bool(v)

    def iterate(self, v: Any) -> list:
        if isinstance(v, (list, tuple, str, bytes, set, frozenset)):
            return list(v)
        if isinstance(v, dict):
            return list(v.keys())
        if isinstance(v, range):
            if len(v) > 100000:
                raise Unsupported('very long range')
            return list(v)
        if isinstance(v, Inst):
            m, _o = self.class_member(v.cls, '__iter__')
            if m is not _MISSING:
                return self.iterate(self.call_function(m, [v], {}))
            g, _o = self.class_member(v.cls, '__getitem__')
            ln, _o2 = self.class_member(v.cls, '__len__')
            if g is not _MISSING and ln is not _MISSING:
                return [self.call_function(g, [v, i], {}) for i in range(self.call_function(ln, [v], {}))]
            raise PyRaise('TypeError', (f'{v.cls.name} object is not iterable',))
        if isinstance(v, ExtObj):
            return v.py_iter(self)
        if v is None or isinstance(v, (int, float, bool)):
            raise PyRaise('TypeError', (f'{type(v).__name__} object is not iterable',))
        raise Unsupported(f'iteration over a {type(v).__name__} value')

    def py_eq(self, a: Any, b: Any) -> bool:
        if isinstance(a, Inst) or isinstance(b, Inst):
            for x, y in ((a, b), (b, a)):
                if isinstance(x, Inst):
                    m, _o = self.class_member(x.cls, '__eq__')
                    if m is not _MISSING:
                        r = self.call_function(m, [x, y], {})
                        if r is not NotImplementedV:
                            return self.truth(r)
            return a is b
        if isinstance(a, ExtObj):
            return a.py_eq(self, b)
        if isinstance(b, ExtObj):
            return b.py_eq(self, a)
        if isinstance(a, (list, tuple)) and type(a) is type(b):
            return len(a) == len(b) and all(self.py_eq(x, y) for x, y in zip(a, b))
        if isinstance(a, dict) and isinstance(b, dict):
            return a.keys() == b.keys() and all(self.py_eq(a[k], b[k]) for k in a)
        if _native_ok(a) and _native_ok(b):
            return a == b
        if isinstance(a, (ClassRef, Func, Mod, type, Builtin)) or isinstance(b, (ClassRef, Func, Mod, type, Builtin)):
            return a is b
        if isinstance(a, ExcName) and isinstance(b, ExcName):
            return a.name == b.name
        return a is b

    # ---- calls ----------------------------------------------------------------------------------
    def call(self, fn: Any, args: list, kwargs: Optional[dict] = None) -> Any:
        kwargs = kwargs or {}
        self.steps += 1
        if self.steps > self.max_steps:
            raise Unsupported('evaluation step budget exhausted')
        if isinstance(fn, Bound):
            return self.call(fn.func, [fn.self_obj] + list(args), kwargs)
        if isinstance(fn, Builtin):
            return fn.fn(self, list(args), dict(kwargs))
        if isinstance(fn, Func):
            return self.call_function(fn, list(args), dict(kwargs))
        if isinstance(fn, ClassRef):
            return self.instantiate(fn, list(args), dict(kwargs))
        if isinstance(fn, ExcName):
            return ExcValue(fn.name, tuple(args), None)
        if isinstance(fn, type) and fn in _NATIVE_TYPES.values():
            return BUILTINS[fn.__name__].fn(self, list(args), dict(kwargs))
        if isinstance(fn, ExtRef):
            if fn.name in self.externals:
                return self.call(self.externals[fn.name], args, kwargs)
            raise Unsupported(f'call of the external {fn.name} (no model)')
        if isinstance(fn, Inst):
            m, _o = self.class_member(fn.cls, '__call__')
            if m is not _MISSING:
                return self.call_function(m, [fn] + list(args), dict(kwargs))
        raise Unsupported(f'call of a {type(fn).__name__} value')

    def instantiate(self, c: ClassRef, args: list, kwargs: dict) -> Any:
        chain = self.mro(c)
        if any(e.startswith('exc:') for e in c.ext_bases):
            return ExcValue(c.name, tuple(args), c)
        if self.class_member(c, '__new__')[0] is not _MISSING:
            raise Unsupported(f'{c.name}.__new__ is not modelled')
        for k in chain:
            for kw in k.node.keywords:
                raise Unsupported(f'class keyword {kw.arg} (metaclass) on {k.name}')
        o = Inst(c)
        init, _o = self.class_member(c, '__init__')
        if init is not _MISSING:
            self.call_function(init, [o] + args, kwargs)
        else:
            em = self._ext_method(c, '__init__')
            if em is not None:
                em(self, o, args, kwargs)
            elif args or kwargs:
                if any(not e.startswith('exc:') for e in c.ext_bases):
                    raise Unsupported(f'{c.name}(...) with arguments but an unmodelled base __init__')
                raise PyRaise('TypeError', (f'{c.name}() takes no arguments',))
        return o

    def _defaults(self, fn: Func) -> Dict[str, Any]:
        if fn.defaults is None:
            a = fn.node.args
            pos = [x.arg for x in a.posonlyargs + a.args]
            d: Dict[str, Any] = {}
            env = fn.closure or Env(None, fn.mod)
            for name, e in zip(pos[len(pos) - len(a.defaults):], a.defaults):
                d[name] = self.ev(e, env)
            for ka, kd in zip(a.kwonlyargs, a.kw_defaults):
                if kd is not None:
                    d[ka.arg] = self.ev(kd, env)
            fn.defaults = d
        return fn.defaults

    def call_function(self, fn: Func, args: list, kwargs: dict) -> Any:
        self.steps += 1
        if self.steps > self.max_steps:
            raise Unsupported('evaluation step budget exhausted')
        if fn.unknown_decorator is not None:
            raise Unsupported(f'{fn.qual} carries the decorator `{fn.unknown_decorator}`, which is not modelled')
        a = fn.node.args
        env = Env(fn.closure, fn.mod)
        env.cls = fn.cls
        pos = [x.arg for x in a.posonlyargs + a.args]
        defaults = self._defaults(fn)
        kwargs = dict(kwargs)
        for i, name in enumerate(pos):
            if i < len(args):
                if name in kwargs:
                    raise PyRaise('TypeError', (f'{fn.qual}() got multiple values for argument {name}',))
                env.vars[name] = args[i]
            elif name in kwargs:
                env.vars[name] = kwargs.pop(name)
            elif name in defaults:
                env.vars[name] = defaults[name]
            else:
                raise PyRaise('TypeError', (f'{fn.qual}() missing required argument {name}',))
        extra = args[len(pos):]
        if a.vararg is not None:
            env.vars[a.vararg.arg] = tuple(extra)
        elif extra:
            raise PyRaise('TypeError', (f'{fn.qual}() takes {len(pos)} positional arguments but {len(args)} were given',))
        for ka in a.kwonlyargs:
            if ka.arg in kwargs:
                env.vars[ka.arg] = kwargs.pop(ka.arg)
            elif ka.arg in defaults:
                env.vars[ka.arg] = defaults[ka.arg]
            else:
                raise PyRaise('TypeError', (f'{fn.qual}() missing keyword argument {ka.arg}',))
        if a.kwarg is not None:
            env.vars[a.kwarg.arg] = kwargs
        elif kwargs:
            raise PyRaise('TypeError', (f'{fn.qual}() got an unexpected keyword argument {sorted(kwargs)[0]}',))
        if pos and fn.cls is not None and fn.kind not in ('static',):
            env.self_obj = env.vars.get(pos[0])
        elif fn.cls is not None and a.vararg is not None and extra:
            env.self_obj = extra[0]
        for pname, chk in fn.checkers.items():
            self._apply_checker(fn, env, pname, chk)
        if isinstance(fn.node, ast.Lambda):
            return self.ev(fn.node.body, env)
        if fn.is_gen:
            env.yields = []
        try:
            self.exec_block(fn.node.body, env)
        except _Return as r:
            if fn.is_gen:
                return env.yields
            return r.v
        return env.yields if fn.is_gen else None

    # typecheck decorators: only the coercions the caller models; unknown transforming checkers are declined
    _COMBINATORS = {'oneof', 'nullable', 'sequenceof', 'tupleof', 'sized_tupleof', 'dictof', 'setof', 'anytype', 'enumeration', 'lazy',
                    'exactly', 'numeric', 'func_spec', 'anyfunc', 'table_key_type', 'char', 'linked_list', 'sliceof', 'arg_check', 'type'}

    def _checker_coercers(self, fn: Func, e: ast.AST, depth: int = 0) -> List[Callable]:
        src = pf.nsrc(e)
        if src in self.coercers:
            return [self.coercers[src]]
        if isinstance(e, ast.Constant):
            return []
        if isinstance(e, ast.Name):
            if e.id in self.coercers:
                return [self.coercers[e.id]]
            if e.id in self._COMBINATORS or e.id in _NATIVE_TYPES or e.id == 'None':
                return []
            if e.id == 'transformed':
                raise Unsupported(f'{fn.qual}: typecheck transformation `{src}` is not modelled')
            try:
                v = self.global_lookup(fn.mod, e.id)
            except Unsupported:
                raise Unsupported(f'{fn.qual}: typecheck checker `{e.id}` cannot be resolved') from None
            if isinstance(v, (ClassRef, type)) or (isinstance(v, ExtRef) and v.name.split('.')[-1][:1].isupper()):
                return []
            raise Unsupported(f'{fn.qual}: typecheck checker `{e.id}` is not modelled')
        if isinstance(e, ast.Attribute):
            d = pf.dotted(e)
            if d is not None and d.split('.')[-1][:1].isupper():
                return []  # a class used as a checker
            raise Unsupported(f'{fn.qual}: typecheck checker `{src}` is not modelled')
        if isinstance(e, ast.Call):
            out: List[Callable] = []
            head = pf.dotted(e.func)
            if head == 'transformed' or head is None or head.split('.')[-1] not in self._COMBINATORS:
                raise Unsupported(f'{fn.qual}: typecheck checker `{src}` is not modelled')
            for x in list(e.args) + [k.value for k in e.keywords]:
                out += self._checker_coercers(fn, x, depth + 1)
            return out
        if isinstance(e, (ast.Tuple, ast.List)):
            out = []
            for x in e.elts:
                out += self._checker_coercers(fn, x, depth + 1)
            return out
        raise Unsupported(f'{fn.qual}: typecheck checker `{src}` is not modelled')

    def _apply_checker(self, fn: Func, env: Env, pname: str, chk: ast.AST) -> None:
        cs = self._checker_coercers(fn, chk)
        if not cs or pname not in env.vars:
            return
        a = fn.node.args

        def co(v: Any) -> Any:
            for c in cs:
                v = c(self, v)
            return v
        if a.vararg is not None and a.vararg.arg == pname:
            env.vars[pname] = tuple(co(x) for x in env.vars[pname])
        elif a.kwarg is not None and a.kwarg.arg == pname:
            env.vars[pname] = {k: co(x) for k, x in env.vars[pname].items()}
        else:
            env.vars[pname] = co(env.vars[pname])

    # ---- expressions ----------------------------------------------------------------------------
    def lookup(self, name: str, env: Env) -> Any:
        if name in env.globals_decl:
            return self.global_lookup(env.mod, name)
        e = env.find(name)
        if e is not None:
            return e.vars[name]
        return self.global_lookup(env.mod, name)

    def ev(self, e: ast.AST, env: Env) -> Any:
        self.steps += 1
        if self.steps > self.max_steps:
            raise Unsupported('evaluation step budget exhausted')
        if isinstance(e, ast.Constant):
            if e.value is Ellipsis or isinstance(e.value, complex):
                raise Unsupported('constant ' + repr(e.value))
            return e.value
        if isinstance(e, ast.Name):
            if e.id == 'NotImplemented':
                return NotImplementedV
            return self.lookup(e.id, env)
        if isinstance(e, ast.Attribute):
            return self.getattr(self.ev(e.value, env), e.attr)
        if isinstance(e, ast.Call):
            return self._ev_call(e, env)
        if isinstance(e, ast.BoolOp):
            v = None
            for x in e.values:
                v = self.ev(x, env)
                if isinstance(e.op, ast.And) and not self.truth(v):
                    return v
                if isinstance(e.op, ast.Or) and self.truth(v):
                    return v
            return v
        if isinstance(e, ast.UnaryOp):
            v = self.ev(e.operand, env)
            if isinstance(e.op, ast.Not):
                return not self.truth(v)
            if isinstance(v, (int, float)) and not isinstance(v, bool) or isinstance(v, bool):
                if isinstance(e.op, ast.USub):
                    return -v
                if isinstance(e.op, ast.UAdd):
                    return +v
                if isinstance(e.op, ast.Invert) and isinstance(v, int):
                    return ~v
            raise Unsupported(f'unary operator in `{pf.nsrc(e)[:60]}`')
        if isinstance(e, ast.Compare):
            left = self.ev(e.left, env)
            for op, c in zip(e.ops, e.comparators):
                right = self.ev(c, env)
                if not self.compare(op, left, right):
                    return False
                left = right
            return True
        if isinstance(e, ast.BinOp):
            return self.binop(e.op, self.ev(e.left, env), self.ev(e.right, env), e)
        if isinstance(e, ast.IfExp):
            return self.ev(e.body if self.truth(self.ev(e.test, env)) else e.orelse, env)
        if isinstance(e, (ast.Tuple, ast.List, ast.Set)):
            out: list = []
            for x in e.elts:
                if isinstance(x, ast.Starred):
                    out.extend(self.iterate(self.ev(x.value, env)))
                else:
                    out.append(self.ev(x, env))
            if isinstance(e, ast.Tuple):
                return tuple(out)
            if isinstance(e, ast.Set):
                for x in out:
                    self._check_key(x)
                return set(out)
            return out
        if isinstance(e, ast.Dict):
            d: dict = {}
            for k, v in zip(e.keys, e.values):
                if k is None:
                    sub = self.ev(v, env)
                    if not isinstance(sub, dict):
                        raise Unsupported('** of a non-dict in a dict display')
                    d.update(sub)
                else:
                    kk = self.ev(k, env)
                    self._check_key(kk)
                    d[kk] = self.ev(v, env)
            return d
        if isinstance(e, ast.Subscript):
            v = self.ev(e.value, env)
            return self.subscript(v, self._ev_slice(e.slice, env), e)
        if isinstance(e, ast.JoinedStr):
            parts = []
            for x in e.values:
                if isinstance(x, ast.Constant):
                    parts.append(str(x.value))
                else:
                    parts.append(self._formatted(x, env))
            return ''.join(parts)
        if isinstance(e, ast.FormattedValue):
            return self._formatted(e, env)
        if isinstance(e, (ast.ListComp, ast.GeneratorExp, ast.SetComp)):
            out = []
            self._comp(e.generators, 0, env, lambda sc: out.append(self.ev(e.elt, sc)))
            if isinstance(e, ast.SetComp):
                for x in out:
                    self._check_key(x)
                return set(out)
            return out
        if isinstance(e, ast.DictComp):
            d = {}

            def put(sc: Env) -> None:
                k = self.ev(e.key, sc)
                self._check_key(k)
                d[k] = self.ev(e.value, sc)
            self._comp(e.generators, 0, env, put)
            return d
        if isinstance(e, ast.Lambda):
            return self.make_function(e, env.mod, env, None, '<lambda>')
        if isinstance(e, ast.NamedExpr) and isinstance(e.target, ast.Name):
            v = self.ev(e.value, env)
            self.assign_name(e.target.id, v, env)
            return v
        if isinstance(e, ast.Yield):
            if env.yields is None:
                raise Unsupported('yield outside a generator function')
            env.yields.append(self.ev(e.value, env) if e.value is not None else None)
            return None
        if isinstance(e, ast.YieldFrom):
            if env.yields is None:
                raise Unsupported('yield from outside a generator function')
            env.yields.extend(self.iterate(self.ev(e.value, env)))
            return None
        raise Unsupported(f'expression {type(e).__name__}: `{pf.nsrc(e)[:80]}`')

    def _ev_slice(self, s: ast.AST, env: Env) -> Any:
        if isinstance(s, ast.Slice):
            return slice(self.ev(s.lower, env) if s.lower is not None else None, self.ev(s.upper, env) if s.upper is not None else None,
                         self.ev(s.step, env) if s.step is not None else None)
        return self.ev(s, env)

    def _formatted(self, x: ast.FormattedValue, env: Env) -> str:
        v = self.ev(x.value, env)
        if x.conversion == ord('r'):
            v = self.to_repr(v)
        elif x.conversion == ord('s'):
            v = self.to_str(v)
        elif x.conversion == ord('a'):
            v = ascii(self.to_repr(v)) if not isinstance(v, str) else ascii(v)
        spec = ''
        if x.format_spec is not None:
            spec = self.ev(x.format_spec, env)
        if isinstance(v, (Inst, ExtObj)) or not _native_ok(v):
            v = self.to_str(v)
        try:
            return format(v, spec)
        except _NATIVE_ERRORS as ex:
            raise PyRaise(type(ex).__name__, tuple(map(str, ex.args))) from None

    def _comp(self, gens: List[ast.comprehension], i: int, env: Env, emit: Callable[[Env], None]) -> None:
        if i == len(gens):
            emit(env)
            return
        g = gens[i]
        if g.is_async:
            raise Unsupported('async comprehension')
        for item in self.iterate(self.ev(g.iter, env)):
            sc = Env(env, env.mod)
            sc.cls, sc.self_obj, sc.yields = env.cls, env.self_obj, env.yields
            self.assign_target(g.target, item, sc, local=True)
            if all(self.truth(self.ev(c, sc)) for c in g.ifs):
                self._comp(gens, i + 1, sc, emit)

    def _ev_call(self, e: ast.Call, env: Env) -> Any:
        # zero-argument super()
        if isinstance(e.func, ast.Name) and e.func.id == 'super' and env.find('super') is None:
            if not e.args:
                cur: Optional[Env] = env
                while cur is not None and cur.cls is None:
                    cur = cur.parent
                if cur is None or not isinstance(cur.self_obj, Inst):
                    raise Unsupported('super() outside a method')
                return SuperProxy(cur.self_obj, cur.cls)  # type: ignore[arg-type]
            if len(e.args) == 2:
                c, o = self.ev(e.args[0], env), self.ev(e.args[1], env)
                if isinstance(c, ClassRef) and isinstance(o, Inst):
                    return SuperProxy(o, c)
            raise Unsupported(f'`{pf.nsrc(e)}`')
        fn = self.ev(e.func, env)
        args: list = []
        for a in e.args:
            if isinstance(a, ast.Starred):
                args.extend(self.iterate(self.ev(a.value, env)))
            else:
                args.append(self.ev(a, env))
        kwargs: dict = {}
        for k in e.keywords:
            v = self.ev(k.value, env)
            if k.arg is None:
                if not isinstance(v, dict):
                    if isinstance(v, Inst) and self.class_member(v.cls, 'keys')[0] is not _MISSING:
                        v = {kk: self.subscript(v, kk, e) for kk in self.iterate(self.call(self.getattr(v, 'keys'), []))}
                    else:
                        raise Unsupported('** argument is not a dict')
                for kk in v:
                    if not isinstance(kk, str):
                        raise PyRaise('TypeError', ('keywords must be strings',))
                    if kk in kwargs:
                        raise PyRaise('TypeError', (f'got multiple values for keyword argument {kk!r}',))
                kwargs.update(v)
            else:
                kwargs[k.arg] = v
        return self.call(fn, args, kwargs)

    def subscript(self, v: Any, i: Any, e: Optional[ast.AST] = None) -> Any:
        if isinstance(v, Inst):
            m, _o = self.class_member(v.cls, '__getitem__')
            if m is _MISSING:
                raise PyRaise('TypeError', (f'{v.cls.name} object is not subscriptable',))
            return self.call_function(m, [v, i], {})
        if isinstance(v, dict):
            self._check_key(i)
            if i not in v:
                raise PyRaise('KeyError', (i,))
            return v[i]
        if isinstance(v, (str, bytes, list, tuple)):
            if isinstance(i, slice) or (isinstance(i, int)):
                try:
                    return v[i]
                except _NATIVE_ERRORS as ex:
                    raise PyRaise(type(ex).__name__, tuple(map(str, ex.args))) from None
            raise PyRaise('TypeError', ('indices must be integers or slices',))
        if isinstance(v, ExtObj):
            items = v.py_iter(self)
            if isinstance(i, (int, slice)):
                try:
                    return items[i]
                except IndexError:
                    raise PyRaise('IndexError', ('index out of range',)) from None
        if isinstance(v, (ClassRef, type, ExtRef)):
            return v  # typing generics such as Dict[str, int]
        raise Unsupported(f'subscript of a {type(v).__name__} value' + (f' in `{pf.nsrc(e)[:60]}`' if e is not None else ''))

    def compare(self, op: ast.cmpop, a: Any, b: Any) -> bool:
        if isinstance(op, ast.Is):
            if a is None or b is None or isinstance(a, bool) or isinstance(b, bool):
                return a is b
            if _native_ok(a) and _native_ok(b) and not isinstance(a, (list, dict, set)):
                if isinstance(a, (int, str, bytes, float, tuple)):
                    if type(a) is type(b) and a == b and not (isinstance(a, int) and -5 <= a <= 256):
                        raise Unsupported('`is` between equal platform values (identity is implementation-defined)')
                    return type(a) is type(b) and a == b
            return a is b
        if isinstance(op, ast.IsNot):
            return not self.compare(ast.Is(), a, b)
        if isinstance(op, ast.Eq):
            return self.py_eq(a, b)
        if isinstance(op, ast.NotEq):
            if isinstance(a, Inst):
                m, _o = self.class_member(a.cls, '__ne__')
                if m is not _MISSING:
                    return self.truth(self.call_function(m, [a, b], {}))
            return not self.py_eq(a, b)
        if isinstance(op, (ast.In, ast.NotIn)):
            if isinstance(b, (dict, set, frozenset)):
                self._check_key(a)
                r = a in b
            elif isinstance(b, str):
                if not isinstance(a, str):
                    raise PyRaise('TypeError', ('in <string> requires string as left operand',))
                r = a in b
            elif isinstance(b, bytes) and isinstance(a, (bytes, int)):
                r = a in b
            elif isinstance(b, Inst) and self.class_member(b.cls, '__contains__')[0] is not _MISSING:
                r = self.truth(self.call_function(self.class_member(b.cls, '__contains__')[0], [b, a], {}))
            else:
                r = any(x is a or self.py_eq(a, x) for x in self.iterate(b))
            return r if isinstance(op, ast.In) else not r
        if _native_ok(a) and _native_ok(b):
            try:
                if isinstance(op, ast.Lt):
                    return a < b
                if isinstance(op, ast.LtE):
                    return a <= b
                if isinstance(op, ast.Gt):
                    return a > b
                if isinstance(op, ast.GtE):
                    return a >= b
            except TypeError as ex:
                raise PyRaise('TypeError', tuple(map(str, ex.args))) from None
        raise Unsupported('ordering comparison of interpreted objects')

    def binop(self, op: ast.operator, a: Any, b: Any, e: Optional[ast.AST] = None) -> Any:
        if isinstance(op, ast.Mod) and isinstance(a, str):
            if isinstance(b, tuple):
                b = tuple(self._fmt_arg(x) for x in b)
            elif isinstance(b, dict):
                b = {k: self._fmt_arg(x) for k, x in b.items()}
            else:
                b = self._fmt_arg(b)
            try:
                return a % b
            except _NATIVE_ERRORS as ex:
                raise PyRaise(type(ex).__name__, tuple(map(str, ex.args))) from None
        if isinstance(op, ast.Add) and isinstance(a, (list, tuple)) and type(a) is type(b):
            return a + b
        if isinstance(op, ast.Mult) and ((isinstance(a, (list, tuple)) and isinstance(b, int)) or (isinstance(b, (list, tuple)) and isinstance(a, int))):
            n = b if isinstance(b, int) else a
            if n > 10000:
                raise Unsupported('very long repetition')
            return a * b
        if isinstance(op, ast.BitOr) and isinstance(a, dict) and isinstance(b, dict):
            return {**a, **b}
        if _native_ok(a) and _native_ok(b):
            table = {ast.Add: lambda: a + b, ast.Sub: lambda: a - b, ast.Mult: lambda: a * b, ast.FloorDiv: lambda: a // b, ast.Mod: lambda: a % b,
                     ast.Div: lambda: a / b, ast.BitAnd: lambda: a & b, ast.BitOr: lambda: a | b, ast.BitXor: lambda: a ^ b,
                     ast.LShift: lambda: a << b, ast.RShift: lambda: a >> b}
            f = table.get(type(op))
            if f is not None:
                if isinstance(op, ast.Mult) and isinstance(a, (str, bytes)) and isinstance(b, int) and b > 100000:
                    raise Unsupported('very long repetition')
                if isinstance(op, ast.LShift) and isinstance(b, int) and b > 4096:
                    raise Unsupported('very large shift')
                try:
                    return f()
                except _NATIVE_ERRORS as ex:
                    raise PyRaise(type(ex).__name__, tuple(map(str, ex.args))) from None
            if isinstance(op, ast.Pow) and isinstance(a, int) and isinstance(b, int) and 0 <= b <= 64:
                return a ** b
        if (isinstance(a, str) and isinstance(b, (Inst, ExtObj))) or (isinstance(b, str) and isinstance(a, (Inst, ExtObj))):
            if isinstance(op, ast.Add):
                raise PyRaise('TypeError', ('can only concatenate str to str',))
        raise Unsupported(f'operator {type(op).__name__} on {type(a).__name__} and {type(b).__name__}' + (f' in `{pf.nsrc(e)[:60]}`' if e is not None else ''))

    # ---- statements --------------------------------------------------------------------------
    def assign_name(self, name: str, v: Any, env: Env) -> None:
        if name in env.globals_decl:
            env.mod.cache[name] = v
            return
        if name in env.nonlocals:
            e = env.parent.find(name) if env.parent is not None else None
            if e is None:
                raise Unsupported(f'nonlocal {name} not found')
            e.vars[name] = v
            return
        env.vars[name] = v

    def assign_target(self, t: ast.AST, v: Any, env: Env, local: bool = False) -> None:
        if isinstance(t, ast.Name):
            if local:
                env.vars[t.id] = v
            else:
                self.assign_name(t.id, v, self._fn_env(env))
        elif isinstance(t, (ast.Tuple, ast.List)):
            items = self.iterate(v)
            star = [i for i, x in enumerate(t.elts) if isinstance(x, ast.Starred)]
            if star:
                if len(star) > 1 or len(items) < len(t.elts) - 1:
                    raise PyRaise('ValueError', ('not enough values to unpack',))
                k = star[0]
                tail = len(t.elts) - k - 1
                seq = items[:k] + [items[k:len(items) - tail]] + items[len(items) - tail:]
                for x, y in zip(t.elts, seq):
                    self.assign_target(x.value if isinstance(x, ast.Starred) else x, y, env, local)
                return
            if len(items) != len(t.elts):
                raise PyRaise('ValueError', (f'cannot unpack {len(items)} values into {len(t.elts)} names',))
            for x, y in zip(t.elts, items):
                self.assign_target(x, y, env, local)
        elif isinstance(t, ast.Attribute):
            self.setattr(self.ev(t.value, env), t.attr, v)
        elif isinstance(t, ast.Subscript):
            o = self.ev(t.value, env)
            i = self._ev_slice(t.slice, env)
            if isinstance(o, dict):
                self._check_key(i)
                o[i] = v
            elif isinstance(o, list) and isinstance(i, (int, slice)):
                try:
                    o[i] = v
                except _NATIVE_ERRORS as ex:
                    raise PyRaise(type(ex).__name__, tuple(map(str, ex.args))) from None
            elif isinstance(o, Inst) and self.class_member(o.cls, '__setitem__')[0] is not _MISSING:
                self.call_function(self.class_member(o.cls, '__setitem__')[0], [o, i, v], {})
            else:
                raise Unsupported(f'subscript store on a {type(o).__name__} value')
        else:
            raise Unsupported(f'assignment target `{pf.nsrc(t)[:60]}`')

    @staticmethod
    def _fn_env(env: Env) -> Env:
        return env

    def exec_block(self, stmts: List[ast.stmt], env: Env) -> None:
        for st in stmts:
            self.exec_stmt(st, env)

    def exec_stmt(self, st: ast.stmt, env: Env) -> None:
        self.steps += 1
        if self.steps > self.max_steps:
            raise Unsupported('evaluation step budget exhausted')
        if isinstance(st, ast.Expr):
            self.ev(st.value, env)
        elif isinstance(st, ast.Assign):
            v = self.ev(st.value, env)
            for t in st.targets:
                self.assign_target(t, v, env)
        elif isinstance(st, ast.AnnAssign):
            if st.value is not None:
                self.assign_target(st.target, self.ev(st.value, env), env)
        elif isinstance(st, ast.AugAssign):
            load = _as_load(st.target)
            cur = self.ev(load, env)
            rhs = self.ev(st.value, env)
            if isinstance(cur, list) and isinstance(st.op, ast.Add):
                cur.extend(self.iterate(rhs))
                return
            self.assign_target(st.target, self.binop(st.op, cur, rhs, st), env)
        elif isinstance(st, ast.Return):
            raise _Return(self.ev(st.value, env) if st.value is not None else None)
        elif isinstance(st, ast.If):
            self.exec_block(st.body if self.truth(self.ev(st.test, env)) else st.orelse, env)
        elif isinstance(st, ast.For):
            broke = False
            for item in self.iterate(self.ev(st.iter, env)):
                self.assign_target(st.target, item, env)
                try:
                    self.exec_block(st.body, env)
                except _Break:
                    broke = True
                    break
                except _Continue:
                    continue
            if not broke:
                self.exec_block(st.orelse, env)
        elif isinstance(st, ast.While):
            n = 0
            broke = False
            while self.truth(self.ev(st.test, env)):
                n += 1
                if n > 100000:
                    raise Unsupported('while loop bound exceeded')
                try:
                    self.exec_block(st.body, env)
                except _Break:
                    broke = True
                    break
                except _Continue:
                    continue
            if not broke:
                self.exec_block(st.orelse, env)
        elif isinstance(st, ast.Break):
            raise _Break()
        elif isinstance(st, ast.Continue):
            raise _Continue()
        elif isinstance(st, ast.Pass):
            pass
        elif isinstance(st, ast.Assert):
            if not self.truth(self.ev(st.test, env)):
                raise PyRaise('AssertionError', (self.ev(st.msg, env),) if st.msg is not None else ())
        elif isinstance(st, ast.Raise):
            if st.exc is None:
                if self.current_exc is None:
                    raise PyRaise('RuntimeError', ('No active exception to reraise',))
                raise self.current_exc
            v = self.ev(st.exc, env)
            if isinstance(v, ExcName):
                raise PyRaise(v.name, ())
            if isinstance(v, ExcValue):
                raise PyRaise(v.name, v.args, v.cls)
            if isinstance(v, ClassRef):
                v = self.instantiate(v, [], {})
                if isinstance(v, ExcValue):
                    raise PyRaise(v.name, v.args, v.cls)
            if isinstance(v, ExtRef):
                raise PyRaise(v.name.split('.')[-1], ())
            raise Unsupported(f'raise of a {type(v).__name__} value')
        elif isinstance(st, ast.Try):
            self._exec_try(st, env)
        elif isinstance(st, ast.Global):
            env.globals_decl.update(st.names)
        elif isinstance(st, ast.Nonlocal):
            env.nonlocals.update(st.names)
        elif isinstance(st, ast.FunctionDef):
            f = self.make_function(st, env.mod, env, None, st.name)
            env.vars[st.name] = f
        elif isinstance(st, (ast.Import, ast.ImportFrom)):
            self._exec_import(st, env)
        elif isinstance(st, ast.Delete):
            for t in st.targets:
                if isinstance(t, ast.Subscript):
                    o = self.ev(t.value, env)
                    i = self._ev_slice(t.slice, env)
                    if isinstance(o, (dict, list)):
                        try:
                            del o[i]
                        except _NATIVE_ERRORS as ex:
                            raise PyRaise(type(ex).__name__, tuple(map(str, ex.args))) from None
                        continue
                elif isinstance(t, ast.Attribute):
                    o = self.ev(t.value, env)
                    if isinstance(o, Inst):
                        if t.attr not in o.attrs:
                            raise PyRaise('AttributeError', (t.attr,))
                        del o.attrs[t.attr]
                        continue
                elif isinstance(t, ast.Name) and t.id in env.vars:
                    del env.vars[t.id]
                    continue
                raise Unsupported(f'del `{pf.nsrc(t)[:50]}`')
        elif isinstance(st, ast.With):
            raise Unsupported('with statement')
        else:
            raise Unsupported(f'statement {type(st).__name__}: `{pf.nsrc(st)[:80]}`')

    def _exec_import(self, st: Any, env: Env) -> None:
        if isinstance(st, ast.Import):
            for a in st.names:
                local = a.asname or a.name.split('.')[0]
                full = a.name if a.asname else a.name.split('.')[0]
                if full in self.externals:
                    env.vars[local] = self.externals[full]
                else:
                    rel2 = self._rel_of_dotted(full)
                    env.vars[local] = self.module(rel2) if rel2 is not None else ExtRef(full)
        else:
            for a in st.names:
                if a.name == '*':
                    raise Unsupported('star import inside a function')
                env.vars[a.asname or a.name] = self._import_from(env.mod, st, a.name)

    def exc_matches(self, r: PyRaise, t: Any) -> bool:
        if isinstance(t, tuple):
            return any(self.exc_matches(r, x) for x in t)
        if isinstance(t, ExcName):
            if r.cls is not None:
                names = {e[4:] for e in r.cls.ext_bases if e.startswith('exc:')}
                for k in self.mro(r.cls):
                    names |= {e[4:] for e in k.ext_bases if e.startswith('exc:')}
                return any(_exc_is(n, t.name) for n in names)
            return _exc_is(r.name, t.name)
        if isinstance(t, ClassRef):
            return r.cls is not None and t in self.mro(r.cls)
        if isinstance(t, ExtRef):
            return r.name == t.name.split('.')[-1] or r.name == t.name
        raise Unsupported(f'except clause with a {type(t).__name__} value')

    def _exec_try(self, st: ast.Try, env: Env) -> None:
        try:
            try:
                self.exec_block(st.body, env)
            except PyRaise as r:
                for h in st.handlers:
                    if h.type is None or self.exc_matches(r, self.ev(h.type, env)):
                        saved = self.current_exc
                        self.current_exc = r
                        if h.name:
                            env.vars[h.name] = ExcValue(r.name, r.pargs, r.cls)
                        try:
                            self.exec_block(h.body, env)
                        finally:
                            self.current_exc = saved
                        break
                else:
                    raise
            else:
                self.exec_block(st.orelse, env)
        finally:
            if st.finalbody:
                self.exec_block(st.finalbody, env)

    # ---- convenience -------------------------------------------------------------------------
    def eval_src(self, rel: str, source: str, variables: Optional[Dict[str, Any]] = None) -> Any:
        """Evaluate OUR OWN expression text in the scope of a repository module."""
        env = Env(None, self.module(rel))
        env.vars.update(variables or {})
        return self.ev(ast.parse(source, mode='eval').body, env)


# ------------------------------------------------------------------------------------------------
# exceptions, builtins
# ------------------------------------------------------------------------------------------------


class ExcName:
    def __init__(self, name: str):
        self.name = name

    def __repr__(self) -> str:
        return f'<exception class {self.name}>'


class ExcValue:
    def __init__(self, name: str, args: tuple, cls: Optional[ClassRef]):
        self.name = name
        self.args = args
        self.cls = cls


class _NotImplementedType:
    def __repr__(self) -> str:
        return 'NotImplemented'


NotImplementedV = _NotImplementedType()

EXC_NAMES = {n for n in dir(_bi) if isinstance(getattr(_bi, n), type) and issubclass(getattr(_bi, n), BaseException)}


def _exc_is(name: str, ancestor: str) -> bool:
    a, b = getattr(_bi, name, None), getattr(_bi, ancestor, None)
    if isinstance(a, type) and isinstance(b, type):
        return issubclass(a, b)
    if isinstance(b, type) and b in (Exception, BaseException) and a is None:
        return True  # third-party exception classes derive from Exception
    return name == ancestor


def _as_load(t: ast.AST) -> ast.AST:
    import copy
    n = copy.deepcopy(t)
    for x in ast.walk(n):
        if hasattr(x, 'ctx'):
            x.ctx = ast.Load()  # type: ignore[attr-defined]
    return n


def _b_isinstance(it: Interp, a: list, k: dict) -> bool:
    if len(a) != 2 or k:
        raise Unsupported('isinstance arguments')
    v, c = a
    if isinstance(c, tuple):
        return any(_b_isinstance(it, [v, x], {}) for x in c)
    if isinstance(c, Builtin) and c.name in _NATIVE_TYPES:
        c = _NATIVE_TYPES[c.name]
    if isinstance(c, ClassRef):
        if isinstance(v, Inst):
            return c in it.mro(v.cls)
        if isinstance(v, ExcValue) and v.cls is not None:
            return c in it.mro(v.cls)
        return False
    if isinstance(c, type):
        if isinstance(v, (Inst, ExtObj, ClassRef, Func, Bound, Builtin, Mod, ExtRef, ExcValue, ExcName)):
            return c is object
        return isinstance(v, c)
    if isinstance(c, ExcName):
        return isinstance(v, ExcValue) and _exc_is(v.name, c.name)
    if isinstance(v, ExtObj):
        r = v.py_isinstance(it, c)
        if r is not None:
            return r
    if isinstance(c, ExtRef):
        if isinstance(v, ExtObj):
            raise Unsupported(f'isinstance of a modelled {v.kind} against {c.name}')
        if isinstance(v, Inst):
            it.mro(v.cls)
            if c.name in v.cls.ext_bases or any(c.name in kk.ext_bases for kk in it.mro(v.cls)):
                return True
            if c.name.split('.')[0] in ('collections', 'typing', 'abc'):
                raise Unsupported(f'isinstance against the abstract class {c.name}')
            return False
        if _native_ok(v) and c.name.split('.')[0] not in ('collections', 'typing', 'abc', 'numbers'):
            return False
    raise Unsupported(f'isinstance against a {type(c).__name__} value')


def _b_str(it: Interp, a: list, k: dict) -> Any:
    if not a:
        return ''
    if len(a) == 1:
        return it.to_str(a[0])
    if isinstance(a[0], bytes) and all(isinstance(x, str) for x in a[1:]) and len(a) <= 3:
        try:
            return str(*a)
        except _NATIVE_ERRORS as ex:
            raise PyRaise(type(ex).__name__, tuple(map(str, ex.args))) from None
    raise Unsupported('str() arguments')


def _b_len(it: Interp, a: list, k: dict) -> int:
    v = a[0]
    if isinstance(v, Inst):
        m, _o = it.class_member(v.cls, '__len__')
        if m is _MISSING:
            raise PyRaise('TypeError', (f'object of type {v.cls.name} has no len()',))
        return it.call_function(m, [v], {})
    if isinstance(v, ExtObj):
        return v.py_len(it)
    if isinstance(v, (str, bytes, list, tuple, dict, set, frozenset, range)):
        return len(v)
    raise PyRaise('TypeError', (f'object of type {type(v).__name__} has no len()',))


def _b_dict(it: Interp, a: list, k: dict) -> dict:
    d: dict = {}
    if a:
        src = a[0]
        if isinstance(src, dict):
            d.update(src)
        elif isinstance(src, Inst) and it.class_member(src.cls, 'keys')[0] is not _MISSING:
            for kk in it.iterate(it.call(it.getattr(src, 'keys'), [])):
                d[kk] = it.subscript(src, kk)
        else:
            for pair in it.iterate(src):
                kv = it.iterate(pair)
                if len(kv) != 2:
                    raise PyRaise('ValueError', ('dictionary update sequence element has wrong length',))
                it._check_key(kv[0])
                d[kv[0]] = kv[1]
    d.update(k)
    return d


def _b_sorted(it: Interp, a: list, k: dict) -> list:
    items = it.iterate(a[0])
    key = k.pop('key', None)
    rev = bool(k.pop('reverse', False))
    if k:
        raise Unsupported('sorted() keywords')
    keys = [it.call(key, [x]) for x in items] if key is not None else items
    if _native_ok(keys):
        try:
            order = sorted(range(len(items)), key=lambda i: keys[i], reverse=rev)
        except TypeError as ex:
            raise PyRaise('TypeError', tuple(map(str, ex.args))) from None
        return [items[i] for i in order]
    import functools

    def cmp(i: int, j: int) -> int:
        return -1 if _py_lt(it, keys[i], keys[j]) else (1 if _py_lt(it, keys[j], keys[i]) else 0)
    order = sorted(range(len(items)), key=functools.cmp_to_key(cmp), reverse=rev)
    return [items[i] for i in order]


def _py_lt(it: Interp, a: Any, b: Any) -> bool:
    """a < b with Python's semantics for tuples / lists of mixed platform and interpreted values."""
    if isinstance(a, (tuple, list)) and type(a) is type(b):
        for x, y in zip(a, b):
            if not it.py_eq(x, y):
                return _py_lt(it, x, y)
        return len(a) < len(b)
    if _native_ok(a) and _native_ok(b):
        try:
            return a < b
        except TypeError as ex:
            raise PyRaise('TypeError', tuple(map(str, ex.args))) from None
    if isinstance(a, Inst):
        m, _o = it.class_member(a.cls, '__lt__')
        if m is not _MISSING:
            return it.truth(it.call_function(m, [a, b], {}))
    raise PyRaise('TypeError', (f"'<' not supported between instances of {type(a).__name__} and {type(b).__name__}",))


def _b_map(it: Interp, a: list, k: dict) -> list:
    fn, seqs = a[0], [it.iterate(x) for x in a[1:]]
    return [it.call(fn, list(xs)) for xs in zip(*seqs)]


def _b_getattr(it: Interp, a: list, k: dict) -> Any:
    if len(a) == 3:
        try:
            return it.getattr(a[0], a[1])
        except PyRaise as r:
            if r.name == 'AttributeError':
                return a[2]
            raise
    return it.getattr(a[0], a[1])


def _b_hasattr(it: Interp, a: list, k: dict) -> bool:
    try:
        it.getattr(a[0], a[1])
        return True
    except PyRaise as r:
        if r.name == 'AttributeError':
            return False
        raise


def _b_int(it: Interp, a: list, k: dict) -> int:
    if not _native_ok(a) or not _native_ok(k):
        raise Unsupported('int() of an interpreted object')
    try:
        return int(*a, **k)
    except _NATIVE_ERRORS as ex:
        raise PyRaise(type(ex).__name__, tuple(map(str, ex.args))) from None


def _native_builtin(f: Callable) -> Callable:
    def g(it: Interp, a: list, k: dict) -> Any:
        if not _native_ok(a) or not _native_ok(k):
            raise Unsupported(f'{f.__name__}() of an interpreted object')
        try:
            return f(*a, **k)
        except _NATIVE_ERRORS as ex:
            raise PyRaise(type(ex).__name__, tuple(map(str, ex.args))) from None
    return g


def _b_type(it: Interp, a: list, k: dict) -> Any:
    if len(a) != 1:
        raise Unsupported('type() with three arguments')
    v = a[0]
    if isinstance(v, Inst):
        return v.cls
    if v is None:
        return type(None)
    if _native_ok(v):
        return type(v)
    raise Unsupported(f'type() of a {type(v).__name__} value')


def _b_minmax(which: Callable) -> Callable:
    def g(it: Interp, a: list, k: dict) -> Any:
        items = it.iterate(a[0]) if len(a) == 1 else a
        if k or not _native_ok(items):
            raise Unsupported('min/max over interpreted objects')
        try:
            return which(items)
        except _NATIVE_ERRORS as ex:
            raise PyRaise(type(ex).__name__, tuple(map(str, ex.args))) from None
    return g


def _b_set(it: Interp, a: list, k: dict) -> set:
    items = it.iterate(a[0]) if a else []
    for x in items:
        it._check_key(x)
    return set(items)


BUILTINS: Dict[str, Builtin] = {}
for _n, _f in {
    'isinstance': _b_isinstance, 'str': _b_str, 'len': _b_len, 'dict': _b_dict, 'sorted': _b_sorted, 'map': _b_map,
    'getattr': _b_getattr, 'hasattr': _b_hasattr, 'int': _b_int, 'type': _b_type, 'set': _b_set,
    'frozenset': lambda it, a, k: frozenset(_b_set(it, a, k)),
    'repr': lambda it, a, k: it.to_repr(a[0]),
    'bool': lambda it, a, k: it.truth(a[0]) if a else False,
    'tuple': lambda it, a, k: tuple(it.iterate(a[0])) if a else (),
    'list': lambda it, a, k: list(it.iterate(a[0])) if a else [],
    'iter': lambda it, a, k: it.iterate(a[0]),
    'reversed': lambda it, a, k: list(reversed(it.iterate(a[0]))),
    'enumerate': lambda it, a, k: [(i + (a[1] if len(a) > 1 else k.get('start', 0)), x) for i, x in enumerate(it.iterate(a[0]))],
    'zip': lambda it, a, k: [tuple(xs) for xs in zip(*[it.iterate(x) for x in a])],
    'range': lambda it, a, k: range(*a) if _native_ok(a) else (_ for _ in ()).throw(Unsupported('range() arguments')),
    'all': lambda it, a, k: all(it.truth(x) for x in it.iterate(a[0])),
    'any': lambda it, a, k: any(it.truth(x) for x in it.iterate(a[0])),
    'filter': lambda it, a, k: [x for x in it.iterate(a[1]) if (it.truth(x) if a[0] is None else it.truth(it.call(a[0], [x])))],
    'sum': lambda it, a, k: _native_builtin(sum)(it, [it.iterate(a[0])] + a[1:], k),
    'min': _b_minmax(min), 'max': _b_minmax(max),
    'bytes': _native_builtin(bytes), 'ord': _native_builtin(ord), 'chr': _native_builtin(chr), 'abs': _native_builtin(abs),
    'float': _native_builtin(float), 'ascii': _native_builtin(ascii), 'hex': _native_builtin(hex), 'format': _native_builtin(format),
    'divmod': _native_builtin(divmod), 'round': _native_builtin(round),
    'callable': lambda it, a, k: isinstance(a[0], (Func, Bound, Builtin, ClassRef)),
    'id': lambda it, a, k: (_ for _ in ()).throw(Unsupported('id() is implementation-defined')),
    'hash': lambda it, a, k: (_ for _ in ()).throw(Unsupported('hash() is implementation-defined (randomised for str)')),
    'print': lambda it, a, k: None,
}.items():
    BUILTINS[_n] = Builtin(_n, _f)


def _re_call(name: str) -> Builtin:
    return Builtin('re.' + name, lambda it, a, k: _native_builtin(getattr(_re, name))(it, a, k))


DEFAULT_EXTERNALS: Dict[str, Any] = {
    're.compile': _re_call('compile'), 're.fullmatch': _re_call('fullmatch'), 're.match': _re_call('match'), 're.search': _re_call('search'),
    're.sub': _re_call('sub'), 're.split': _re_call('split'), 're.escape': _re_call('escape'), 're.findall': _re_call('findall'),
    're.ASCII': _re.ASCII, 're.A': _re.A, 're.IGNORECASE': _re.IGNORECASE, 're.I': _re.I, 're.DOTALL': _re.DOTALL, 're.S': _re.S,
    're.UNICODE': _re.UNICODE, 're.U': _re.U, 're.MULTILINE': _re.MULTILINE, 're.M': _re.M, 're.VERBOSE': _re.VERBOSE, 're.X': _re.X,
    'functools.lru_cache': Builtin('functools.lru_cache', lambda it, a, k: a[0] if (len(a) == 1 and not k and isinstance(a[0], (Func, Bound, Builtin)))
                                   else Builtin('lru_cache(...)', lambda it2, a2, k2: a2[0])),
    'functools.cache': Builtin('functools.cache', lambda it, a, k: a[0]),
    'operator.eq': Builtin('operator.eq', lambda it, a, k: it.py_eq(a[0], a[1])),
    'operator.ne': Builtin('operator.ne', lambda it, a, k: not it.py_eq(a[0], a[1])),
    'sys.intern': Builtin('sys.intern', lambda it, a, k: a[0]),
    'unicodedata.normalize': Builtin('unicodedata.normalize', _native_builtin(__import__('unicodedata').normalize)),
    'typing.ClassVar': ExtRef('typing.ClassVar'),
}
