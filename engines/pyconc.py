"""pyconc - a small synchronous CONCRETE evaluator for a Python subset, over syntax trees loaded with engines/pyfacts.

Purpose (C31): evaluate the Hail type printers (`__str__`, `pretty`, `_parsable_string`), `hl.dtype` and the parsimonious visitor on
SAMPLE values with OUR evaluator, so that `dtype(str(t)) == t` can be decided per sample without importing or running the
repository.  Repository modules are parsed with `ast`, never imported; module-level names are evaluated lazily on first use; every
third-party object (parsimonious Grammar / NodeVisitor, reference genomes, ...) is a model supplied by the caller (`externals`,
`ExtObj`).  Platform functions on OUR OWN values (str / bytes / dict methods, `re`) are executed natively - that is the trusted
platform, not repository code.  Anything outside the subset raises `Unsupported` (an AnalysisError): the caller declines.

Differences from engines/minipy.py: synchronous (no coroutines), properties / classmethods / super(), generator expressions, dict and
set comprehensions, eager generators, `%` / `.format` formatting with interpreted `__str__`, interpreted `__eq__`, try/except over native
errors, typecheck-decorator coercions supplied by the caller.
"""
from __future__ import annotations

import ast
import builtins as _bi
import os
import re as _re
from typing import Any, Callable, Dict, List, Optional, Tuple

from . import pyfacts as pf
from .common import AnalysisError, repo_path


class Unsupported(AnalysisError):
    pass


class PyRaise(Exception):
    """An exception raised by interpreted code (or by a native operation on its behalf)."""

    def __init__(self, name: str, args: tuple = (), cls: Any = None):
        super().__init__(f'{name}{args!r}')
        self.name = name
        self.pargs = args
        self.cls = cls  # ClassRef for repository-defined exception classes


class _Return(Exception):
    def __init__(self, v: Any):
        self.v = v


class _Break(Exception):
    pass


class _Continue(Exception):
    pass


_NATIVE_ERRORS = (KeyError, IndexError, ValueError, TypeError, AttributeError, UnicodeError, ZeroDivisionError, StopIteration, OverflowError)


# ------------------------------------------------------------------------------------------------
# values
# ------------------------------------------------------------------------------------------------


class Mod:
    def __init__(self, pm: pf.Module):
        self.pm = pm
        self.rel = pm.rel
        self.cache: Dict[str, Any] = {}
        self.busy: set = set()

    def __repr__(self) -> str:
        return f'<module {self.rel}>'


class ClassRef:
    def __init__(self, mod: Mod, node: ast.ClassDef):
        self.mod = mod
        self.node = node
        self.name = node.name
        self.consts: Dict[str, Any] = {}
        self._mro: Optional[List['ClassRef']] = None
        self.ext_bases: List[str] = []

    def __repr__(self) -> str:
        return f'<class {self.name}>'


class Inst:
    def __init__(self, cls: ClassRef):
        self.cls = cls
        self.attrs: Dict[str, Any] = {}

    def __repr__(self) -> str:
        return f'<{self.cls.name} instance>'


class Func:
    def __init__(self, node: Any, mod: Mod, closure: Optional['Env'], cls: Optional[ClassRef], qual: str):
        self.node = node
        self.mod = mod
        self.closure = closure
        self.cls = cls
        self.qual = qual
        self.kind = 'plain'  # plain | property | cached_property | static | class
        self.checkers: Dict[str, ast.expr] = {}
        self.unknown_decorator: Optional[str] = None
        self.defaults: Optional[Dict[str, Any]] = None
        self.is_gen = False

    def __repr__(self) -> str:
        return f'<function {self.qual}>'


class Bound:
    def __init__(self, func: Any, self_obj: Any):
        self.func = func
        self.self_obj = self_obj


class Builtin:
    def __init__(self, name: str, fn: Callable):
        self.name = name
        self.fn = fn  # fn(interp, args, kwargs)

    def __repr__(self) -> str:
        return f'<builtin {self.name}>'


class ExtRef:
    """A dotted name outside the repository (module or member) that has no model (yet): calling it is Unsupported unless
    `externals` has an entry."""

    def __init__(self, name: str):
        self.name = name

    def __repr__(self) -> str:
        return f'<external {self.name}>'


class ExtObj:
    """Base class of modelled third-party objects.  Subclasses override the py_* hooks they support."""
    kind = 'object'

    def py_getattr(self, it: 'Interp', name: str) -> Any:
        raise Unsupported(f'modelled {self.kind} has no attribute {name}')

    def py_iter(self, it: 'Interp') -> list:
        raise Unsupported(f'modelled {self.kind} is not iterable')

    def py_len(self, it: 'Interp') -> int:
        raise Unsupported(f'modelled {self.kind} has no len()')

    def py_bool(self, it: 'Interp') -> bool:
        return True

    def py_eq(self, it: 'Interp', other: Any) -> bool:
        return self is other

    def py_str(self, it: 'Interp') -> str:
        raise Unsupported(f'modelled {self.kind} has no str()')

    def py_isinstance(self, it: 'Interp', cls: Any) -> Optional[bool]:
        return None


class SuperProxy:
    def __init__(self, inst: Inst, after: ClassRef):
        self.inst = inst
        self.after = after


class Env:
    def __init__(self, parent: Optional['Env'], mod: Mod):
        self.vars: Dict[str, Any] = {}
        self.parent = parent
        self.mod = mod
        self.globals_decl: set = set()
        self.nonlocals: set = set()
        self.yields: Optional[list] = None
        self.cls: Optional[ClassRef] = None  # class whose method body this is (for zero-argument super())
        self.self_obj: Any = None

    def find(self, name: str) -> Optional['Env']:
        e: Optional[Env] = self
        while e is not None:
            if name in e.vars:
                return e
            e = e.parent
        return None


_MISSING = object()

_NATIVE_TYPES = {'int': int, 'str': str, 'bool': bool, 'float': float, 'bytes': bytes, 'tuple': tuple, 'list': list, 'dict': dict,
                 'set': set, 'frozenset': frozenset, 'object': object}

_STR_METHODS = {
    'strip', 'lstrip', 'rstrip', 'lower', 'upper', 'casefold', 'swapcase', 'title', 'capitalize', 'replace', 'split', 'rsplit', 'splitlines',
    'join', 'startswith', 'endswith', 'find', 'rfind', 'index', 'rindex', 'count', 'encode', 'format', 'isidentifier', 'isalnum', 'isalpha',
    'isdigit', 'isdecimal', 'isnumeric', 'isspace', 'isascii', 'islower', 'isupper', 'isprintable', 'partition', 'rpartition', 'zfill', 'ljust',
    'rjust', 'center', 'expandtabs', 'translate', 'removeprefix', 'removesuffix', 'format_map'}
_BYTES_METHODS = {'decode', 'replace', 'startswith', 'endswith', 'strip', 'split', 'join', 'hex', 'lower', 'upper', 'find', 'count'}
_LIST_METHODS = {'append', 'extend', 'insert', 'pop', 'remove', 'clear', 'copy', 'index', 'count', 'reverse', 'sort'}
_TUPLE_METHODS = {'index', 'count'}
_DICT_METHODS = {'get', 'setdefault', 'pop', 'popitem', 'clear', 'copy', 'update', 'items', 'keys', 'values', 'move_to_end', 'fromkeys'}
_SET_METHODS = {'add', 'discard', 'remove', 'clear', 'copy', 'union', 'intersection', 'difference', 'issubset', 'issuperset', 'update', 'pop',
                'isdisjoint', 'symmetric_difference'}
_INT_METHODS = {'bit_length', 'to_bytes'}
_PATTERN_METHODS = {'fullmatch', 'match', 'search', 'sub', 'subn', 'split', 'findall'}
_MATCH_METHODS = {'group', 'groups', 'start', 'end', 'span', 'groupdict'}


def _native_ok(v: Any, depth: int = 0) -> bool:
    """A value made of platform data only (safe to hand to a native method)."""
    if v is None or isinstance(v, (bool, int, float, str, bytes, _re.Pattern, _re.Match)):
        return True
    if depth > 6:
        return False
    if isinstance(v, (list, tuple, set, frozenset)):
        return all(_native_ok(x, depth + 1) for x in v)
    if isinstance(v, dict):
        return all(_native_ok(k, depth + 1) and _native_ok(x, depth + 1) for k, x in v.items())
    return False


class Interp:
    def __init__(self, externals: Optional[Dict[str, Any]] = None, package_roots: Optional[Dict[str, str]] = None,
                 coercers: Optional[Dict[str, Callable]] = None, ext_class_methods: Optional[Dict[str, Dict[str, Callable]]] = None,
                 max_steps: int = 3_000_000):
        self.externals: Dict[str, Any] = dict(DEFAULT_EXTERNALS)
        self.externals.update(externals or {})
        self.roots = package_roots or {}
        self.coercers = coercers or {}
        self.ext_class_methods = ext_class_methods or {}
        self.mods: Dict[str, Mod] = {}
        self.steps = 0
        self.max_steps = max_steps
        self.current_exc: Optional[PyRaise] = None
        self.trace: List[str] = []

    # ---- modules ------------------------------------------------------------------------------
    def module(self, rel: str) -> Mod:
        m = self.mods.get(rel)
        if m is None:
            m = Mod(pf.load(rel))
            self.mods[rel] = m
        return m

    def _rel_of_dotted(self, dotted: str) -> Optional[str]:
        for prefix, root in self.roots.items():
            if dotted == prefix or dotted.startswith(prefix + '.'):
                rest = dotted[len(prefix):].lstrip('.')
                base = root + ('/' + rest.replace('.', '/') if rest else '')
                for cand in (base + '.py', base + '/__init__.py'):
                    if os.path.exists(repo_path(cand)):
                        return cand
        return None

    def _import_from(self, mod: Mod, st: ast.ImportFrom, name: str) -> Any:
        if st.level > 0:
            base = os.path.dirname(mod.rel)
            for _ in range(st.level - 1):
                base = os.path.dirname(base)
            parts = [p for p in (st.module or '').split('.') if p]
            stem = os.path.join(base, *parts) if parts else base
            cands = [stem + '.py', os.path.join(stem, '__init__.py')] if parts else [os.path.join(stem, '__init__.py')]
            # `from . import x` / `from .pkg import submodule`
            sub = [os.path.join(stem, name + '.py'), os.path.join(stem, name, '__init__.py')]
            for rel in cands:
                if os.path.exists(repo_path(rel)):
                    target = self.module(rel)
                    try:
                        return self.global_lookup(target, name)
                    except Unsupported:
                        break
            for rel in sub:
                if os.path.exists(repo_path(rel)):
                    return self.module(rel)
            raise Unsupported(f'cannot resolve `from {"." * st.level}{st.module or ""} import {name}` in {mod.rel}')
        dn = f'{st.module}.{name}'
        if dn in self.externals:
            return self.externals[dn]
        rel2 = self._rel_of_dotted(st.module or '')
        if rel2 is not None:
            try:
                return self.global_lookup(self.module(rel2), name)
            except Unsupported:
                rel3 = self._rel_of_dotted(dn)
                if rel3 is not None:
                    return self.module(rel3)
                raise
        return ExtRef(dn)

    def global_lookup(self, mod: Mod, name: str) -> Any:
        if name in mod.cache:
            return mod.cache[name]
        if name in mod.busy:
            raise Unsupported(f'cyclic module-level definition of {name} in {mod.rel}')
        mod.busy.add(name)
        try:
            val: Any = _MISSING
            for st in self._top_level(mod.pm.tree.body):
                if isinstance(st, ast.ClassDef) and st.name == name:
                    val = self.make_class(mod, st)
                elif isinstance(st, (ast.FunctionDef, ast.AsyncFunctionDef)) and st.name == name:
                    if isinstance(st, ast.AsyncFunctionDef):
                        raise Unsupported(f'async function {name}')
                    val = self.make_function(st, mod, None, None, name)
                elif isinstance(st, ast.Assign):
                    for t in st.targets:
                        if isinstance(t, ast.Name) and t.id == name:
                            val = ('expr', st.value)
                        elif isinstance(t, (ast.Tuple, ast.List)) and any(isinstance(x, ast.Name) and x.id == name for x in ast.walk(t)):
                            raise Unsupported(f'module-level unpacking assignment of {name} in {mod.rel}')
                elif isinstance(st, ast.AnnAssign) and isinstance(st.target, ast.Name) and st.target.id == name and st.value is not None:
                    val = ('expr', st.value)
                elif isinstance(st, ast.AugAssign) and isinstance(st.target, ast.Name) and st.target.id == name:
                    raise Unsupported(f'module-level augmented assignment of {name} in {mod.rel}')
                elif isinstance(st, ast.Import):
                    for a in st.names:
                        local = a.asname or a.name.split('.')[0]
                        if local == name:
                            full = a.name if a.asname else a.name.split('.')[0]
                            if full in self.externals:
                                val = self.externals[full]
                            else:
                                rel2 = self._rel_of_dotted(full)
                                val = self.module(rel2) if rel2 is not None else ExtRef(full)
                elif isinstance(st, ast.ImportFrom):
                    for a in st.names:
                        if (a.asname or a.name) == name:
                            val = ('import', st, a.name)
            if isinstance(val, tuple) and val and val[0] == 'expr':
                val = self.ev(val[1], Env(None, mod))
            elif isinstance(val, tuple) and val and val[0] == 'import':
                val = self._import_from(mod, val[1], val[2])
            if val is _MISSING:
                if name in BUILTINS:
                    val = BUILTINS[name]
                elif name in _NATIVE_TYPES:
                    val = _NATIVE_TYPES[name]
                elif name in EXC_NAMES:
                    val = ExcName(name)
                else:
                    raise Unsupported(f'name {name} cannot be resolved in {mod.rel}')
            mod.cache[name] = val
            return val
        finally:
            mod.busy.discard(name)

    @staticmethod
    def _top_level(stmts: List[ast.stmt]):
        for st in stmts:
            if isinstance(st, (ast.If, ast.Try)):
                # definitions under `if TYPE_CHECKING:` / try-import blocks: first branch only
                yield from Interp._top_level(st.body)
            else:
                yield st

    def set_global(self, mod: Mod, name: str, v: Any) -> None:
        mod.cache[name] = v

    # ---- classes / functions ----------------------------------------------------------------
    def make_class(self, mod: Mod, node: ast.ClassDef) -> ClassRef:
        key = f'class:{id(node)}'
        c = mod.cache.get(key)
        if c is None:
            c = ClassRef(mod, node)
            mod.cache[key] = c
        return c

    def bases(self, c: ClassRef) -> List[Any]:
        out = []
        for b in c.node.bases:
            d = pf.dotted(b)
            if d is None:
                raise Unsupported(f'base class expression `{pf.nsrc(b)}` of {c.name}')
            if d in ('object',):
                continue
            head = d.split('.')[0]
            try:
                v = self.global_lookup(c.mod, head)
            except Unsupported:
                out.append(ExtRef(d))
                continue
            for part in d.split('.')[1:]:
                v = self.getattr(v, part)
            out.append(v)
        return out

    def mro(self, c: ClassRef) -> List[ClassRef]:
        if c._mro is None:
            seq: List[ClassRef] = [c]
            c.ext_bases = []
            for b in self.bases(c):
                if isinstance(b, ClassRef):
                    for x in self.mro(b):
                        if x in seq:
                            seq.remove(x)
                        seq.append(x)
                    c.ext_bases += [e for e in b.ext_bases if e not in c.ext_bases]
                elif isinstance(b, ExtRef):
                    c.ext_bases.append(b.name)
                elif isinstance(b, ExcName):
                    c.ext_bases.append('exc:' + b.name)
                elif b is object or isinstance(b, type):
                    continue
                else:
                    raise Unsupported(f'base {b!r} of class {c.name}')
            c._mro = seq
        return c._mro

    def make_function(self, node: Any, mod: Mod, closure: Optional[Env], cls: Optional[ClassRef], qual: str) -> Func:
        f = Func(node, mod, closure, cls, qual)
        if isinstance(node, ast.Lambda):
            return f
        f.is_gen = any(isinstance(n, (ast.Yield, ast.YieldFrom)) for n in pf.walk_shallow(node))
        for d in node.decorator_list:
            call = d.func if isinstance(d, ast.Call) else d
            dn = pf.dotted(call) or pf.nsrc(call)
            last = dn.split('.')[-1]
            if last == 'property' and dn in ('property', 'builtins.property'):
                f.kind = 'property'
            elif last == 'cached_property':
                f.kind = 'cached_property'
            elif dn == 'staticmethod':
                f.kind = 'static'
            elif dn == 'classmethod':
                f.kind = 'class'
            elif last in ('abstractmethod', 'override', 'final', 'wraps'):
                pass
            elif last in ('lru_cache', 'cache') and dn in ('lru_cache', 'cache', 'functools.lru_cache', 'functools.cache'):
                pass  # a memo keyed by the (hashable, here: platform) arguments themselves is transparent for a deterministic function
            elif last in ('typecheck', 'typecheck_method') and isinstance(d, ast.Call) and not d.args:
                for k in d.keywords:
                    if k.arg is None:
                        f.unknown_decorator = pf.nsrc(d)
                    else:
                        f.checkers[k.arg] = k.value
            else:
                f.unknown_decorator = pf.nsrc(d)
        return f

    def class_member(self, c: ClassRef, attr: str, start_after: Optional[ClassRef] = None) -> Tuple[Any, Optional[ClassRef]]:
        """Raw class-level member (Func or evaluated constant) found along the MRO, with its owner; (_MISSING, None) if absent."""
        chain = self.mro(c)
        if start_after is not None:
            chain = chain[chain.index(start_after) + 1:] if start_after in chain else []
        for k in chain:
            hit: Any = _MISSING
            for st in k.node.body:
                if isinstance(st, (ast.FunctionDef, ast.AsyncFunctionDef)) and st.name == attr:
                    if isinstance(st, ast.AsyncFunctionDef):
                        raise Unsupported(f'async method {k.name}.{attr}')
                    key = f'fn:{id(st)}'
                    fn = k.consts.get(key)
                    if fn is None:
                        fn = self.make_function(st, k.mod, None, k, f'{k.name}.{attr}')
                        k.consts[key] = fn
                    hit = fn
                elif isinstance(st, ast.Assign) and any(isinstance(t, ast.Name) and t.id == attr for t in st.targets):
                    hit = ('expr', st.value)
                elif isinstance(st, ast.AnnAssign) and isinstance(st.target, ast.Name) and st.target.id == attr and st.value is not None:
                    hit = ('expr', st.value)
            if hit is not _MISSING:
                if isinstance(hit, tuple):
                    if attr not in k.consts:
                        env = Env(None, k.mod)
                        env.vars.update({n: v for n, v in k.consts.items() if not n.startswith('fn:')})
                        k.consts[attr] = self.ev(hit[1], env)
                    return k.consts[attr], k
                return hit, k
        return _MISSING, None

    def _ext_method(self, c: ClassRef, attr: str) -> Optional[Callable]:
        self.mro(c)
        for e in c.ext_bases:
            tbl = self.ext_class_methods.get(e)
            if tbl is None:
                tbl = self.ext_class_methods.get(e.split('.')[-1])
            if tbl and attr in tbl:
                return tbl[attr]
        return None

    # ---- attribute access -------------------------------------------------------------------
    def getattr(self, v: Any, attr: str) -> Any:
        if isinstance(v, Inst):
            if attr in v.attrs:
                return v.attrs[attr]
            if attr == '__class__':
                return v.cls
            m, owner = self.class_member(v.cls, attr)
            if m is not _MISSING:
                return self._bind_member(m, v, attr)
            em = self._ext_method(v.cls, attr)
            if em is not None:
                return Builtin(f'{v.cls.name}.{attr}', lambda it, a, k, _m=em, _o=v: _m(it, _o, a, k))
            raise PyRaise('AttributeError', (f'{v.cls.name} object has no attribute {attr}',))
        if isinstance(v, SuperProxy):
            m, owner = self.class_member(v.inst.cls, attr, v.after)
            if m is not _MISSING:
                return self._bind_member(m, v.inst, attr)
            em = self._ext_method(v.inst.cls, attr)
            if em is not None:
                return Builtin(f'super.{attr}', lambda it, a, k, _m=em, _o=v.inst: _m(it, _o, a, k))
            if attr == '__init__':
                return Builtin('object.__init__', lambda it, a, k: None)
            raise Unsupported(f'super().{attr} not found')
        if isinstance(v, ClassRef):
            if attr == '__name__':
                return v.name
            m, owner = self.class_member(v, attr)
            if m is _MISSING:
                raise PyRaise('AttributeError', (f'class {v.name} has no attribute {attr}',))
            if isinstance(m, Func):
                if m.kind == 'class':
                    return Bound(m, v)
                return m
            return m
        if isinstance(v, Mod):
            return self.global_lookup(v, attr)
        if isinstance(v, ExtRef):
            dn = f'{v.name}.{attr}'
            if dn in self.externals:
                return self.externals[dn]
            return ExtRef(dn)
        if isinstance(v, ExtObj):
            return v.py_getattr(self, attr)
        if isinstance(v, Func) and attr in ('__name__', '__qualname__'):
            return v.qual.split('.')[-1]
        if isinstance(v, Func):
            fa = getattr(v, 'fattrs', None)
            if fa is not None and attr in fa:
                return fa[attr]
            raise PyRaise('AttributeError', (f'function has no attribute {attr}',))
        tables = ((str, _STR_METHODS), (bytes, _BYTES_METHODS), (list, _LIST_METHODS), (tuple, _TUPLE_METHODS), (dict, _DICT_METHODS),
                  (set, _SET_METHODS), (frozenset, _SET_METHODS), (bool, set()), (int, _INT_METHODS), (_re.Pattern, _PATTERN_METHODS),
                  (_re.Match, _MATCH_METHODS))
        for ty, names in tables:
            if isinstance(v, ty):
                if attr in names:
                    return Builtin(f'{ty.__name__}.{attr}', lambda it, a, k, _v=v, _n=attr: it.native_method(_v, _n, a, k))
                if ty is _re.Pattern and attr in ('pattern', 'flags'):
                    return getattr(v, attr)
                break
        if isinstance(v, ExcValue) and attr == 'args':
            return v.args
        raise Unsupported(f'attribute {attr} of a {type(v).__name__} value')

    def _bind_member(self, m: Any, inst: Inst, attr: str) -> Any:
        if isinstance(m, Func):
            if m.kind == 'property':
                return self.call_function(m, [inst], {})
            if m.kind == 'cached_property':
                r = self.call_function(m, [inst], {})
                inst.attrs[attr] = r
                return r
            if m.kind == 'static':
                return m
            if m.kind == 'class':
                return Bound(m, inst.cls)
            return Bound(m, inst)
        return m

    def setattr(self, v: Any, attr: str, val: Any) -> None:
        if isinstance(v, Inst):
            m, _o = self.class_member(v.cls, attr)
            if isinstance(m, Func) and m.kind in ('property',):
                raise Unsupported(f'assignment to property {v.cls.name}.{attr}')
            v.attrs[attr] = val
        elif isinstance(v, ClassRef):
            v.consts[attr] = val
            # the owner along the MRO may differ; only direct class attributes are modelled
            if not any((isinstance(st, ast.Assign) and any(isinstance(t, ast.Name) and t.id == attr for t in st.targets))
                       or (isinstance(st, ast.AnnAssign) and isinstance(st.target, ast.Name) and st.target.id == attr) for st in v.node.body):
                raise Unsupported(f'new class attribute {v.name}.{attr}')
        elif isinstance(v, Func):
            if not hasattr(v, 'fattrs'):
                v.fattrs = {}  # type: ignore[attr-defined]
            v.fattrs[attr] = val  # type: ignore[attr-defined]
        else:
            raise Unsupported(f'attribute store on a {type(v).__name__} value')

    def native_method(self, v: Any, name: str, args: list, kwargs: dict) -> Any:
        if isinstance(v, str) and name in ('format', 'format_map'):
            args = [self._fmt_arg(a) for a in args]
            kwargs = {k: self._fmt_arg(a) for k, a in kwargs.items()}
        elif isinstance(v, (list, dict, set)) and name in ('append', 'insert', 'extend', 'setdefault', 'update', 'add', 'get', 'pop', 'remove', 'index', 'count', 'discard'):
            # containers may hold interpreted objects as VALUES; keys must be platform data
            if isinstance(v, dict) and name in ('setdefault', 'get', 'pop') and args:
                self._check_key(args[0])
            elif isinstance(v, dict) and name == 'update':
                for a in args:
                    if isinstance(a, dict):
                        for k in a:
                            self._check_key(k)
                    else:
                        raise Unsupported('dict.update with a non-dict')
            elif isinstance(v, set):
                for a in args:
                    self._check_key(a)
            elif isinstance(v, list) and name in ('remove', 'index', 'count'):
                if not _native_ok(args) or not _native_ok(v):
                    raise Unsupported(f'list.{name} over interpreted objects')
        elif isinstance(v, list) and name == 'sort':
            if kwargs or not _native_ok(v):
                raise Unsupported('list.sort with a key / over interpreted objects')
        elif not (_native_ok(args) and _native_ok(kwargs)):
            raise Unsupported(f'{type(v).__name__}.{name} with interpreted objects as arguments')
        try:
            r = getattr(v, name)(*args, **kwargs)
        except _NATIVE_ERRORS as e:
            raise PyRaise(type(e).__name__ if not isinstance(e, UnicodeError) else type(e).__name__, tuple(map(str, e.args))) from None
        except _re.error as e:
            raise PyRaise('re.error', (str(e),)) from None
        if isinstance(v, dict) and name in ('items', 'keys', 'values'):
            return list(r)
        return r

    def _fmt_arg(self, a: Any) -> Any:
        if isinstance(a, (Inst, ExtObj)):
            return self.to_str(a)
        if isinstance(a, (list, tuple, dict)) and not _native_ok(a):
            return self.to_repr(a)
        return a

    def _check_key(self, k: Any) -> None:
        if _native_ok(k):
            return
        if isinstance(k, tuple):
            for x in k:
                self._check_key(x)
            return
        if isinstance(k, Inst):
            if self.class_member(k.cls, '__eq__')[0] is _MISSING and self.class_member(k.cls, '__hash__')[0] is _MISSING:
                return
        raise Unsupported(f'a {type(k).__name__} value with its own __eq__/__hash__ used as a dict key / set member')

    # ---- conversions ---------------------------------------------------------------------------
    def to_str(self, v: Any) -> str:
        if isinstance(v, Inst):
            m, _o = self.class_member(v.cls, '__str__')
            if m is _MISSING:
                m, _o = self.class_member(v.cls, '__repr__')
            if m is _MISSING:
                raise Unsupported(f'str() of a {v.cls.name} without __str__')
            r = self.call_function(m, [v], {})
            if not isinstance(r, str):
                raise PyRaise('TypeError', ('__str__ returned non-string',))
            return r
        if isinstance(v, ExtObj):
            return v.py_str(self)
        if _native_ok(v):
            return str(v)
        if isinstance(v, (list, tuple, dict)):
            return self.to_repr(v)
        raise Unsupported(f'str() of a {type(v).__name__} value')

    def to_repr(self, v: Any) -> str:
        if isinstance(v, Inst):
            m, _o = self.class_member(v.cls, '__repr__')
            if m is _MISSING:
                raise Unsupported(f'repr() of a {v.cls.name} without __repr__')
            return self.call_function(m, [v], {})
        if _native_ok(v):
            return repr(v)
        if isinstance(v, list):
            return '[' + ', '.join(self.to_repr(x) for x in v) + ']'
        if isinstance(v, tuple):
            return '(' + ', '.join(self.to_repr(x) for x in v) + (',)' if len(v) == 1 else ')')
        if isinstance(v, dict):
            return '{' + ', '.join(f'{self.to_repr(k)}: {self.to_repr(x)}' for k, x in v.items()) + '}'
        raise Unsupported(f'repr() of a {type(v).__name__} value')

    def truth(self, v: Any) -> bool:
        if isinstance(v, Inst):
            m, _o = self.class_member(v.cls, '__bool__')
            if m is not _MISSING:
                return bool(self.call_function(m, [v], {}))
            m, _o = self.class_member(v.cls, '__len__')
            if m is not _MISSING:
                return self.call_function(m, [v], {}) != 0
            return True
        if isinstance(v, ExtObj):
            return v.py_bool(self)
        if isinstance(v, (Func, Bound, Builtin, ClassRef, Mod, ExtRef, ExcName, ExcValue, type)):
            return True
        return bool(v)

    def iterate(self, v: Any) -> list:
        if isinstance(v, (list, tuple, str, bytes, set, frozenset)):
            return list(v)
        if isinstance(v, dict):
            return list(v.keys())
        if isinstance(v, range):
            if len(v) > 100000:
                raise Unsupported('very long range')
            return list(v)
        if isinstance(v, Inst):
            m, _o = self.class_member(v.cls, '__iter__')
            if m is not _MISSING:
                return self.iterate(self.call_function(m, [v], {}))
            g, _o = self.class_member(v.cls, '__getitem__')
            ln, _o2 = self.class_member(v.cls, '__len__')
            if g is not _MISSING and ln is not _MISSING:
                return [self.call_function(g, [v, i], {}) for i in range(self.call_function(ln, [v], {}))]
            raise PyRaise('TypeError', (f'{v.cls.name} object is not iterable',))
        if isinstance(v, ExtObj):
            return v.py_iter(self)
        if v is None or isinstance(v, (int, float, bool)):
            raise PyRaise('TypeError', (f'{type(v).__name__} object is not iterable',))
        raise Unsupported(f'iteration over a {type(v).__name__} value')

    def py_eq(self, a: Any, b: Any) -> bool:
        if isinstance(a, Inst) or isinstance(b, Inst):
            for x, y in ((a, b), (b, a)):
                if isinstance(x, Inst):
                    m, _o = self.class_member(x.cls, '__eq__')
                    if m is not _MISSING:
                        r = self.call_function(m, [x, y], {})
                        if r is not NotImplementedV:
                            return self.truth(r)
            return a is b
        if isinstance(a, ExtObj):
            return a.py_eq(self, b)
        if isinstance(b, ExtObj):
            return b.py_eq(self, a)
        if isinstance(a, (list, tuple)) and type(a) is type(b):
            return len(a) == len(b) and all(self.py_eq(x, y) for x, y in zip(a, b))
        if isinstance(a, dict) and isinstance(b, dict):
            return a.keys() == b.keys() and all(self.py_eq(a[k], b[k]) for k in a)
        if _native_ok(a) and _native_ok(b):
            return a == b
        if isinstance(a, (ClassRef, Func, Mod, type, Builtin)) or isinstance(b, (ClassRef, Func, Mod, type, Builtin)):
            return a is b
        if isinstance(a, ExcName) and isinstance(b, ExcName):
            return a.name == b.name
        return a is b

    # ---- calls ----------------------------------------------------------------------------------
    def call(self, fn: Any, args: list, kwargs: Optional[dict] = None) -> Any:
        kwargs = kwargs or {}
        self.steps += 1
        if self.steps > self.max_steps:
            raise Unsupported('evaluation step budget exhausted')
        if isinstance(fn, Bound):
            return self.call(fn.func, [fn.self_obj] + list(args), kwargs)
        if isinstance(fn, Builtin):
            return fn.fn(self, list(args), dict(kwargs))
        if isinstance(fn, Func):
            return self.call_function(fn, list(args), dict(kwargs))
        if isinstance(fn, ClassRef):
            return self.instantiate(fn, list(args), dict(kwargs))
        if isinstance(fn, ExcName):
            return ExcValue(fn.name, tuple(args), None)
        if isinstance(fn, type) and fn in _NATIVE_TYPES.values():
            return BUILTINS[fn.__name__].fn(self, list(args), dict(kwargs))
        if isinstance(fn, ExtRef):
            if fn.name in self.externals:
                return self.call(self.externals[fn.name], args, kwargs)
            raise Unsupported(f'call of the external {fn.name} (no model)')
        if isinstance(fn, Inst):
            m, _o = self.class_member(fn.cls, '__call__')
            if m is not _MISSING:
                return self.call_function(m, [fn] + list(args), dict(kwargs))
        raise Unsupported(f'call of a {type(fn).__name__} value')

    def instantiate(self, c: ClassRef, args: list, kwargs: dict) -> Any:
        chain = self.mro(c)
        if any(e.startswith('exc:') for e in c.ext_bases):
            return ExcValue(c.name, tuple(args), c)
        if self.class_member(c, '__new__')[0] is not _MISSING:
            raise Unsupported(f'{c.name}.__new__ is not modelled')
        for k in chain:
            for kw in k.node.keywords:
                raise Unsupported(f'class keyword {kw.arg} (metaclass) on {k.name}')
        o = Inst(c)
        init, _o = self.class_member(c, '__init__')
        if init is not _MISSING:
            self.call_function(init, [o] + args, kwargs)
        else:
            em = self._ext_method(c, '__init__')
            if em is not None:
                em(self, o, args, kwargs)
            elif args or kwargs:
                if any(not e.startswith('exc:') for e in c.ext_bases):
                    raise Unsupported(f'{c.name}(...) with arguments but an unmodelled base __init__')
                raise PyRaise('TypeError', (f'{c.name}() takes no arguments',))
        return o

    def _defaults(self, fn: Func) -> Dict[str, Any]:
        if fn.defaults is None:
            a = fn.node.args
            pos = [x.arg for x in a.posonlyargs + a.args]
            d: Dict[str, Any] = {}
            env = fn.closure or Env(None, fn.mod)
            for name, e in zip(pos[len(pos) - len(a.defaults):], a.defaults):
                d[name] = self.ev(e, env)
            for ka, kd in zip(a.kwonlyargs, a.kw_defaults):
                if kd is not None:
                    d[ka.arg] = self.ev(kd, env)
            fn.defaults = d
        return fn.defaults

    def call_function(self, fn: Func, args: list, kwargs: dict) -> Any:
        self.steps += 1
        if self.steps > self.max_steps:
            raise Unsupported('evaluation step budget exhausted')
        if fn.unknown_decorator is not None:
            raise Unsupported(f'{fn.qual} carries the decorator `{fn.unknown_decorator}`, which is not modelled')
        a = fn.node.args
        env = Env(fn.closure, fn.mod)
        env.cls = fn.cls
        pos = [x.arg for x in a.posonlyargs + a.args]
        defaults = self._defaults(fn)
        kwargs = dict(kwargs)
        for i, name in enumerate(pos):
            if i < len(args):
                if name in kwargs:
                    raise PyRaise('TypeError', (f'{fn.qual}() got multiple values for argument {name}',))
                env.vars[name] = args[i]
            elif name in kwargs:
                env.vars[name] = kwargs.pop(name)
            elif name in defaults:
                env.vars[name] = defaults[name]
            else:
                raise PyRaise('TypeError', (f'{fn.qual}() missing required argument {name}',))
        extra = args[len(pos):]
        if a.vararg is not None:
            env.vars[a.vararg.arg] = tuple(extra)
        elif extra:
            raise PyRaise('TypeError', (f'{fn.qual}() takes {len(pos)} positional arguments but {len(args)} were given',))
        for ka in a.kwonlyargs:
            if ka.arg in kwargs:
                env.vars[ka.arg] = kwargs.pop(ka.arg)
            elif ka.arg in defaults:
                env.vars[ka.arg] = defaults[ka.arg]
            else:
                raise PyRaise('TypeError', (f'{fn.qual}() missing keyword argument {ka.arg}',))
        if a.kwarg is not None:
            env.vars[a.kwarg.arg] = kwargs
        elif kwargs:
            raise PyRaise('TypeError', (f'{fn.qual}() got an unexpected keyword argument {sorted(kwargs)[0]}',))
        if pos and fn.cls is not None and fn.kind not in ('static',):
            env.self_obj = env.vars.get(pos[0])
        elif fn.cls is not None and a.vararg is not None and extra:
            env.self_obj = extra[0]
        for pname, chk in fn.checkers.items():
            self._apply_checker(fn, env, pname, chk)
        if isinstance(fn.node, ast.Lambda):
            return self.ev(fn.node.body, env)
        if fn.is_gen:
            env.yields = []
        try:
            self.exec_block(fn.node.body, env)
        except _Return as r:
            if fn.is_gen:
                return env.yields
            return r.v
        return env.yields if fn.is_gen else None

    # typecheck decorators: only the coercions the caller models; unknown transforming checkers are declined
    _COMBINATORS = {'oneof', 'nullable', 'sequenceof', 'tupleof', 'sized_tupleof', 'dictof', 'setof', 'anytype', 'enumeration', 'lazy',
                    'exactly', 'numeric', 'func_spec', 'anyfunc', 'table_key_type', 'char', 'linked_list', 'sliceof', 'arg_check', 'type'}

    def _checker_coercers(self, fn: Func, e: ast.AST, depth: int = 0) -> List[Callable]:
        src = pf.nsrc(e)
        if src in self.coercers:
            return [self.coercers[src]]
        if isinstance(e, ast.Constant):
            return []
        if isinstance(e, ast.Name):
            if e.id in self.coercers:
                return [self.coercers[e.id]]
            if e.id in self._COMBINATORS or e.id in _NATIVE_TYPES or e.id == 'None':
                return []
            if e.id == 'transformed':
                raise Unsupported(f'{fn.qual}: typecheck transformation `{src}` is not modelled')
            try:
                v = self.global_lookup(fn.mod, e.id)
            except Unsupported:
                raise Unsupported(f'{fn.qual}: typecheck checker `{e.id}` cannot be resolved') from None
            if isinstance(v, (ClassRef, type)) or (isinstance(v, ExtRef) and v.name.split('.')[-1][:1].isupper()):
                return []
            raise Unsupported(f'{fn.qual}: typecheck checker `{e.id}` is not modelled')
        if isinstance(e, ast.Attribute):
            d = pf.dotted(e)
            if d is not None and d.split('.')[-1][:1].isupper():
                return []  # a class used as a checker
            raise Unsupported(f'{fn.qual}: typecheck checker `{src}` is not modelled')
        if isinstance(e, ast.Call):
            out: List[Callable] = []
            head = pf.dotted(e.func)
            if head == 'transformed' or head is None or head.split('.')[-1] not in self._COMBINATORS:
                raise Unsupported(f'{fn.qual}: typecheck checker `{src}` is not modelled')
            for x in list(e.args) + [k.value for k in e.keywords]:
                out += self._checker_coercers(fn, x, depth + 1)
            return out
        if isinstance(e, (ast.Tuple, ast.List)):
            out = []
            for x in e.elts:
                out += self._checker_coercers(fn, x, depth + 1)
            return out
        raise Unsupported(f'{fn.qual}: typecheck checker `{src}` is not modelled')

    def _apply_checker(self, fn: Func, env: Env, pname: str, chk: ast.AST) -> None:
        cs = self._checker_coercers(fn, chk)
        if not cs or pname not in env.vars:
            return
        a = fn.node.args

        def co(v: Any) -> Any:
            for c in cs:
                v = c(self, v)
            return v
        if a.vararg is not None and a.vararg.arg == pname:
            env.vars[pname] = tuple(co(x) for x in env.vars[pname])
        elif a.kwarg is not None and a.kwarg.arg == pname:
            env.vars[pname] = {k: co(x) for k, x in env.vars[pname].items()}
        else:
            env.vars[pname] = co(env.vars[pname])
