"""Python facts: AST loader, symbol lookup, statement CFG, dominance / must-pass-through.

Repository code is parsed with `ast` only; nothing is imported or executed.
"""
from __future__ import annotations

import ast
import os
from typing import Callable, Dict, Iterable, Iterator, List, Optional, Sequence, Set, Tuple, Union

from .common import REPO, AnalysisError, norm, repo_path

FuncDef = Union[ast.FunctionDef, ast.AsyncFunctionDef]

# --------------------------------------------------------------------------------------
# modules
# --------------------------------------------------------------------------------------


class Module:
    def __init__(self, rel: str, path: str, src: str, tree: ast.Module):
        self.rel = rel
        self.path = path
        self.src = src
        self.tree = tree
        self.lines = src.splitlines()
        self._parents: Optional[Dict[ast.AST, ast.AST]] = None

    # -- lookup -------------------------------------------------------
    def func(self, qual: str) -> FuncDef:
        """Look up `f`, `Class.method`, `outer.inner` (nested defs)."""
        node: ast.AST = self.tree
        for part in qual.split('.'):
            found = None
            for child in _body_defs(node):
                if isinstance(child, (ast.FunctionDef, ast.AsyncFunctionDef, ast.ClassDef)) and child.name == part:
                    found = child
            if found is None:
                raise AnalysisError(f'anchor vanished: {self.rel}::{qual} (no definition named {part!r})')
            node = found
        if not isinstance(node, (ast.FunctionDef, ast.AsyncFunctionDef)):
            raise AnalysisError(f'anchor {self.rel}::{qual} is not a function')
        return node

    def has_func(self, qual: str) -> bool:
        try:
            self.func(qual)
            return True
        except AnalysisError:
            return False

    def cls(self, name: str) -> ast.ClassDef:
        for child in ast.walk(self.tree):
            if isinstance(child, ast.ClassDef) and child.name == name:
                return child
        raise AnalysisError(f'anchor vanished: class {name} in {self.rel}')

    def classes(self) -> List[ast.ClassDef]:
        return [n for n in ast.walk(self.tree) if isinstance(n, ast.ClassDef)]

    def functions(self) -> List[Tuple[str, FuncDef]]:
        """All functions with their qualified names."""
        out: List[Tuple[str, FuncDef]] = []

        def rec(node: ast.AST, prefix: str):
            for child in _body_defs(node):
                if isinstance(child, (ast.FunctionDef, ast.AsyncFunctionDef)):
                    q = prefix + child.name
                    out.append((q, child))
                    rec(child, q + '.')
                elif isinstance(child, ast.ClassDef):
                    rec(child, prefix + child.name + '.')

        rec(self.tree, '')
        return out

    def global_assign(self, name: str) -> ast.expr:
        for st in self.tree.body:
            if isinstance(st, ast.Assign) and len(st.targets) == 1 and isinstance(st.targets[0], ast.Name) and st.targets[0].id == name:
                return st.value
            if isinstance(st, ast.AnnAssign) and isinstance(st.target, ast.Name) and st.target.id == name and st.value is not None:
                return st.value
        raise AnalysisError(f'anchor vanished: module-level assignment {name} in {self.rel}')

    def imports(self) -> Dict[str, str]:
        """local name -> dotted origin ('pkg.mod.sym' or 'pkg.mod')."""
        out: Dict[str, str] = {}
        for st in ast.walk(self.tree):
            if isinstance(st, ast.Import):
                for a in st.names:
                    # `import a.b.c` binds `a` to the package a; `import a.b.c as x` binds x to a.b.c
                    out[a.asname or a.name.split('.')[0]] = a.name if a.asname else a.name.split('.')[0]
            elif isinstance(st, ast.ImportFrom):
                base = ('.' * st.level) + (st.module or '')
                for a in st.names:
                    out[a.asname or a.name] = f'{base}.{a.name}'
        return out

    def parents(self) -> Dict[ast.AST, ast.AST]:
        if self._parents is None:
            self._parents = {}
            for p in ast.walk(self.tree):
                for c in ast.iter_child_nodes(p):
                    self._parents[c] = p
        return self._parents

    def enclosing_func(self, node: ast.AST) -> Optional[FuncDef]:
        par = self.parents()
        cur = par.get(node)
        while cur is not None:
            if isinstance(cur, (ast.FunctionDef, ast.AsyncFunctionDef)):
                return cur
            cur = par.get(cur)
        return None

    def qualname(self, fn: ast.AST) -> str:
        par = self.parents()
        parts = [getattr(fn, 'name', '?')]
        cur = par.get(fn)
        while cur is not None:
            if isinstance(cur, (ast.FunctionDef, ast.AsyncFunctionDef, ast.ClassDef)):
                parts.append(cur.name)
            cur = par.get(cur)
        return '.'.join(reversed(parts))


def _body_defs(node: ast.AST) -> Iterator[ast.AST]:
    """Definitions directly inside node (descending through if/try/with blocks, not into defs)."""
    stack = list(getattr(node, 'body', []))
    while stack:
        st = stack.pop(0)
        if isinstance(st, (ast.FunctionDef, ast.AsyncFunctionDef, ast.ClassDef)):
            yield st
        elif isinstance(st, (ast.If, ast.Try, ast.With, ast.AsyncWith, ast.For, ast.While, ast.AsyncFor)):
            for fld in ('body', 'orelse', 'finalbody'):
                stack.extend(getattr(st, fld, []))
            for h in getattr(st, 'handlers', []):
                stack.extend(h.body)


_mod_cache: Dict[str, Module] = {}


def load(rel: str) -> Module:
    path = repo_path(rel)
    key = path
    if key in _mod_cache:
        return _mod_cache[key]
    if not os.path.exists(path):
        raise AnalysisError(f'anchor file missing: {rel}')
    with open(path, encoding='utf-8') as fh:
        src = fh.read()
    try:
        tree = ast.parse(src, filename=path)
    except SyntaxError as e:
        raise AnalysisError(f'{rel} does not parse: {e}') from e
    m = Module(rel, path, src, tree)
    _mod_cache[key] = m
    return m


def walk_py(rel_dirs: Sequence[str], exclude: Sequence[str] = ()) -> Iterator[str]:
    """Repo-relative paths of all .py files under the given directories (the self-test overlay may add files)."""
    from .common import OVERLAY
    roots = [REPO] + ([os.path.join(OVERLAY, 'tree')] if OVERLAY else [])
    seen: Set[str] = set()
    out: List[str] = []
    for d in rel_dirs:
        for root_base in roots:
            base = os.path.join(root_base, d)
            if os.path.isfile(base):
                if d not in seen:
                    seen.add(d)
                    out.append(d)
                continue
            for root, dirs, files in os.walk(base):
                dirs[:] = sorted(x for x in dirs if x not in ('__pycache__', 'node_modules', '.git'))
                for f in sorted(files):
                    if f.endswith('.py'):
                        rel = os.path.relpath(os.path.join(root, f), root_base)
                        if any(rel.startswith(e) for e in exclude) or rel in seen:
                            continue
                        seen.add(rel)
                        out.append(rel)
    return iter(sorted(out))


# --------------------------------------------------------------------------------------
# small AST helpers
# --------------------------------------------------------------------------------------


def src(node: ast.AST) -> str:
    return ast.unparse(node)


def nsrc(node: ast.AST) -> str:
    return norm(ast.unparse(node))


def dotted(node: ast.AST) -> Optional[str]:
    """`a.b.c` -> 'a.b.c' for Name/Attribute chains, else None."""
    parts: List[str] = []
    cur = node
    while isinstance(cur, ast.Attribute):
        parts.append(cur.attr)
        cur = cur.value
    if isinstance(cur, ast.Name):
        parts.append(cur.id)
        return '.'.join(reversed(parts))
    return None


def call_name(node: ast.AST) -> Optional[str]:
    if isinstance(node, ast.Await):
        node = node.value
    if isinstance(node, ast.Call):
        return dotted(node.func)
    return None


def calls_in(node: ast.AST, into_nested_defs: bool = False) -> List[ast.Call]:
    out: List[ast.Call] = []
    for n in walk_shallow(node, into_nested_defs):
        if isinstance(n, ast.Call):
            out.append(n)
    return out


def walk_shallow(node: ast.AST, into_nested_defs: bool = False) -> Iterator[ast.AST]:
    """ast.walk that does not descend into nested function/class/lambda definitions."""
    stack = [node]
    first = True
    while stack:
        n = stack.pop()
        if not first and not into_nested_defs and isinstance(n, (ast.FunctionDef, ast.AsyncFunctionDef, ast.ClassDef, ast.Lambda)):
            continue
        first = False
        yield n
        stack.extend(reversed(list(ast.iter_child_nodes(n))))


def names_in(node: ast.AST) -> Set[str]:
    return {n.id for n in ast.walk(node) if isinstance(n, ast.Name)}


def has_await(node: ast.AST) -> bool:
    return any(isinstance(n, (ast.Await, ast.AsyncWith, ast.AsyncFor)) for n in walk_shallow(node))


def const_str(node: ast.AST) -> Optional[str]:
    """String literal value; also handles implicit concatenation and `'a' + 'b'`, and plain f-strings without holes."""
    if isinstance(node, ast.Constant) and isinstance(node.value, str):
        return node.value
    if isinstance(node, ast.BinOp) and isinstance(node.op, ast.Add):
        a, b = const_str(node.left), const_str(node.right)
        if a is not None and b is not None:
            return a + b
    if isinstance(node, ast.JoinedStr):
        parts = []
        for v in node.values:
            if isinstance(v, ast.Constant) and isinstance(v.value, str):
                parts.append(v.value)
            else:
                return None
        return ''.join(parts)
    return None


def fstring_template(node: ast.AST, hole: Callable[[ast.expr], str]) -> Optional[str]:
    """Render an f-string with every hole replaced by hole(expr)."""
    if isinstance(node, ast.Constant) and isinstance(node.value, str):
        return node.value
    if isinstance(node, ast.JoinedStr):
        parts = []
        for v in node.values:
            if isinstance(v, ast.Constant) and isinstance(v.value, str):
                parts.append(v.value)
            elif isinstance(v, ast.FormattedValue):
                parts.append(hole(v.value))
            else:
                return None
        return ''.join(parts)
    return None


def decorators(fn: FuncDef) -> List[ast.expr]:
    return list(fn.decorator_list)


def decorator_names(fn: FuncDef) -> List[str]:
    out = []
    for d in fn.decorator_list:
        if isinstance(d, ast.Call):
            out.append(dotted(d.func) or src(d.func))
        else:
            out.append(dotted(d) or src(d))
    return out


# --------------------------------------------------------------------------------------
# statement CFG
# --------------------------------------------------------------------------------------


class Node:
    """A CFG node: a simple statement, or the test/header of a compound statement."""

    __slots__ = ('id', 'kind', 'ast', 'succ', 'pred', 'label')

    def __init__(self, nid: int, kind: str, node: Optional[ast.AST], label: str = ''):
        self.id = nid
        self.kind = kind  # entry | exit | raise-exit | stmt | test | loop | with | except | return | raise
        self.ast = node
        self.succ: List[Tuple['Node', str]] = []
        self.pred: List[Tuple['Node', str]] = []
        self.label = label

    @property
    def lineno(self) -> int:
        return getattr(self.ast, 'lineno', 0) if self.ast is not None else 0

    def text(self) -> str:
        if self.ast is None:
            return self.kind
        if self.kind == 'test':
            return 'test ' + nsrc(self.ast)
        if self.kind == 'loop':
            a = self.ast
            if isinstance(a, (ast.For, ast.AsyncFor)):
                return f'for {nsrc(a.target)} in {nsrc(a.iter)}'
            return 'loop'
        if self.kind == 'with':
            return 'with ' + ', '.join(nsrc(i) for i in self.ast.items)  # type: ignore[attr-defined]
        if self.kind == 'except':
            h = self.ast
            return 'except ' + (nsrc(h.type) if getattr(h, 'type', None) is not None else '')
        return nsrc(self.ast)

    def __repr__(self) -> str:
        return f'<{self.id}:{self.kind}:{self.text()[:50]}@{self.lineno}>'


class CFG:
    """Intra-procedural CFG.  Exceptions: every node inside a `try` body has an 'exc' edge to
    each handler of the innermost enclosing try (and transitively outward is approximated by an
    'exc' edge from the handler-less case to the function's raise-exit).  `finally` bodies are
    duplicated per continuation (normal / exceptional / return / break / continue)."""

    def __init__(self, fn: FuncDef):
        self.fn = fn
        self.nodes: List[Node] = []
        self.entry = self._new('entry', None)
        self.exit = self._new('exit', None)  # normal return
        self.raise_exit = self._new('raise-exit', None)
        self._build()

    # -- construction ---------------------------------------------------
    def _new(self, kind: str, node: Optional[ast.AST], label: str = '') -> Node:
        n = Node(len(self.nodes), kind, node, label)
        self.nodes.append(n)
        return n

    @staticmethod
    def _edge(a: Node, b: Node, label: str = '') -> None:
        if (b, label) not in a.succ:
            a.succ.append((b, label))
            b.pred.append((a, label))

    def _build(self) -> None:
        # frames: list of dict(kind='loop'|'try'|'finally', ...)
        frontier = self._block(self.fn.body, [(self.entry, '')], [])
        for n, lab in frontier:
            self._edge(n, self.exit, lab)

    def _connect(self, frontier: List[Tuple[Node, str]], target: Node) -> None:
        for n, lab in frontier:
            self._edge(n, target, lab)

    def _block(self, stmts: Sequence[ast.stmt], frontier: List[Tuple[Node, str]], frames: List[dict]) -> List[Tuple[Node, str]]:
        for st in stmts:
            if not frontier:
                # unreachable code: still build it (so anchors can be found) but disconnected
                pass
            frontier = self._stmt(st, frontier, frames)
        return frontier

    def _exc_targets(self, frames: List[dict]) -> List[Node]:
        """Nodes an exception raised under `frames` flows to (memoised per frame; the exceptional
        copy of each finally body is built once)."""
        if not frames:
            return [self.raise_exit]
        fr = frames[-1]
        outer = frames[:-1]
        if fr['kind'] in ('loop', 'with'):
            return self._exc_targets(outer)
        if '_exc' in fr:
            return fr['_exc']
        targets: List[Node] = []
        if fr['kind'] == 'try':
            targets += fr['handlers']
            if fr['catch_all']:
                fr['_exc'] = targets
                return targets
        if fr.get('finalbody'):
            join = self._new('join', None)
            fr['_exc'] = targets + [join]
            outs = self._block(fr['finalbody'], [(join, 'exc')], outer)
            for t in self._exc_targets(outer):
                for x, _ in outs:
                    self._edge(x, t, 'exc')
            return fr['_exc']
        targets += self._exc_targets(outer)
        fr['_exc'] = targets
        return targets

    def _raise_from(self, n: Node, frames: List[dict]) -> None:
        """Add exceptional edges out of node n."""
        for t in self._exc_targets(frames):
            self._edge(n, t, 'exc')

    def _run_finallies(self, frontier: List[Tuple[Node, str]], frames: List[dict], upto: int) -> List[Tuple[Node, str]]:
        """Execute finally bodies of frames[upto:] innermost-first (for return/break/continue)."""
        for i in range(len(frames) - 1, upto - 1, -1):
            fr = frames[i]
            if fr['kind'] in ('try', 'finally-only') and fr.get('finalbody'):
                frontier = self._block(fr['finalbody'], frontier, frames[:i])
        return frontier

    def _may_raise(self, st: ast.AST) -> bool:
        for n in walk_shallow(st):
            if isinstance(n, (ast.Call, ast.Await, ast.Subscript, ast.Attribute, ast.BinOp, ast.Raise, ast.Assert, ast.Yield, ast.YieldFrom)):
                return True
        return False

    def _simple(self, st: ast.AST, kind: str, frontier: List[Tuple[Node, str]], frames: List[dict]) -> Node:
        n = self._new(kind, st)
        self._connect(frontier, n)
        if any(fr['kind'] in ('try', 'finally-only') for fr in frames) and self._may_raise(st):
            self._raise_from(n, frames)
        return n

    def _stmt(self, st: ast.stmt, frontier: List[Tuple[Node, str]], frames: List[dict]) -> List[Tuple[Node, str]]:
        if isinstance(st, ast.If):
            t = self._simple(st.test, 'test', frontier, frames)
            a = self._block(st.body, [(t, 'T')], frames)
            b = self._block(st.orelse, [(t, 'F')], frames) if st.orelse else [(t, 'F')]
            return a + b
        if isinstance(st, (ast.While,)):
            t = self._simple(st.test, 'test', frontier, frames)
            fr = {'kind': 'loop', 'head': t, 'breaks': []}
            body_out = self._block(st.body, [(t, 'T')], frames + [fr])
            self._connect(body_out, t)
            out: List[Tuple[Node, str]] = []
            const_true = isinstance(st.test, ast.Constant) and bool(st.test.value)
            if not const_true:
                out = self._block(st.orelse, [(t, 'F')], frames) if st.orelse else [(t, 'F')]
            return out + fr['breaks']
        if isinstance(st, (ast.For, ast.AsyncFor)):
            h = self._simple(st, 'loop', frontier, frames)
            fr = {'kind': 'loop', 'head': h, 'breaks': []}
            body_out = self._block(st.body, [(h, 'T')], frames + [fr])
            self._connect(body_out, h)
            out = self._block(st.orelse, [(h, 'F')], frames) if st.orelse else [(h, 'F')]
            return out + fr['breaks']
        if isinstance(st, (ast.With, ast.AsyncWith)):
            w = self._simple(st, 'with', frontier, frames)
            return self._block(st.body, [(w, '')], frames + [{'kind': 'with', 'node': w}])
        if isinstance(st, ast.Try) or (hasattr(ast, 'TryStar') and isinstance(st, getattr(ast, 'TryStar'))):
            handlers = [self._new('except', h) for h in st.handlers]
            catch_all = any(h.type is None or (isinstance(h.type, ast.Name) and h.type.id == 'BaseException') for h in st.handlers)
            fr = {'kind': 'try' if st.handlers else 'finally-only', 'handlers': handlers, 'catch_all': catch_all, 'finalbody': st.finalbody}
            body_out = self._block(st.body, frontier, frames + [fr])
            if st.orelse:
                # exceptions in else are not caught by this try's handlers, but finally still runs
                fr_else = {'kind': 'finally-only', 'finalbody': st.finalbody} if st.finalbody else None
                body_out = self._block(st.orelse, body_out, frames + ([fr_else] if fr_else else []))
            outs = list(body_out)
            fr_h = {'kind': 'finally-only', 'finalbody': st.finalbody} if st.finalbody else None
            for hn, h in zip(handlers, st.handlers):
                outs += self._block(h.body, [(hn, '')], frames + ([fr_h] if fr_h else []))
            if st.finalbody:
                outs = self._block(st.finalbody, outs, frames)
            return outs
        if isinstance(st, ast.Return):
            n = self._simple(st, 'return', frontier, frames)
            f2 = self._run_finallies([(n, '')], frames, 0)
            self._connect(f2, self.exit)
            return []
        if isinstance(st, ast.Raise):
            n = self._new('raise', st)
            self._connect(frontier, n)
            self._raise_from(n, frames)
            return []
        if isinstance(st, ast.Break):
            idx = max(i for i, fr in enumerate(frames) if fr['kind'] == 'loop')
            n = self._new('stmt', st)
            self._connect(frontier, n)
            f2 = self._run_finallies([(n, '')], frames, idx + 1)
            frames[idx]['breaks'].extend(f2)
            return []
        if isinstance(st, ast.Continue):
            idx = max(i for i, fr in enumerate(frames) if fr['kind'] == 'loop')
            n = self._new('stmt', st)
            self._connect(frontier, n)
            f2 = self._run_finallies([(n, '')], frames, idx + 1)
            self._connect(f2, frames[idx]['head'])
            return []
        if isinstance(st, ast.Match):
            t = self._simple(st.subject, 'test', frontier, frames)
            outs = []
            for case in st.cases:
                outs += self._block(case.body, [(t, 'case')], frames)
            outs.append((t, 'nomatch'))
            return outs
        if isinstance(st, ast.Assert):
            n = self._simple(st, 'stmt', frontier, frames)
            if not any(fr['kind'] in ('try', 'finally-only') for fr in frames):
                self._edge(n, self.raise_exit, 'exc')
            return [(n, '')]
        # simple statement (incl. nested def/class, which are just bindings)
        n = self._simple(st, 'stmt', frontier, frames)
        return [(n, '')]

    # -- queries ------------------------------------------------------------
    def find(self, pred: Callable[[Node], bool]) -> List[Node]:
        return [n for n in self.nodes if n.ast is not None and pred(n)]

    def reachable_from(self, start: Node, avoid: Optional[Callable[[Node], bool]] = None, edge_ok: Optional[Callable[[Node, Node, str], bool]] = None) -> Set[int]:
        """Nodes reachable from start without passing *through* an `avoid` node (start itself is not tested)."""
        seen = {start.id}
        stack = [start]
        while stack:
            n = stack.pop()
            for m, lab in n.succ:
                if edge_ok is not None and not edge_ok(n, m, lab):
                    continue
                if m.id in seen:
                    continue
                seen.add(m.id)
                if avoid is not None and avoid(m):
                    continue  # reached but not expanded
                stack.append(m)
        return seen

    def path_avoiding(self, start: Node, goal: Callable[[Node], bool], avoid: Callable[[Node], bool],
                      edge_ok: Optional[Callable[[Node, Node, str], bool]] = None) -> Optional[List[Node]]:
        """A path start -> (node satisfying goal) none of whose intermediate nodes satisfies avoid; None if there is none.
        The goal may be the start node itself: a cycle start -> .. -> start is a path (loop queries "from the header back to the header")."""
        prev: Dict[int, Optional[Node]] = {start.id: None}
        queue = [start]
        closed = False
        while queue:
            n = queue.pop(0)
            for m, lab in n.succ:
                if edge_ok is not None and not edge_ok(n, m, lab):
                    continue
                if m.id in prev and not (m is start and not closed and goal(m)):
                    continue
                if m is start:
                    closed = True  # a cycle back to the start node: report it when the start itself is a goal, once
                    path = [m]
                    cur0: Optional[Node] = n
                    while cur0 is not None:
                        path.append(cur0)
                        cur0 = prev[cur0.id]
                    return list(reversed(path))
                prev[m.id] = n
                if goal(m):
                    path = [m]
                    cur: Optional[Node] = n
                    while cur is not None:
                        path.append(cur)
                        cur = prev[cur.id]
                    return list(reversed(path))
                if avoid(m):
                    continue
                queue.append(m)
        return None

    def dominators(self) -> Dict[int, Set[int]]:
        ids = [n.id for n in self.nodes]
        reach = self.reachable_from(self.entry)
        dom: Dict[int, Set[int]] = {i: set(reach) for i in ids if i in reach}
        dom[self.entry.id] = {self.entry.id}
        changed = True
        order = [n for n in self.nodes if n.id in reach and n is not self.entry]
        while changed:
            changed = False
            for n in order:
                preds = [p.id for p, _ in n.pred if p.id in reach]
                new = set.intersection(*(dom[p] for p in preds)) if preds else set()
                new = new | {n.id}
                if new != dom[n.id]:
                    dom[n.id] = new
                    changed = True
        return dom

    def dominated_by(self, n: Node, pred: Callable[[Node], bool]) -> bool:
        """Every path entry -> n passes a node satisfying pred (n itself excluded)."""
        if n is self.entry:
            return False
        if pred(self.entry):
            return True
        # n reachable from entry avoiding pred-nodes?
        p = self.path_avoiding(self.entry, lambda m: m is n, pred)
        return p is None

    def node_of(self, node: ast.AST) -> List[Node]:
        """CFG nodes whose statement contains the given ast node."""
        out = []
        for n in self.nodes:
            if n.ast is None:
                continue
            if n.ast is node:
                out.append(n)
                continue
            if n.kind in ('loop', 'with'):
                # header only: iter/target or items
                hdr: List[ast.AST] = []
                a = n.ast
                if isinstance(a, (ast.For, ast.AsyncFor)):
                    hdr = [a.iter, a.target]
                elif isinstance(a, (ast.With, ast.AsyncWith)):
                    hdr = list(a.items)
                if any(node is x for h in hdr for x in ast.walk(h)):
                    out.append(n)
            elif n.kind == 'except':
                h = n.ast
                if getattr(h, 'type', None) is not None and any(node is x for x in ast.walk(h.type)):
                    out.append(n)
            else:
                if any(node is x for x in walk_shallow(n.ast)):
                    out.append(n)
        return out


def node_has_await(n: Node) -> bool:
    if n.ast is None:
        return False
    if n.kind == 'loop':
        a = n.ast
        return isinstance(a, ast.AsyncFor) or has_await(a.iter)  # type: ignore[attr-defined]
    if n.kind == 'with':
        a = n.ast
        return isinstance(a, ast.AsyncWith) or any(has_await(i) for i in a.items)  # type: ignore[attr-defined]
    if n.kind == 'except':
        return False
    return has_await(n.ast)


def node_calls(n: Node) -> List[ast.Call]:
    """Calls evaluated *at* this CFG node (header only for compound statements)."""
    if n.ast is None:
        return []
    a = n.ast
    if n.kind == 'loop' and isinstance(a, (ast.For, ast.AsyncFor)):
        return calls_in(a.iter)
    if n.kind == 'with' and isinstance(a, (ast.With, ast.AsyncWith)):
        out: List[ast.Call] = []
        for i in a.items:
            out += calls_in(i)
        return out
    if n.kind == 'except':
        return []
    if isinstance(a, (ast.FunctionDef, ast.AsyncFunctionDef, ast.ClassDef)):
        out = []
        for d in a.decorator_list:
            out += calls_in(d)
        return out
    return calls_in(a)


def node_exprs(n: Node) -> List[ast.AST]:
    """The AST pieces evaluated at this node."""
    if n.ast is None:
        return []
    a = n.ast
    if n.kind == 'loop' and isinstance(a, (ast.For, ast.AsyncFor)):
        return [a.iter, a.target]
    if n.kind == 'with' and isinstance(a, (ast.With, ast.AsyncWith)):
        return list(a.items)
    if n.kind == 'except':
        return [a.type] if getattr(a, 'type', None) is not None else []
    if isinstance(a, (ast.FunctionDef, ast.AsyncFunctionDef, ast.ClassDef)):
        return list(a.decorator_list)
    return [a]


_cfg_cache: Dict[int, CFG] = {}


def cfg(fn: FuncDef) -> CFG:
    k = id(fn)
    if k not in _cfg_cache:
        _cfg_cache[k] = CFG(fn)
    return _cfg_cache[k]


# --------------------------------------------------------------------------------------
# def-use (single-assignment inlining)
# --------------------------------------------------------------------------------------


def assignments(fn: FuncDef) -> Dict[str, List[ast.AST]]:
    """name -> list of value expressions assigned to it anywhere in fn (not nested defs).
    Tuple-unpacking, augmented assignment, loop targets, with-as and except-as are recorded as
    the enclosing statement (opaque)."""
    out: Dict[str, List[ast.AST]] = {}

    def add(name: str, v: ast.AST):
        out.setdefault(name, []).append(v)

    for n in walk_shallow(fn):
        if isinstance(n, ast.Assign):
            for t in n.targets:
                if isinstance(t, ast.Name):
                    add(t.id, n.value)
                else:
                    for x in ast.walk(t):
                        if isinstance(x, ast.Name) and isinstance(x.ctx, ast.Store):
                            add(x.id, n)
        elif isinstance(n, ast.AnnAssign) and isinstance(n.target, ast.Name) and n.value is not None:
            add(n.target.id, n.value)
        elif isinstance(n, ast.AugAssign) and isinstance(n.target, ast.Name):
            add(n.target.id, n)
        elif isinstance(n, (ast.For, ast.AsyncFor, ast.comprehension)):
            for x in ast.walk(n.target):
                if isinstance(x, ast.Name):
                    add(x.id, n)
        elif isinstance(n, (ast.With, ast.AsyncWith)):
            for i in n.items:
                if i.optional_vars is not None:
                    for x in ast.walk(i.optional_vars):
                        if isinstance(x, ast.Name):
                            add(x.id, i)
        elif isinstance(n, ast.ExceptHandler) and n.name:
            add(n.name, n)
        elif isinstance(n, ast.NamedExpr) and isinstance(n.target, ast.Name):
            add(n.target.id, n.value)
    for a in list(fn.args.args) + list(fn.args.kwonlyargs) + list(fn.args.posonlyargs):
        add(a.arg, a)
    if fn.args.vararg:
        add(fn.args.vararg.arg, fn.args.vararg)
    if fn.args.kwarg:
        add(fn.args.kwarg.arg, fn.args.kwarg)
    return out


def single_def(fn: FuncDef, name: str) -> Optional[ast.AST]:
    vals = assignments(fn).get(name, [])
    if len(vals) == 1:
        return vals[0]
    return None


def expand_locals(fn: FuncDef, e: ast.AST, depth: int = 3) -> ast.AST:
    """Copy of e with every local that has exactly one defining expression in fn replaced by that expression (bounded depth).
    Returns e itself (same object) when nothing was replaced."""
    import copy
    params = {a.arg for a in fn.args.posonlyargs + fn.args.args + fn.args.kwonlyargs}
    changed = [False]

    class _S(ast.NodeTransformer):
        def __init__(self, d: int):
            self.d = d

        def visit_Name(self, node: ast.Name):
            if isinstance(node.ctx, ast.Load) and node.id not in params and self.d > 0:
                dd = single_def(fn, node.id)
                if dd is not None and isinstance(dd, ast.expr) and not isinstance(dd, (ast.Await, ast.Yield, ast.YieldFrom)):
                    changed[0] = True
                    return _S(self.d - 1).visit(copy.deepcopy(dd))
            return node

        def visit_Lambda(self, node):
            return node
    out = _S(depth).visit(copy.deepcopy(e))
    return out if changed[0] else e


def resolve_expr(fn: FuncDef, e: ast.AST, depth: int = 3) -> ast.AST:
    """Follow `x` to its unique defining expression (bounded)."""
    cur = e
    for _ in range(depth):
        if isinstance(cur, ast.Name):
            d = single_def(fn, cur.id)
            if d is None or not isinstance(d, ast.expr):
                return cur
            cur = d
        else:
            return cur
    return cur
